#!/venv/bin/python
"""Witness (C16): text that is not an acceptable CoAP URI is rejected with the documented URL errors and nothing else.  On the
pinned tree Message.set_request_uri built the UndecidedRemote (which parses host and port of a bracketed authority itself)
before it checked the port, so 'coap://[::1]:abc/' and 'coap://[::1]:99999/' left with a bare ValueError from urllib, and an
IPvFuture literal 'coap://[v1.x]/' with a bare ValueError from ipaddress, while the same ports on a host name gave
MalformedUrlError.  Exit 1 while that is so."""
import os, sys
sys.path.insert(0, os.environ.get('VERIF_REPO', '/repo'))
import aiocoap
from aiocoap import error
bad = 0
for u in ['coap://[::1]:abc/', 'coap://[::1]:99999/x', 'coap://[fe80::1%eth0]:-1/', 'coap://[v1.x]/', 'coap://host:abc/']:
    try:
        aiocoap.Message(code=aiocoap.GET).set_request_uri(u)
        print(u, 'accepted')
        bad += 1
    except (error.MalformedUrlError, error.IncompleteUrlError) as e:
        print(u, type(e).__name__, e)
    except Exception as e:
        print(u, 'OTHER', type(e).__name__, e)
        bad += 1
sys.exit(1 if bad else 0)
