#!/venv/bin/python
"""Witness (C17, recorded finding): a resource registered at the single empty component ('',) inside a nested site is listed
as <prefix/> in the discovery listing, but a request for that path reaches the nested site's ROOT resource (path ()), because
the router deliberately turns a single empty remaining component into the empty path ("sub-sites should see their root
resource like sites").  Exit 1 while that is so."""
import asyncio, os, sys
sys.path.insert(0, os.environ.get('VERIF_REPO', '/repo'))
from aiocoap import resource, Message, GET, error
from aiocoap.message import Direction


class Leaf(resource.Resource):
    def get_link_description(self):
        return {'title': 'leaf'}

    async def render_get(self, request):
        return Message(payload=b'leaf')

root, inner = resource.Site(), resource.Site()
inner.add_resource(('',), Leaf())
root.add_resource(('sub',), inner)
hrefs = [l.href for l in root.get_resources_as_linkheader().links]
print('listed:', hrefs)
req = Message(code=GET, uri_path=('sub', ''))
req.direction = Direction.INCOMING
try:
    r = asyncio.run(root.render(req))
    print('GET /sub/ ->', r.payload)
    sys.exit(0 if r.payload == b'leaf' else 1)
except error.NotFound:
    print('GET /sub/ -> 4.04 although </sub/> is listed')
    sys.exit(1)
