#!/venv/bin/python
"""Witness (C16): decomposing a URI (RFC 7252 section 6.4) yields the options of THAT URI.  On the pinned tree
Message.set_request_uri reset path and query but kept a Uri-Host left over from an earlier URI when the new host is an IP
literal: the request went to 10.0.0.1 carrying Uri-Host other.example, and composed back to coap://other.example/new.
Exit 1 while that is so."""
import os, sys
sys.path.insert(0, os.environ.get('VERIF_REPO', '/repo'))
import aiocoap
m = aiocoap.Message(code=aiocoap.GET)
m.set_request_uri('coap://other.example/old?x=1')
m.set_request_uri('coap://10.0.0.1/new')
print('Uri-Host:', m.opt.uri_host, ' destination:', m.remote.hostinfo, ' composed:', m.get_request_uri())
sys.exit(0 if m.opt.uri_host is None and m.get_request_uri() == 'coap://10.0.0.1/new' else 1)
