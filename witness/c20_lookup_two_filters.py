#!/venv/bin/python
"""Witness (C20): an endpoint / resource lookup with two filter parameters must list exactly the registrations matching BOTH.
On the pinned tree the lookups build lazy generator expressions that read the loop variables `search_key` / `matches` only when
they are finally consumed, so only the LAST filter is applied (twice): `?ep=a&et=y` lists endpoint b.  Exit 1 while that is so."""
import asyncio, os, sys
sys.path.insert(0, os.environ.get('VERIF_REPO', '/repo'))
import aiocoap
from aiocoap import Message, GET, POST, error
from aiocoap.numbers import ContentFormat
from aiocoap.message import Direction
from aiocoap.cli.rd import StandaloneResourceDirectory


class Remote:
    def __init__(self, n):
        self.uri = 'coap://[2001:db8::%d]' % n
        self.scheme, self.hostinfo, self.hostinfo_local = 'coap', '[2001:db8::%d]' % n, 'rd.example'
        self.is_multicast = self.is_multicast_locally = False
        self.maximum_block_size_exp, self.maximum_payload_size = 6, 1024


async def req(site, remote, code, path, query=(), payload=b'', cf=None):
    m = Message(code=code, payload=payload)
    m.opt.uri_path, m.opt.uri_query = tuple(path), tuple(query)
    if cf is not None:
        m.opt.content_format = cf
    m.remote, m.direction = remote, Direction.INCOMING
    try:
        return await site.render(m)
    except error.RenderableError as e:
        return e.to_message()


async def main():
    site = StandaloneResourceDirectory(context=None)
    await req(site, Remote(1), POST, site.rd_path, ['ep=a', 'et=x'], b'</s1>;rt="t1"', ContentFormat.LINKFORMAT)
    await req(site, Remote(2), POST, site.rd_path, ['ep=b', 'et=y'], b'</s2>;rt="t2"', ContentFormat.LINKFORMAT)
    bad = 0
    for path, q, want in ((site.ep_lookup_path, ['ep=a', 'et=y'], []), (site.ep_lookup_path, ['ep=a', 'et=x'], ['a']), (site.ep_lookup_path, ['et=y', 'ep=a'], []),
                          (site.res_lookup_path, ['ep=a', 'rt=t2'], []), (site.res_lookup_path, ['ep=b', 'rt=t2'], ['s2'])):
        r = (await req(site, Remote(9), GET, path, q)).payload.decode()
        got = [n for n in ('a', 'b') if 'ep="%s"' % n in r] if path == site.ep_lookup_path else [n for n in ('s1', 's2') if '/%s>' % n in r]
        print('/'.join(path), '?' + '&'.join(q), '->', got, 'expected', want)
        bad |= got != want
    for t in asyncio.all_tasks():
        if t is not asyncio.current_task():
            t.cancel()
    return 1 if bad else 0

sys.exit(asyncio.run(main()))
