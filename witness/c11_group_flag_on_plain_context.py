#!/venv/bin/python
"""Witness (C11): flipping the group flag (bit 5) of the OSCORE option of a genuine protected request makes
CanUnprotect.unprotect of a plain (non-group) context raise AttributeError ('... has no attribute alg_signature')
instead of a protection error: the code catches NameError, which an attribute read never raises.
Exit 1 = the defect is present, 0 = a protection error is raised.
Uses the functional stand-ins of specs/oscore_standins.py for the absent crypto/CBOR libraries."""
import os, sys
sys.path.insert(0, os.path.dirname(os.path.dirname(os.path.abspath(__file__))))
sys.path.insert(0, os.environ.get('VERIF_REPO', '/repo'))
from specs.oscore_standins import load_oscore, pair, over_the_wire
oscore = load_oscore()
from aiocoap import Message, GET
from aiocoap.message import Direction

client, server = pair()
m = Message(code=GET, uri_path=['a'])
m.direction = Direction.OUTGOING
protected, _ = client.protect(m)
wire = over_the_wire(protected)
wire.opt.oscore = bytes([wire.opt.oscore[0] | 0x20]) + wire.opt.oscore[1:]
try:
    server.unprotect(wire)
    print('unprotect accepted a message whose option was changed')
    sys.exit(1)
except oscore.ProtectionInvalid as e:
    print('held: rejected with', type(e).__name__, e)
    sys.exit(0)
except BaseException as e:
    print('VIOLATED: %s escapes unprotect: %s' % (type(e).__name__, e))
    sys.exit(1)
