#!/venv/bin/python
"""Witness (C20): requests to the resource directory that are answered 4.00 must leave it unchanged.
 (a) re-registration of an existing (ep, d) with an invalid parameter (lt=abc): answered 4.00, but the old registration
     has already been deleted (CommonRD.initialize_endpoint deletes before Registration.__init__ validates);
 (b) registration update (POST to the registration resource) with a body: answered 4.00, but the lt of the query has
     already been applied (RegistrationResource.render_post updates before it checks the body).
Exit 1 if either defect is present, 0 if both requests leave the directory unchanged."""
import asyncio, os, sys
sys.path.insert(0, os.environ.get('VERIF_REPO', '/repo'))
import aiocoap
from aiocoap import Message, POST, error
from aiocoap.cli import rd


class FakeRemote:
    uri = 'coap://[2001:db8::1]'
    hostinfo = '[2001:db8::1]'


def post(path, query, payload=b'', cf=None):
    m = Message(code=POST, uri_path=path, uri_query=query, payload=payload)
    if cf is not None:
        m.opt.content_format = cf
    m.remote = FakeRemote()
    return m


async def main():
    bad = 0
    common = rd.CommonRD()
    directory = rd.DirectoryResource(common)
    # ---- (a)
    r = await directory.render_post(post(['rd'], ['ep=node1', 'lt=1000'], b'</a>', 40))
    assert r.code == aiocoap.CREATED
    before = dict(common._by_key)
    try:
        await directory.render_post(post(['rd'], ['ep=node1', 'lt=abc'], b'</b>', 40))
        print('(a) unexpected success')
    except error.BadRequest as e:
        if dict(common._by_key) != before:
            print('(a) VIOLATED: re-registration answered 4.00 (%s) but the registration of node1 is gone: %r' % (e, common._by_key))
            bad = 1
        else:
            print('(a) held: rejected re-registration left the directory unchanged')
    # ---- (b)
    common = rd.CommonRD()
    directory = rd.DirectoryResource(common)
    await directory.render_post(post(['rd'], ['ep=node2', 'lt=1000'], b'</a>', 40))
    reg = common._by_key[('node2', None)]
    resource = rd.RegistrationResource(reg)
    try:
        await resource.render_post(post([], ['lt=60'], b'unexpected body'))
        print('(b) unexpected success')
    except error.BadRequest as e:
        if reg.lt != 1000:
            print('(b) VIOLATED: update answered 4.00 (%s) but lt is now %r' % (e, reg.lt))
            bad = 1
        else:
            print('(b) held: rejected update left the registration unchanged')
    for t in asyncio.all_tasks():
        if t is not asyncio.current_task():
            t.cancel()
    return bad

sys.exit(asyncio.run(main()))
