"""Known finding C17 (literal reading of 'longest proper prefix'): a nested site registered at the empty path is never
considered, because the prefix search stops before the empty prefix.  Exit 1 while the behaviour is present."""
import asyncio, sys
from aiocoap import Message, GET, resource

class R(resource.Resource):
    async def render_get(self, request):
        return Message(payload=b"inner")

inner = resource.Site()
inner.add_resource(["x"], R())
outer = resource.Site()
outer.add_resource([], inner)          # nested site at the empty path
req = Message(code=GET)
req.opt.uri_path = ("x",)
try:
    child, stripped = outer._find_child_and_pathstripped_message(req)
    print("routed to", child, stripped.opt.uri_path)
    sys.exit(0)
except KeyError:
    print("request /x is not routed to the nested site registered at () -> 4.04")
    sys.exit(1)
