#!/venv/bin/python
"""Witness (C17): an RFC 6690 filter query on a single-valued attribute (title, rel, anchor, ...) of /.well-known/core must return
exactly the matching links.  On the pinned tree WKCResource.render_get iterated the CHARACTERS of such a value:
`?title=plain` returned nothing, `?title=a` returned every link whose title contains an "a".  Exit 1 while that is so."""
import asyncio, os, sys
sys.path.insert(0, os.environ.get('VERIF_REPO', '/repo'))
from aiocoap import resource, Message, GET
from aiocoap.message import Direction
from aiocoap.util.linkformat import parse


class Leaf(resource.Resource):
    def __init__(self, **d):
        super().__init__()
        self.d = d

    def get_link_description(self):
        return dict(self.d)


class Remote:
    is_multicast = is_multicast_locally = False

root = resource.Site()
root.add_resource(('x',), Leaf(title='plain'))
root.add_resource(('y',), Leaf(title='a=b'))
wkc = resource.WKCResource(root.get_resources_as_linkheader, impl_info=None)
bad = 0
for q, want in (('title=plain', {'/x'}), ('title=a', set()), ('title=a=b', {'/y'}), ('title=pl*', {'/x'})):
    req = Message(code=GET, uri_query=(q,))
    req.direction, req.remote = Direction.INCOMING, Remote()
    got = {l.href for l in parse(asyncio.run(wkc.render_get(req)).payload.decode()).links}
    print('?%s ->' % q, sorted(got), 'expected', sorted(want))
    bad |= got != want
sys.exit(1 if bad else 0)
