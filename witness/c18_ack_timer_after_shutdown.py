#!/venv/bin/python
"""Witness (C18): after shutdown has returned, no timer or callback of the context raises in the event loop.  On the pinned tree
MessageManager.shutdown left the empty-ACK timers of requests still being processed armed: a confirmable request whose handler
is still running when the context is shut down has its timer fire EMPTY_ACK_DELAY later into the transport that was shut down
(AttributeError in RecvmsgSelectorDatagramTransport, reported to the loop's exception handler).  Exit 1 while that is so."""
import asyncio, logging, os, sys, warnings
sys.path.insert(0, os.environ.get('VERIF_REPO', '/repo'))
warnings.simplefilter('ignore')
import aiocoap, aiocoap.resource as resource
from aiocoap import Message, GET, CON
logging.basicConfig(level=logging.ERROR)


class Slow(resource.Resource):
    async def render_get(self, request):
        await asyncio.sleep(10)
        return Message(payload=b'x')


async def main():
    loop = asyncio.get_running_loop()
    errs = []
    loop.set_exception_handler(lambda l, c: errs.append(c))
    site = resource.Site()
    site.add_resource(['slow'], Slow())
    srv = await aiocoap.Context.create_server_context(site, bind=('::1', 56831))

    class P(asyncio.DatagramProtocol):
        def __init__(s):
            s.got = []

        def datagram_received(s, d, a):
            s.got.append((loop.time(), d))
    tr, pr = await loop.create_datagram_endpoint(P, remote_addr=('::1', 56831))
    req = Message(code=GET, mtype=CON, mid=0x1234, token=b'\x01')
    req.opt.uri_path = ('slow',)
    tr.sendto(req.encode())
    await asyncio.sleep(0.02)           # request accepted, handler running, empty-ACK timer armed (EMPTY_ACK_DELAY = 0.1 s)
    await srv.shutdown()
    t_shut = loop.time()
    await asyncio.sleep(0.5)
    late = [d for (t, d) in pr.got if t > t_shut]
    print('datagrams after shutdown:', late)
    print('errors reported to the event loop after shutdown:', [(c.get('message', '')[:90], repr(c.get('exception'))[:120]) for c in errs])
    tr.close()
    return 1 if late or errs else 0

sys.exit(asyncio.run(main()))
