"""Witness for a C05 defect of the pinned tree (fixed in /repo): a Block1 upload that starts with BERT blocks
(size exponent 7, RFC 8323) and whose server answers with size exponent 6.  Exponent 7 and 6 both count in
1024-byte units, so the next block number must stay NUM + (bytes sent // 1024); the pinned code doubled it.
Exit 1 if the client's next block is not contiguous, 0 otherwise."""
import asyncio, logging, sys
from aiocoap import Message
from aiocoap.numbers.codes import PUT, CHANGED, CONTINUE
from aiocoap.protocol import BlockwiseRequest


class Remote:
    is_multicast = False
    is_multicast_locally = False
    maximum_block_size_exp = 7
    maximum_payload_size = 2048 + 100
    blockwise_key = ("x",)
    hostinfo = "s"; hostinfo_local = "c"; scheme = "coap+tcp"; uri_base = "coap+tcp://s"; uri_base_local = "coap+tcp://c"


class Plain:
    def __init__(self, fut):
        self.response = fut
        self.observation = None


class Proto:
    def __init__(self, loop):
        self.loop = loop
        self.log = logging.getLogger("w")
        self.remote = Remote()
        self.wire = []

    async def find_remote_and_interface(self, m):
        m.remote = self.remote

    def request(self, msg, handle_blockwise=True):
        b1 = msg.opt.block1
        self.wire.append((b1.block_number, b1.more, b1.size_exponent, len(msg.payload)))
        if b1.more:
            r = Message(code=CONTINUE, block1=(b1.block_number, True, 6))   # server prefers 1024-byte blocks
        else:
            r = Message(code=CHANGED, block1=(b1.block_number, False, 6))
        r.remote = self.remote
        f = self.loop.create_future()
        f.set_result(r)
        return Plain(f)


async def main():
    loop = asyncio.get_running_loop()
    p = Proto(loop)
    req = Message(code=PUT, payload=bytes(range(256)) * 20)   # 5120 bytes
    fut = loop.create_future()
    await BlockwiseRequest._run(req, fut, lambda: None, p, logging.getLogger("w"))
    offset, ok = 0, True
    for num, more, szx, n in p.wire:
        if num * 1024 != offset:
            print("block NUM=%d szx=%d starts at %d, but %d bytes were sent before" % (num, szx, num * 1024, offset))
            ok = False
        offset += n
    print("wire:", p.wire)
    return ok

if __name__ == "__main__":
    sys.exit(0 if asyncio.run(main()) else 1)
