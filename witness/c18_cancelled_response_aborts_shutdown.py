#!/venv/bin/python
"""Witness (C18 / C02): shutdown itself completes, whatever the state of ongoing exchanges.  On the pinned tree Request._run
completed its response future without looking whether the application had cancelled it: the future's done callback
(_response_cancellation_handler) runs one loop iteration later, and with block-wise handling (the default) the cancellation
travels through two such hops.  `request.response.cancel()` directly followed by `await context.shutdown()` -- ordinary
tear-down code -- made TokenManager.shutdown feed LibraryShutdown into the generator, which raised InvalidStateError out of
shutdown().  Exit 1 while that is so."""
import asyncio, logging, os, sys, warnings
sys.path.insert(0, os.environ.get('VERIF_REPO', '/repo'))
warnings.simplefilter('ignore')
import aiocoap
from aiocoap import Message, GET
logging.basicConfig(level=logging.ERROR)


async def scenario(handle_blockwise, port):
    loop = asyncio.get_running_loop()
    errs = []
    loop.set_exception_handler(lambda l, c: errs.append((c.get('message', '')[:80], repr(c.get('exception'))[:100])))

    class Silent(asyncio.DatagramProtocol):
        def datagram_received(self, d, a):
            pass
    tr, _ = await loop.create_datagram_endpoint(Silent, local_addr=('::1', port))
    ctx = await aiocoap.Context.create_client_context()
    r = ctx.request(Message(code=GET, uri='coap://[::1]:%d/x' % port), handle_blockwise=handle_blockwise)
    await asyncio.sleep(0.1)
    r.response.cancel()
    try:
        await asyncio.wait_for(ctx.shutdown(), 5)
        out = None
    except Exception as e:
        out = '%s: %s' % (type(e).__name__, e)
    await asyncio.sleep(0.2)
    print('handle_blockwise=%s: shutdown %s; errors reported to the loop: %r' % (handle_blockwise, 'completed' if out is None else 'raised ' + out, errs))
    tr.close()
    return 1 if out or errs else 0


async def main():
    return (await scenario(True, 56852)) | (await scenario(False, 56853))

sys.exit(asyncio.run(main()))
