#!/venv/bin/python
"""Witness (C16): every CoAP URI of a supported scheme is decomposed, and text that is not acceptable is rejected with the documented
URL errors and nothing else.  On the pinned tree Message.set_request_uri decided "is the host an IPv4 literal" with int() on every
dot-separated component as soon as the host had three dots and consisted of digits and dots: 'coap://1..2.3/' (a valid reg-name) left
with a bare ValueError from int(''), as did a component longer than the interpreter's int/str conversion limit.  Found by the
deductive check (Message.set_request_uri/only_raises: ValueError can escape).  Exit 1 while that is so."""
import os, sys
sys.path.insert(0, os.environ.get('VERIF_REPO', '/repo'))
import aiocoap
from aiocoap import error
bad = 0
for u, host in [('coap://1..2.3/', '1..2.3'), ('coap://.../x', '...'), ('coap://1.2.3./', '1.2.3.'), ('coap://1.2.3.' + '1' * 5000 + '/', '1.2.3.' + '1' * 5000),
                ('coap://1.2.3.4/', None), ('coap://1.2.3.256/', '1.2.3.256')]:
    try:
        m = aiocoap.Message(code=aiocoap.GET)
        m.set_request_uri(u)
        ok = m.opt.uri_host == host
        print(u[:40], 'accepted, Uri-Host', repr(m.opt.uri_host)[:40], '' if ok else 'UNEXPECTED')
        bad += not ok
    except (error.MalformedUrlError, error.IncompleteUrlError) as e:
        print(u[:40], type(e).__name__, e)
    except Exception as e:
        print(u[:40], 'OTHER', type(e).__name__, str(e)[:80])
        bad += 1
sys.exit(1 if bad else 0)
