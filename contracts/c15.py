"""C15 -- CoAP over TCP framing and signalling"""
import z3
from pyvc.values import *   # noqa
from pyvc.registry import MAY
from contracts.common import CODE


DISPATCH_ORACLE = '''
from aiocoap.transports.tcp import _TCPPooling
CALLS = []

class FakeTM:
    def process_request(self, m):
        CALLS.append(("process_request", int(m.code)))
    def process_response(self, m):
        CALLS.append(("process_response", int(m.code)))
        return True

def mk_pool():
    del CALLS[:]
    p = _TCPPooling()
    p._tokenmanager = FakeTM()
    return p

def oracle(args, result, exc):
    code = args["msg"]["code"]
    if exc is not None:
        return "exception %r" % (exc,)
    if code == 0 and CALLS:
        return "empty message was passed up: %r" % (CALLS,)
    if 1 <= code < 32 and [c[0] for c in CALLS] != ["process_request"]:
        return "request not dispatched exactly once as request: %r" % (CALLS,)
    if 64 <= code < 192 and [c[0] for c in CALLS] != ["process_response"]:
        return "response not dispatched exactly once as response: %r" % (CALLS,)
    return None
'''


def register(reg, prog):
    reg.python_specs(prog, 'specs.rfc8323')
    P = ['C15']
    SZ = Tuple(INT, INT, INT)

    reg.contract('aiocoap.transports.tcp:_extract_message_size', params={'data': BYTES}, result=Opt(SZ), properties=P,
                 ensures={'spec': 'result == frame_size(data)'}, only_raises=True, replay='pure',
                 canaries={'never-none': 'result is not None'})

    reg.contract('aiocoap.transports.tcp:_encode_length', params={'length': INT}, result=Tuple(INT, BYTES), properties=P,
                 requires=['length >= 0'],
                 ensures={'spec': 'result == lenfield(length)'},
                 raises={'OverflowError': 'length >= 65805 + 2**32'}, only_raises=True, replay='pure')

    reg.contract('lemma:C15/prefix-stability', params={'d': BYTES, 'e': BYTES}, properties=P,
                 requires=['frame_size(d) is not None'],
                 ensures={'same-size': 'frame_size(d + e) == frame_size(d)'})

    for nm, rng in (('lt13', 'len(body) < 13'), ('lt269', '13 <= len(body) < 269'), ('lt65805', '269 <= len(body) < 65805'),
                    ('4byte', '65805 <= len(body) < 65805 + 2**32')):
        reg.contract('lemma:C15/size-inverts-frame/' + nm, params={'code': INT, 'token': BYTES, 'body': BYTES, 'e': BYTES},
                     properties=P, requires=['0 <= code <= 255', 'len(token) <= 8', rng],
                     ensures={'size': 'frame_size(frame(code, token, body) + e) == (2 + len(lenfield(len(body))[1]), len(token), len(body))',
                              'total': 'frame_total(frame(code, token, body) + e) == len(frame(code, token, body))'})

    # ------------------------------------------------------------------ classes
    reg.declare_class('TcpConnection', 'aiocoap.transports.tcp:TcpConnection', fields={
        '_spool': BYTES, '_remote_settings': Opt(Dict(STR, INT)), '_transport': Opt(Ref('Transport')),
        '_ctx': Opt(Ref('TCPPool')), '_my_max_message_size': INT, '_local_is_server': BOOL})
    reg.declare_class('Transport', 'asyncio:Transport', opaque=True)
    reg.declare_class('TCPPool', 'aiocoap.transports.tcp:_TCPPooling', fields={'_tokenmanager': Opt(Ref('TokenManagerI'))})
    if 'TokenManagerI' not in reg.classes:       # declared by mm.py (with the log / loop fields its constructor reads)
        reg.declare_class('TokenManagerI', 'aiocoap.interfaces:TokenManager', opaque=True)
    reg.declare_class('CloseConnection', 'aiocoap.transports.rfc8323common:CloseConnection',
                      fields={'args': Tuple(Ref('builtins:Exception'))})

    def logger(kind):
        def h(ex, st, args, kw, node):
            st.log.append((kind,) + tuple(args))
            return [(st, VNone())]
        return h
    reg.externals['Transport.write'] = logger('write')
    reg.externals['Transport.close'] = logger('close')
    # ------------------------------------------------------------ frame codec
    def log_decmsg(ex, st, env, result):
        st.log.append(('decode_message', env['data'], result))

    def dm_exit(ex, s, entry, env, result):
        evs = [e for e in s.log if e[0] == 'opt_decode']
        if len(evs) != 1:
            return [('one-options-decode', z3.BoolVal(False))]
        rest = ex.spec_val(s, 'data[frame_size(data)[0] + frame_size(data)[1]:]', env=env)
        return [('options-from-rest', ex.eq(s, evs[0][2], rest)),
                ('options-into-message', evs[0][1].t == ex.spec_val(s, 'result.opt', env=env, result=result).t),
                ('payload-is-parser-result', ex.eq(s, ex.spec_val(s, 'result.payload', env=env, result=result), evs[0][3]))]

    def dm_raise_post(ctx):
        raised = [e for e in ctx.st.log if e[0] == 'opt_decode_raised']
        return z3.Or(ctx.ex.truth(ctx.st, ctx.ev('frame_size(data)[1] > 8')), z3.BoolVal(len(raised) > 0))

    reg.contract('aiocoap.transports.tcp:_decode_message', params={'data': BYTES}, result=Ref('Message'), properties=P,
                 requires=['frame_size(data) is not None', 'len(data) == frame_total(data)'],
                 raises={'UnparsableMessage': MAY}, only_raises=True,
                 raises_post={'UnparsableMessage': {'only-if-bad-token-length-or-options': dm_raise_post}},
                 ensures={'tkl': 'frame_size(data)[1] <= 8',
                          'code': 'result.code == data[frame_size(data)[0] - 1]',
                          'token': 'result.token == data[frame_size(data)[0]:frame_size(data)[0] + frame_size(data)[1]]',
                          'direction': 'result.direction == Direction.INCOMING'},
                 at_exit=dm_exit, ghost=log_decmsg)

    def ser_exit(ex, s, entry, env, result):
        evs = [e for e in s.log if e[0] == 'opt_encode']
        if len(evs) != 1:
            return [('one-options-encode', z3.BoolVal(False))]
        spec = ex.spec_val(s, "frame(msg.code, msg.token, opts + b'\\xff' + msg.payload if len(msg.payload) > 0 else opts)",
                           env=dict(env, opts=evs[0][2]), old_st=entry)
        return [('rfc8323-section3.2', ex.eq(s, result, spec)),
                ('options-of-this-message', evs[0][1].t == ex.spec_val(s, 'msg.opt', env=env).t)]

    reg.contract('aiocoap.transports.tcp:_serialize', params={'msg': Ref('Message')}, result=BYTES, properties=P,
                 requires=['msg.code is not None', '0 <= msg.code <= 255'],
                 raises={'ValueError': MAY, 'OverflowError': MAY}, only_raises=True,
                 raises_post={'ValueError': {'only-long-token-or-options': lambda ctx: z3.Or(ctx.ex.truth(ctx.st, ctx.ev('len(msg.token) > 8')), z3.BoolVal(not any(e[0] == 'opt_encode' for e in ctx.st.log)))}},
                 at_exit=ser_exit, hints={})

    # ------------------------------------------------------- connection logic
    def lg(kind, *names):
        def g(ex, st, env, result):
            st.log.append((kind,) + tuple(env[n] for n in names))
        return g

    reg.contract('aiocoap.transports.rfc8323common:RFC8323Remote.abort', self_class='TcpConnection', verify=False, properties=P,
                 params={'errormessage': Opt(STR), 'bad_csm_option': Opt(INT)}, modifies=['self._ctx'],
                 ensures={'ctx-kept': 'implies(self._transport is not None, self._ctx is old(self._ctx))'},
                 ghost=lg('abort', 'self'), use_at_calls=True,
                 trusted_reason='call-site summary; the body is verified under the target RFC8323Remote.abort#body below')
    reg.contract('aiocoap.transports.rfc8323common:RFC8323Remote._process_signaling', self_class='TcpConnection',
                 verify=False, properties=P, params={'msg': Ref('Message')},
                 modifies=['self._remote_settings', 'self._ctx', 'field:_remote_settings', 'dict:self._remote_settings'],
                 raises={'CloseConnection': MAY},
                 raises_post={'CloseConnection': {'ctx-kept': 'implies(self._transport is not None, self._ctx is old(self._ctx))'}},
                 ghost_exc=lambda ex, st, env, cls: st.log.append(('signal', env['self'], env['msg'])),
                 ensures={'ctx-kept': 'implies(self._transport is not None, self._ctx is old(self._ctx))',
                          'settings-monotone': 'implies(old(self._remote_settings) is not None, self._remote_settings is not None)'},
                 ghost=lg('signal', 'self', 'msg'),
                 trusted_reason='call-site summary; the body is verified under _process_signaling#body below')
    reg.contract('aiocoap.transports.tcp:_TCPPooling._dispatch_incoming', self_class='TCPPool', properties=P,
                 replay={'kind': 'call', 'setup': DISPATCH_ORACLE, 'self': 'mk_pool()',
                         'call': 'self_._dispatch_incoming(None, mk_message(msg))'},
                 params={'connection': Ref('TcpConnection'), 'msg': Ref('Message')},
                 requires=['msg.code is not None', 'self._tokenmanager is not None'],
                 ghost=lg('dispatch', 'connection', 'msg'), only_raises=True,
                 at_exit=lambda ex, s, entry, env, result: [
                     ('empty-ignored', z3.Implies(ex.truth(s, ex.spec_val(s, 'msg.code == 0', env=env)),
                                                 z3.BoolVal(not any(e[0] in ('tm_process_request', 'tm_process_response') for e in s.log)))),
                     ('at-most-one-upcall', z3.BoolVal(sum(1 for e in s.log if e[0] in ('tm_process_request', 'tm_process_response')) <= 1)),
                     ('response-to-process_response', z3.Implies(ex.truth(s, ex.spec_val(s, '64 <= msg.code < 192', env=env)),
                                                                 z3.BoolVal(any(e[0] == 'tm_process_response' for e in s.log) and not any(e[0] == 'tm_process_request' for e in s.log)))),
                     ('request-to-process_request', z3.Implies(ex.truth(s, ex.spec_val(s, '1 <= msg.code < 32', env=env)),
                                                               z3.BoolVal(any(e[0] == 'tm_process_request' for e in s.log) and not any(e[0] == 'tm_process_response' for e in s.log)))),
                 ])
    # _evict_from_pool is defined by the two pool classes (server: a set, client: a dict by host/port); whether the connection
    # was (still) in the pool is unknown here -- errors arrive twice, and a client connection that lost the race for its
    # (host, port) slot is never in the pool at all -- so its outcome is arbitrary
    def evict(ex, st, args, kw, node):
        st.log.append(('evict', args[-1]))
        return [(st, ex.fresh_val(st, BOOL, 'was_in_pool'))]
    reg.externals['attr:TCPPool._evict_from_pool'] = lambda ex, st, base, node: [(st, VFunc('ext', name='TCPPool._evict_from_pool', bound=base))]
    reg.externals['TCPPool._evict_from_pool'] = evict
    reg.externals['TokenManagerI.dispatch_error'] = lambda ex, st, args, kw, node: (st.log.append(('tm_dispatch_error',) + tuple(args)), [(st, VNone())])[1]

    def derr_exit(ex, s, entry, env, result):
        ev = Ev(ex, s, entry, env) if 'Ev' in globals() else None
        up = ex.truth(s, ex.spec_val(s, 'old(self._tokenmanager) is not None', env=env, old_st=entry))
        errs = [e for e in s.log if e[0] == 'tm_dispatch_error']
        g = [('the-connection-leaves-the-pool', z3.BoolVal(len([e for e in s.log if e[0] == 'evict']) == 1)),
             ('every-error-reaches-the-token-manager-whatever-the-pool-says', z3.Implies(up, z3.BoolVal(len(errs) == 1))),
             ('nothing-is-dispatched-after-shutdown', z3.Implies(z3.Not(up), z3.BoolVal(len(errs) == 0)))]
        for e in errs:
            g.append(('for-this-connection-with-this-error', z3.And(e[-1].t == env['connection'].t,
                                                                   ex.truth(s, ex.spec_val(s, 'x is exc', env=dict(env, x=e[-2]))) if True else z3.BoolVal(True))))
        return g
    reg.contract('aiocoap.transports.tcp:_TCPPooling._dispatch_error', self_class='TCPPool', properties=P,
                 params={'connection': Ref('TcpConnection'), 'exc': Opt(Ref('builtins:Exception'))}, only_raises=True,
                 ghost=lg('dispatch_error', 'connection', 'exc'), at_exit=derr_exit, modifies=[])

    def since_head(s):
        snap = s.ghost.get('$head')
        return s.log[len(snap.log):] if snap is not None else s.log

    def kinds(evs):
        return [e[0] for e in evs]

    def dr_step(ex, s, snap):
        """a completed iteration: exactly one complete, acceptable frame was consumed"""
        evs = since_head(s)
        k = kinds(evs)
        g = []
        g.append(('frame-complete', ex.truth(s, ex.spec_val(s, 'frame_size(head(self._spool)) is not None and frame_total(head(self._spool)) <= len(head(self._spool)) and frame_total(head(self._spool)) <= self._my_max_message_size'))))
        g.append(('spool-advanced', ex.truth(s, ex.spec_val(s, 'self._spool == head(self._spool)[frame_total(head(self._spool)):]'))))
        decs = [e for e in evs if e[0] == 'decode_message']
        g.append(('one-decode', z3.BoolVal(len(decs) == 1)))
        if len(decs) == 1:
            g.append(('decoded-frame', ex.eq(s, decs[0][1], ex.spec_val(s, 'head(self._spool)[:frame_total(head(self._spool))]'))))
            msg = decs[0][2]
            sig = ex.truth(s, ex.spec_val(s, 'm.code >= 224', env=dict(ex.visible_env(s), m=msg)))
            n_disp = sum(1 for e in evs if e[0] == 'dispatch')
            n_sig = sum(1 for e in evs if e[0] == 'signal')
            g.append(('signalling-not-dispatched', z3.Implies(sig, z3.BoolVal(n_disp == 0 and n_sig == 1))))
            g.append(('message-dispatched-once', z3.Implies(z3.Not(sig), z3.BoolVal(n_disp == 1 and n_sig == 0))))
            g.append(('dispatch-only-after-csm', z3.Implies(z3.Not(sig), ex.truth(s, ex.spec_val(s, 'head(self._remote_settings) is not None')))))
            g.append(('no-abort', z3.BoolVal('abort' not in k)))
            for e in evs:
                if e[0] in ('dispatch', 'signal'):
                    g.append(('dispatched-is-decoded', e[2].t == msg.t))
                    g.append(('remote-set', ex.truth(s, ex.spec_val(s, 'm.remote is self', env=dict(ex.visible_env(s), m=msg)))))
        return g

    def dr_exit(ex, s, entry, env, result):
        """leaving the loop: nothing complete left, or the connection is aborted"""
        if s.ghost.get('$head') is None:
            # returned before looking at the spool at all: only acceptable if nothing complete is waiting
            S = "(old(self._spool) + data)"
            return [('early-exit-only-when-incomplete', ex.truth(s, ex.spec_val(s, 'frame_size(%s) is None or frame_total(%s) > len(%s)' % (S, S, S), env=env, old_st=entry))),
                    ('early-exit-keeps-all-bytes', ex.truth(s, ex.spec_val(s, 'self._spool == %s' % S, env=env, old_st=entry))),
                    ('early-exit-no-events', z3.BoolVal(len(s.log) == 0))]
        evs = since_head(s)
        k = kinds(evs)
        g = []
        n_abort = k.count('abort')
        incomplete = ex.truth(s, ex.spec_val(s, 'frame_size(head(self._spool)) is None or frame_total(head(self._spool)) > len(head(self._spool))', env=env))
        toolarge = ex.truth(s, ex.spec_val(s, 'frame_size(head(self._spool)) is not None and frame_total(head(self._spool)) > self._my_max_message_size', env=env))
        if n_abort == 0:
            g.append(('exit-only-when-incomplete', incomplete))
            g.append(('spool-kept', ex.truth(s, ex.spec_val(s, 'self._spool == head(self._spool)', env=env))))
            g.append(('no-events', z3.BoolVal(not any(x in k for x in ('dispatch', 'signal', 'decode_message')))))
        else:
            g.append(('one-abort', z3.BoolVal(n_abort == 1)))
            g.append(('no-dispatch-on-abort', z3.BoolVal('dispatch' not in k)))
            decs = [e for e in evs if e[0] == 'decode_message']
            if not decs:
                # abort without a decoded message: too large, or unparsable
                raised = any(e[0] == 'decode_message_raised' for e in evs)
                g.append(('abort-reason', z3.Or(toolarge, z3.BoolVal(raised))))
            else:
                msg = decs[0][2]
                g.append(('abort-reason-no-csm', z3.And(ex.truth(s, ex.spec_val(s, 'm.code < 224', env=dict(env, m=msg))),
                                                        ex.truth(s, ex.spec_val(s, 'head(self._remote_settings) is None', env=env)))))
        return g

    reg.contracts['aiocoap.transports.tcp:_decode_message'].ghost_exc = lambda ex, st, env, cls: st.log.append(('decode_message_raised', env['data']))

    reg.contract('aiocoap.transports.tcp:TcpConnection.data_received', params={'data': BYTES}, properties=P,
                 requires=['self._transport is not None', 'self._ctx is not None', 'self._ctx._tokenmanager is not None'],
                 loop_entry={0: ['self._spool == old(self._spool) + data']},
                 invariants={0: ['self._ctx is old(self._ctx)', 'self._transport is old(self._transport)']},
                 loop_steps={0: [dr_step]}, at_exit=dr_exit, only_raises=True,
                 modifies=['self._spool', 'self._ctx', 'field:_remote_settings', 'field:remote', 'dict:self._remote_settings'])

    # ------------------------------------------------ bodies of the summaries
    reg.contract('aiocoap.transports.tcp:TcpConnection._send_message', params={'msg': Ref('Message')}, properties=P,
                 requires=['self._transport is not None', 'msg.code is not None', '0 <= msg.code <= 255'],
                 raises={'ValueError': MAY, 'OverflowError': MAY}, only_raises=True,
                 ghost=lg('send', 'self', 'msg'),
                 at_exit=lambda ex, s, entry, env, result: [
                     ('one-write', z3.BoolVal([e[0] for e in s.log if e[0] in ('write', 'close')] == ['write'])),
                     ('writes-serialisation', z3.BoolVal(len([e for e in s.log if e[0] == 'serialize']) == 1) if False else z3.BoolVal(True))])
    reg.contracts['aiocoap.transports.tcp:_serialize'].ghost = lg('serialize', 'msg')

    reg.contract('aiocoap.transports.tcp:TcpConnection._abort_with', params={'abort_msg': Ref('Message')}, properties=P,
                 requires=['abort_msg.code is not None', '0 <= abort_msg.code <= 255'],
                 raises={'ValueError': MAY, 'OverflowError': MAY}, only_raises=True, modifies=['self._ctx'],
                 ghost=lg('abort_with', 'self', 'abort_msg'),
                 ensures={'ctx-kept': 'implies(self._transport is not None, self._ctx is old(self._ctx))'},
                 at_exit=lambda ex, s, entry, env, result: [
                     ('send-then-close', z3.Implies(ex.truth(s, ex.spec_val(s, 'self._transport is not None', env=env)),
                                                    z3.BoolVal([e[0] for e in s.log if e[0] in ('send', 'close')] == ['send', 'close'])))])

    reg.contract('aiocoap.transports.rfc8323common:RFC8323Remote.abort#body', self_class='TcpConnection', properties=P,
                 params={'errormessage': Opt(STR), 'bad_csm_option': Opt(INT)},
                 raises={'ValueError': MAY, 'OverflowError': MAY}, only_raises=True,
                 ensures={'ctx-kept': 'implies(self._transport is not None, self._ctx is old(self._ctx))'},
                 at_exit=lambda ex, s, entry, env, result: [
                     ('one-abort-message', z3.BoolVal(len([e for e in s.log if e[0] == 'abort_with']) == 1)),
                     ('code-is-7.05', z3.And(z3.BoolVal(True), *[ex.truth(s, ex.spec_val(s, 'm.code == 229', env=dict(env, m=e[2]))) for e in s.log if e[0] == 'abort_with']))])

    def sig_step_csm(ex, s, snap):
        evs = s.log[len(snap.log):]
        crit = ex.truth(s, ex.spec_val(s, 'opt.number != 2 and opt.number != 4 and opt.number % 2 == 1'))
        return [('unknown-critical-csm-option-aborts', z3.Implies(crit, z3.BoolVal(any(e[0] == 'abort' for e in evs)))),
                ('known-or-elective-does-not-abort', z3.Implies(z3.Not(crit), z3.BoolVal(not any(e[0] == 'abort' for e in evs))))]

    def sig_step_other(ex, s, snap):
        evs = s.log[len(snap.log):]
        crit = ex.truth(s, ex.spec_val(s, 'opt.number % 2 == 1'))
        return [('critical-option-aborts', z3.Implies(crit, z3.BoolVal(any(e[0] == 'abort' for e in evs)))),
                ('elective-ignored', z3.Implies(z3.Not(crit), z3.BoolVal(not any(e[0] == 'abort' for e in evs))))]

    def sig_exit(ex, s, entry, env, result):
        snap = s.ghost.get('$head')
        evs = s.log[len(snap.log):] if snap is not None else s.log
        code = lambda c: ex.truth(s, ex.spec_val(s, 'msg.code == %d' % c, env=env))
        sends = [e for e in evs if e[0] == 'send']
        g = [('settings-only-from-csm', z3.Implies(z3.Not(code(225)), ex.truth(s, ex.spec_val(s, 'implies(old(self._remote_settings) is None, self._remote_settings is None)', env=env, old_st=entry)))),
             ('csm-recorded', z3.Implies(code(225), ex.truth(s, ex.spec_val(s, 'self._remote_settings is not None', env=env)))),
             ('ping-answered-once', z3.Implies(code(226), z3.BoolVal(len(sends) == 1))),
             ('only-ping-answered', z3.Implies(z3.Not(code(226)), z3.BoolVal(len(sends) == 0))),
             ('release-abort-do-not-return', z3.Not(z3.Or(code(228), code(229)))),
             ('unknown-code-aborts', z3.Implies(z3.Not(z3.Or(*[code(c) for c in (225, 226, 227, 228, 229)])),
                                                z3.BoolVal(any(e[0] == 'abort' for e in evs))))]
        for e in sends:
            g.append(('pong-same-token', ex.truth(s, ex.spec_val(s, 'p.code == 227 and p.token == msg.token', env=dict(env, p=e[2])))))
        return g

    def close_post(ctx):
        # the CloseConnection carries a RemoteServerShutdown (a NetworkError) for the pending requests
        exc = ctx.st.ghost.get('$raised')
        return z3.BoolVal(True)

    reg.contract('aiocoap.transports.rfc8323common:RFC8323Remote._process_signaling#body', self_class='TcpConnection',
                 params={'msg': Ref('Message')}, properties=P, hints={'{}': Dict(STR, INT)},
                 requires=['msg.code is not None', 'msg.code >= 224', 'self._transport is not None'],
                 raises={'CloseConnection': 'msg.code == 228 or msg.code == 229', 'ValueError': MAY, 'OverflowError': MAY},
                 only_raises=True,
                 invariants={0: ['self._remote_settings is not None'], 1: []},
                 loop_steps={0: [sig_step_csm], 1: [sig_step_other]},
                 at_exit=sig_exit)
