"""Pipe itself (aiocoap/pipe.py) -- elsewhere an opaque interface object (A-PIPE): the delivery discipline the other contracts
assume of it.  Tagged C02 (a response is handed over once, nothing after the end), C08 (end of interest reaches its hook exactly
once), C09 (exactly one final event; events after the end are dropped).

Representation: `_event_callbacks` is `list | False` in the code; it is declared Optional[list] with None standing for False
(A-PIPEREP: `x is False` / `x = False` on this field read / write None).  Callbacks are opaque callables (A-CALLBACK: they return
and do not re-enter the pipe; the code's own guard for a callback that ends the pipe is therefore not exercised)."""
import z3
from pyvc.values import *   # noqa
from pyvc.registry import MAY
from contracts.util import lg, lg_result, evs, count, B, Ev

PIPE = 'aiocoap.pipe:Pipe'
CBS = List(Tuple(CALLABLE, BOOL))


def register(reg, prog):
    P = ['C02', 'C08', 'C09']
    d = reg.classes['PipeI']
    d.fields.update({'_event_callbacks': Opt(CBS), 'log': ANY})
    reg.assume('A-PIPEREP: Pipe._event_callbacks (a list, or False once the pipe has ended) is modelled as an optional list, None standing for False')

    reg.false_as_none = set(getattr(reg, 'false_as_none', ())) | {'_event_callbacks'}

    reg.externals['attr:PipeI.Event'] = lambda ex, st, base, node: [(st, VFunc('class', pyobj=None, key='aiocoap.pipe:Pipe.Event'))]

    def own(ex, st, args):
        d.opaque = False

    def calls_since(s, snap):
        return [e for e in s.log[len(snap.log):] if e[0] == 'call']

    def foralls_since(s, snap):
        return [e for e in s.log[len(snap.log):] if e[0] == 'forall']

    def tombstone_to_all(ex, s, entry, env, old_list_text, arg_check):
        """exactly one quantified round of calls since entry: the j-th registered callback is called once with an event satisfying arg_check"""
        ev = Ev(ex, s, entry, env)
        fa, direct = foralls_since(s, entry), calls_since(s, entry)
        g = [('every-callback-is-called-in-one-round-and-nothing-else', B(len(fa) == 1 and len(direct) == 0))]
        for _, j, n, inner in fa:
            g.append(('the-round-covers-all-registered-callbacks', n == ev.val('len(%s)' % old_list_text).t))
            calls = [e for e in inner if e[0] == 'call']
            g.append(('one-call-per-callback', B(len(calls) == 1 and len(inner) == 1)))
            for c in calls:
                g.append(('the-j-th-call-is-the-j-th-callback', z3.Implies(z3.And(0 <= j, j < n), c[1] == ev.val('%s[jj][0]' % old_list_text, jj=VInt(j)).t)))
                g.append(('with-one-argument', B(len(c[2]) == 1)))
                if len(c[2]) == 1:
                    g.append(('the-event-handed-over', ev(arg_check, e=c[2][0])))
        return g

    def end_exit(ex, s, entry, env, result):
        return tombstone_to_all(ex, s, entry, env, 'old(self._event_callbacks)', 'e.message is None and e.exception is None and e.is_last')

    reg.contract(PIPE + '._end', self_class='PipeI', properties=P, setup=own, requires=['self._event_callbacks is not None'],
                 only_raises=True, modifies=['self._event_callbacks'],
                 ensures={'ended': 'self._event_callbacks is None'}, at_exit=end_exit, hints={'exact_map': True}, ghost=lg('pipe_end', 'self'))

    reg.contract(PIPE + '._any_interest', self_class='PipeI', result=BOOL, properties=P, setup=own, requires=['self._event_callbacks is not None'],
                 only_raises=True, modifies=[],
                 ensures={'some-registered-callback-counts-as-interest': 'result == exists(i, 0, len(self._event_callbacks), self._event_callbacks[i][1])'})

    def oie_exit(ex, s, entry, env, result):
        ev = Ev(ex, s, entry, env)
        direct = calls_since(s, entry)
        now = ev('old(self._event_callbacks is None) or not exists(i, 0, old(len(self._event_callbacks)), old(self._event_callbacks)[i][1])')
        g = [('without-interest-or-after-the-end-the-hook-runs-exactly-once-right-now', z3.Implies(now, B(len(direct) == 1))),
             ('with-interest-the-hook-does-not-run-yet', z3.Implies(z3.Not(now), B(len(direct) == 0)))]
        for c in direct:
            g.append(('it-is-the-hook-that-is-called-without-arguments', z3.And(c[1] == env['callback'].t, B(len(c[2]) == 0))))
        return g

    reg.contract(PIPE + '.on_interest_end', self_class='PipeI', params={'callback': CALLABLE}, properties=P, setup=own, only_raises=True,
                 modifies=['list:self._event_callbacks'], at_exit=oie_exit,
                 ensures={'an-ended-pipe-stays-ended': 'implies(old(self._event_callbacks is None), self._event_callbacks is None)',
                          'with-interest-one-entry-is-appended-that-does-not-count-as-interest':
                              'implies(old(self._event_callbacks is not None) and exists(i, 0, old(len(self._event_callbacks)), old(self._event_callbacks)[i][1]), '
                              'len(self._event_callbacks) == old(len(self._event_callbacks)) + 1 and not self._event_callbacks[old(len(self._event_callbacks))][1] '
                              'and forall(i, 0, old(len(self._event_callbacks)), self._event_callbacks[i] == old(self._event_callbacks)[i]))',
                          'without-interest-the-list-is-left-alone': 'implies(old(self._event_callbacks is not None) and not exists(i, 0, old(len(self._event_callbacks)), old(self._event_callbacks)[i][1]), '
                                                                     'len(self._event_callbacks) == old(len(self._event_callbacks)))'})

    reg.contract(PIPE + '.on_event', self_class='PipeI', params={'callback': CALLABLE, 'is_interest': BOOL}, result=CALLABLE, properties=P, setup=own,
                 requires=['self._event_callbacks is not None'], only_raises=True, modifies=['list:self._event_callbacks'],
                 ensures={'the-callback-is-registered-last-with-its-interest-flag':
                              'len(self._event_callbacks) == old(len(self._event_callbacks)) + 1 and self._event_callbacks[old(len(self._event_callbacks))][0] is callback '
                              'and self._event_callbacks[old(len(self._event_callbacks))][1] == is_interest',
                          'earlier-registrations-are-untouched': 'forall(i, 0, old(len(self._event_callbacks)), self._event_callbacks[i] == old(self._event_callbacks)[i])'},
                 at_exit=lambda ex, s, entry, env, result: [('nothing-is-called-by-registering', B(len(calls_since(s, entry)) == 0 and len(foralls_since(s, entry)) == 0))])

    def add_event_exit(ex, s, entry, env, result):
        ev = Ev(ex, s, entry, env)
        ended = ev('old(self._event_callbacks is None)')
        quiet = B(len(calls_since(s, entry)) == 0 and len(foralls_since(s, entry)) == 0 and not evs(s, 'pipe_end')[len(evs(entry, 'pipe_end')):])
        return [('an-event-added-after-the-end-reaches-nobody', z3.Implies(ended, quiet)),
                ('the-pipe-ends-at-most-once', B(len(evs(s, 'pipe_end')) - len(evs(entry, 'pipe_end')) <= 1)),
                ('afterwards-the-pipe-has-ended-or-still-has-interest', ev('self._event_callbacks is None or exists(i, 0, len(self._event_callbacks), self._event_callbacks[i][1])'))]

    def add_event_step(ex, s, snap):
        new = calls_since(s, snap)
        g = [('every-registered-callback-is-called-once-per-event', B(len(new) == 1))]
        for e in new:
            g.append(('with-the-event', B(len(e[2]) == 1) if len(e[2]) != 1 else e[2][0].t == ex.spec_val(s, 'event', env=ex.visible_env(s)).t))
            g.append(('the-callback-of-this-round-is-called', e[1] == ex.spec_val(s, 'cb', env=ex.visible_env(s)).t))
        return g

    EVENT = Tuple(Opt(Ref('Message')), Opt(Ref('builtins:Exception')), BOOL) + ('Event',)
    # ValueError: `list.remove((cb, is_interest))` of an entry taken from the copy; that it is still in the list (each round removes at
    # most its own entry; callbacks do not re-enter: A-CALLBACK) needs a multiset invariant over the remaining copy that is NOT proved here
    reg.contract(PIPE + '._add_event', self_class='PipeI', params={'event': EVENT}, properties=P, setup=own, only_raises=True, raises={'ValueError': MAY},
                 modifies=['self._event_callbacks', 'list:self._event_callbacks'], at_exit=add_event_exit,
                 invariants={0: ['self._event_callbacks is not None']}, loop_steps={0: [add_event_step]},
                 local_types={'cb': CALLABLE, 'is_interest': BOOL}, hints={'opaque_returns': BOOL})

    def one_add_event(check):
        def ex_(ex, s, entry, env, result):
            ev = Ev(ex, s, entry, env)
            es = evs(s, 'pipe_add_event')[len(evs(entry, 'pipe_add_event')):]
            g = [('exactly-one-event-is-added', B(len(es) == 1))]
            for e in es:
                g.append(('the-event', ev(check, e=e[2])))
            return g
        return ex_
    reg.contracts[PIPE + '._add_event'].ghost = lg('pipe_add_event', 'self', 'event')
    reg.contract(PIPE + '.add_response', self_class='PipeI', params={'response': Ref('Message'), 'is_last': BOOL}, properties=P, setup=own,
                 only_raises=True, raises={'ValueError': MAY}, modifies=['*'],
                 at_exit=one_add_event('e.message is response and e.exception is None and e.is_last == is_last'))
    reg.contract(PIPE + '.add_exception', self_class='PipeI', params={'exception': Ref('builtins:Exception')}, properties=P, setup=own,
                 only_raises=True, raises={'ValueError': MAY}, modifies=['*'],
                 at_exit=one_add_event('e.message is None and e.exception is exception and e.is_last'))

    def unreg_exit(ex, s, entry, env, result):
        ev = Ev(ex, s, entry, env)
        quiet = B(len(calls_since(s, entry)) == 0 and len(foralls_since(s, entry)) == 0 and not evs(s, 'pipe_end')[len(evs(entry, 'pipe_end')):])
        return [('unregistering-from-an-ended-pipe-does-nothing', z3.Implies(ev('old(self._event_callbacks is None)'), quiet)),
                ('afterwards-the-pipe-has-ended-or-still-has-interest', ev('self._event_callbacks is None or exists(i, 0, len(self._event_callbacks), self._event_callbacks[i][1])'))]
    reg.contract(PIPE + '._unregister_on_event', self_class='PipeI', params={'callback': CALLABLE}, properties=P, setup=own, only_raises=True,
                 modifies=['self._event_callbacks'], at_exit=unreg_exit, hints={'exact_map': True},
                 ensures={'the-callback-is-registered-no-more': 'implies(self._event_callbacks is not None, forall(i, 0, len(self._event_callbacks), self._event_callbacks[i][0] is not callback))'})
