"""C03 -- retransmission of confirmable messages: timing lemmas and tuning formulas
(the MessageManager functions themselves are under contract in contracts/mm.py)"""
import z3
from pyvc.values import *   # noqa
from pyvc.registry import MAY


def register(reg, prog):
    P = ['C03']
    # ---- timing lemma (reals): k-th retransmission at t0*(2^k - 1) after the first transmission
    reg.contract('lemma:C03/timing-step', params={'t0': REAL, 'P': REAL, 'sent_k': REAL}, properties=P,
                 requires=['t0 > 0', 'P >= 1', 'sent_k == t0 * (P - 1)'],
                 ensures={'next-copy-after-doubled-gap': 'sent_k + t0 * P == t0 * (2 * P - 1)'},
                 note='induction step: gap before copy k+1 is t0*2^k (timeout doubles, proved on _retransmit); P stands for 2^k')
    reg.contract('lemma:C03/give-up-bound', params={'t0': REAL, 'A': REAL, 'F': REAL, 'P': REAL}, properties=P,
                 requires=['A > 0', 'F >= 1', 'A <= t0', 't0 <= A * F', 'P >= 1'],
                 ensures={'not-later-than-MAX_TRANSMIT_WAIT': 't0 * (2 * P - 1) <= A * (2 * P - 1) * F'},
                 note='P = 2^MAX_RETRANSMIT: give-up happens t0*(2^(n+1)-1) after the first transmission <= MAX_TRANSMIT_WAIT')

    TT = 'aiocoap.numbers.constants:TransportTuning'
    reg.contract(TT + '.MAX_TRANSMIT_WAIT', result=REAL, properties=P, requires=['self.MAX_RETRANSMIT >= 0'], only_raises=True,
                 ensures={'rfc7252-4.8.2': 'result == self.ACK_TIMEOUT * (2 ** (self.MAX_RETRANSMIT + 1) - 1) * self.ACK_RANDOM_FACTOR'},
                 use_at_calls=False)
    reg.contract(TT + '.MAX_TRANSMIT_SPAN', result=REAL, properties=P, requires=['self.MAX_RETRANSMIT >= 0'], only_raises=True,
                 ensures={'rfc7252-4.8.2': 'result == self.ACK_TIMEOUT * (2 ** self.MAX_RETRANSMIT - 1) * self.ACK_RANDOM_FACTOR'},
                 use_at_calls=False)
