"""C03 -- retransmission of confirmable messages"""
import z3
from pyvc.values import *   # noqa
from pyvc.registry import MAY
from contracts.mm import MM, KEY


def register(reg, prog):
    P = ['C03']

    def lg(kind, *names):
        def g(ex, st, env, result):
            st.log.append((kind,) + tuple(env[n] for n in names))
        return g

    def evs(s, kind):
        return [e for e in s.log if e[0] == kind]

    # ---- _schedule_retransmit: one timer, whose callback re-enters _retransmit with exactly these arguments
    def sched_exit(ex, s, entry, env, result):
        cl = evs(s, 'call_later')
        g = [('one-timer', z3.BoolVal(len(cl) == 1))]
        if len(cl) != 1:
            return g
        _, delay, cb, extra, handle = cl[0]
        g.append(('delay-is-timeout', ex.eq(s, delay, env['timeout'])))
        g.append(('returns-handle', result.t == handle.t))
        # run the scheduled callback symbolically: it must call _retransmit(message, timeout, counter) once
        s2 = s.copy()
        n0 = len(s2.log)
        save = ex.collect_only
        ex.collect_only = True        # the callback's own obligations belong to _retransmit's contract
        try:
            outs = ex.call(s2, cb, list(extra), {}, None)
        finally:
            ex.collect_only = save
        ok = len(outs) == 1 and outs[0][0].exc is None
        g.append(('callback-runs', z3.BoolVal(ok)))
        if ok:
            calls = [e for e in outs[0][0].log[n0:] if e[0] == '_retransmit']
            g.append(('callback-retransmits-once', z3.BoolVal(len(calls) == 1)))
            if len(calls) == 1:
                g.append(('callback-same-message', calls[0][2].t == env['message'].t))
                g.append(('callback-same-timeout', ex.eq(outs[0][0], calls[0][3], env['timeout'])))
                g.append(('callback-same-counter', ex.eq(outs[0][0], calls[0][4], env['retransmission_counter'])))
                g.append(('callback-same-manager', calls[0][1].t == env['self'].t))
        return g

    reg.contract(MM + '._schedule_retransmit', params={'message': Ref('Message'), 'timeout': REAL, 'retransmission_counter': INT},
                 result=Ref('TimerHandle'), properties=P, only_raises=True, at_exit=sched_exit,
                 ghost=lg('schedule', 'self', 'message', 'timeout', 'retransmission_counter'))

    reg.contract(MM + '._send_via_transport', params={'message': Ref('Message')}, properties=P, only_raises=True,
                 ghost=lg('wire', 'message'),
                 at_exit=lambda ex, s, entry, env, result: [
                     ('one-datagram', z3.BoolVal(len(evs(s, 'wire')) == 1)),
                     ('same-message-object', z3.And(z3.BoolVal(True), *[e[1].t == env['message'].t for e in evs(s, 'wire')]))])

    # ---- _retransmit
    def retr_exit(ex, s, entry, env, result):
        msg = env['message']
        ev = lambda text, **kw: ex.truth(s, ex.spec_val(s, text, env=dict(env, **kw), old_st=entry))
        more = ev('retransmission_counter < message.transport_tuning.MAX_RETRANSMIT')
        wires, scheds, errs = evs(s, 'wire'), evs(s, 'schedule'), evs(s, 'tm_dispatch_error')
        g = []
        g.append(('resend-iff-budget-left', z3.BoolVal(len(wires) == 1) == more))
        g.append(('at-most-one-copy', z3.BoolVal(len(wires) <= 1)))
        for e in wires:
            g.append(('byte-identical-copy(same object)', e[1].t == msg.t))
        g.append(('reschedule-iff-resend', z3.BoolVal(len(scheds) == len(wires))))
        for e in scheds:
            g.append(('timeout-doubles', ex.truth(s, ex.spec_val(s, 't2 == 2 * timeout', env=dict(env, t2=e[3])))))
            g.append(('counter-increments', ex.truth(s, ex.spec_val(s, 'c2 == retransmission_counter + 1', env=dict(env, c2=e[4])))))
            g.append(('same-message-rescheduled', e[2].t == msg.t))
        g.append(('give-up-fails-request-once', z3.BoolVal(len(errs) == 1) == z3.Not(more)))
        for e in errs:
            g.append(('error-for-this-endpoint', ev('r is message.remote', r=e[3])))
            g.append(('error-is-timeout-class', z3.BoolVal(ex.issub(e[2].cls, 'aiocoap.error:ConRetransmitsExceeded')
                                                           and ex.issub('aiocoap.error:ConRetransmitsExceeded', 'aiocoap.error:TimeoutError')
                                                           and ex.issub('aiocoap.error:TimeoutError', 'aiocoap.error:NetworkError')
                                                           and ex.issub('aiocoap.error:NetworkError', 'aiocoap.error:Error'))))
        g.append(('exchange-stays-iff-resend', ev('((message.remote, message.mid) in self._active_exchanges)') == more))
        g.append(('backlog-dropped-on-give-up', z3.Implies(z3.Not(more), ev('message.remote not in self._backlogs'))))
        g.append(('old-timer-cancelled', z3.BoolVal(len(evs(s, 'cancel')) == 1)))
        return g

    reg.externals['TokenManagerI.dispatch_error'] = lambda ex, st, args, kw, node: (st.log.append(('tm_dispatch_error',) + tuple(args)), [(st, VNone())])[1]

    reg.contract(MM + '._retransmit', params={'message': Ref('Message'), 'timeout': REAL, 'retransmission_counter': INT},
                 properties=P, only_raises=True,
                 requires=['self._active_exchanges is not None', 'message.remote is not None', 'message.mid is not None',
                           '(message.remote, message.mid) in self._active_exchanges', 'message.remote in self._backlogs',
                           'retransmission_counter >= 0'],
                 ghost=lg('_retransmit', 'self', 'message', 'timeout', 'retransmission_counter'),
                 modifies=['dict:self._active_exchanges', 'dict:self._backlogs'],
                 at_exit=retr_exit)

    # ---- _add_exchange: initial timeout from the message's own tuning
    def add_exit(ex, s, entry, env, result):
        ev = lambda text, **kw: ex.truth(s, ex.spec_val(s, text, env=dict(env, **kw), old_st=entry))
        scheds = evs(s, 'schedule')
        g = [('one-timer', z3.BoolVal(len(scheds) == 1))]
        for e in scheds:
            g.append(('initial-timeout-in-range',
                      ev('message.transport_tuning.ACK_TIMEOUT <= t0 <= message.transport_tuning.ACK_TIMEOUT * message.transport_tuning.ACK_RANDOM_FACTOR', t0=e[3])))
            g.append(('counter-starts-at-0', ev('c == 0', c=e[4])))
            g.append(('for-this-message', e[2].t == env['message'].t))
        g.append(('exchange-registered', ev('(message.remote, message.mid) in self._active_exchanges')))
        g.append(('backlog-key-exists', ev('message.remote in self._backlogs')))
        g.append(('monitor-stored', ev('self._active_exchanges[(message.remote, message.mid)][0] is messageerror_monitor')))
        return g

    reg.contract(MM + '._add_exchange', params={'message': Ref('Message'), 'messageerror_monitor': CALLABLE}, properties=P,
                 requires=['self._active_exchanges is not None', 'message.remote is not None', 'message.mid is not None',
                           'message.transport_tuning.ACK_RANDOM_FACTOR >= 1', 'message.transport_tuning.ACK_TIMEOUT > 0'],
                 only_raises=True, at_exit=add_exit,
                 ghost=lg('_add_exchange', 'self', 'message', 'messageerror_monitor'),
                 modifies=['dict:self._active_exchanges', 'dict:self._backlogs', '*lists'],
                 ensures={'registered': '(message.remote, message.mid) in self._active_exchanges',
                          'backlog-key': 'message.remote in self._backlogs'})

    # ---- the NSTART object invariant (also used by C14)
    @reg.specfunc('nstart_inv')
    def nstart_inv(ex, st, mm):
        """(r, m) active  =>  r has a backlog entry; at most one active exchange per endpoint"""
        act = ex.read_field(st, mm, '_active_exchanges', reg.classes['MessageManager'].fields['_active_exchanges']).some()
        bl = ex.read_field(st, mm, '_backlogs', reg.classes['MessageManager'].fields['_backlogs'])
        ks = sort_of(act.k)
        k1, k2 = z3.Const(fresh_name('k1'), ks), z3.Const(fresh_name('k2'), ks)
        dom = ex.dict_dom(st, act)
        bdom = ex.dict_dom(st, bl)
        r = lambda k: ks.accessor(0, 0)(k)
        rr = z3.Const(fresh_name('r'), ks.accessor(0, 0).range())
        mm_ = z3.Const(fresh_name('m'), ks.accessor(0, 1).range())
        return VBool(z3.And(
            z3.ForAll([rr], z3.Implies(z3.Select(bdom, rr), z3.Exists([mm_], z3.Select(dom, ks.constructor(0)(rr, mm_))))),
            z3.ForAll([k1], z3.Implies(z3.Select(dom, k1), z3.Select(bdom, r(k1)))),
            z3.ForAll([k1, k2], z3.Implies(z3.And(z3.Select(dom, k1), z3.Select(dom, k2), r(k1) == r(k2)), k1 == k2))))

    def rm_exit(ex, s, entry, env, result):
        ev = lambda text, **kw: ex.truth(s, ex.spec_val(s, text, env=dict(env, **kw), old_st=entry))
        present = ev('old((message.remote, message.mid) in self._active_exchanges)')
        cancels, calls, conts = evs(s, 'cancel'), evs(s, 'call'), evs(s, '_continue_backlog')
        g = []
        g.append(('absent-key-changes-nothing', z3.Implies(z3.Not(present), z3.BoolVal(not cancels and not calls and not conts))))
        g.append(('timer-cancelled-once-iff-present', z3.BoolVal(len(cancels) == 1) == present))
        for e in cancels:
            g.append(('cancels-this-exchange-timer', ev('h is old(self._active_exchanges[(message.remote, message.mid)][1])', h=e[1])))
        g.append(('monitor-called-iff-reset', z3.BoolVal(len(calls) == 1) == z3.And(present, ev('message.mtype == 3'))))
        g.append(('backlog-continued-iff-present', z3.BoolVal(len(conts) == 1) == present))
        for e in conts:
            g.append(('continues-backlog-of-this-endpoint', ev('r is message.remote', r=e[2])))
        return g

    reg.contract(MM + '._continue_backlog', params={'remote': Opt(Ref('Remote'))}, verify=False, properties=P,
                 modifies=['dict:self._active_exchanges', 'dict:self._backlogs', '*lists'],
                 requires=['remote in self._backlogs'],
                 ghost=lg('_continue_backlog', 'self', 'remote'),
                 trusted_reason='call-site summary; the body is verified for C14 (contracts/c14.py)')

    reg.contract(MM + '._remove_exchange', params={'message': Ref('Message')}, properties=P,
                 requires=['mm_wf(self)', 'nstart_inv(self)'],
                 only_raises=True, at_exit=rm_exit,
                 ghost=lg('_remove_exchange', 'self', 'message'),
                 modifies=['dict:self._active_exchanges', 'dict:self._backlogs', '*lists'])

    # ---- timing lemma (reals): k-th retransmission at t0*(2^k - 1) after the first transmission
    reg.contract('lemma:C03/timing-step', params={'t0': REAL, 'P': REAL, 'sent_k': REAL}, properties=P,
                 requires=['t0 > 0', 'P >= 1', 'sent_k == t0 * (P - 1)'],
                 ensures={'next-copy-after-doubled-gap': 'sent_k + t0 * P == t0 * (2 * P - 1)'},
                 note='induction step: gap before copy k+1 is t0*2^k (timeout doubles, proved on _retransmit); P stands for 2^k')
    reg.contract('lemma:C03/give-up-bound', params={'t0': REAL, 'A': REAL, 'F': REAL, 'P': REAL}, properties=P,
                 requires=['A > 0', 'F >= 1', 'A <= t0', 't0 <= A * F', 'P >= 1'],
                 ensures={'not-later-than-MAX_TRANSMIT_WAIT': 't0 * (2 * P - 1) <= A * (2 * P - 1) * F'},
                 note='P = 2^MAX_RETRANSMIT: give-up happens t0*(2^(n+1)-1) after the first transmission <= MAX_TRANSMIT_WAIT')

    TT = 'aiocoap.numbers.constants:TransportTuning'
    reg.contract(TT + '.MAX_TRANSMIT_WAIT', result=REAL, properties=P, requires=['self.MAX_RETRANSMIT >= 0'], only_raises=True,
                 ensures={'rfc7252-4.8.2': 'result == self.ACK_TIMEOUT * (2 ** (self.MAX_RETRANSMIT + 1) - 1) * self.ACK_RANDOM_FACTOR'},
                 use_at_calls=False)
    reg.contract(TT + '.MAX_TRANSMIT_SPAN', result=REAL, properties=P, requires=['self.MAX_RETRANSMIT >= 0'], only_raises=True,
                 ensures={'rfc7252-4.8.2': 'result == self.ACK_TIMEOUT * (2 ** self.MAX_RETRANSMIT - 1) * self.ACK_RANDOM_FACTOR'},
                 use_at_calls=False)
