"""C06 -- block-wise server: Block1Spool, Block2Cache, Message._append_request_block, TimeoutDict"""
import z3
from pyvc.values import *   # noqa
from pyvc.registry import MAY
from contracts.util import lg, lg_result, evs, count, B, Ev, dict_frame, simulate, quantified
from contracts.common import BLOCKTUPLE

TD = 'aiocoap.util.asyncio.timeoutdict:TimeoutDict'
MSGK = 'aiocoap.message:Message'
BW = 'aiocoap.blockwise'


def register(reg, prog):
    P = ['C06']
    MSG = Ref('Message')
    K = ANY
    ITEMS = Dict(K, MSG, 'td.items')
    RECENT = Dict(K, NONE, 'td.recent')
    LAST = ('raw', z3.ArraySort(sort_of(K), R))
    reg.declare_class('TimeoutDict', TD, fields={'timeout': REAL, '_items': ITEMS, '_recently_accessed': Opt(RECENT),
                                                 '_timeout': Opt(Ref('TimerHandle')),
                                                 'gh_T0': REAL, 'gh_last': LAST, 'gh_armed': BOOL})
    F = reg.classes['TimeoutDict'].fields
    reg.assume('T-LOOP/clock: a ghost clock `now`; call_later(d, f) fires exactly at now+d; between two callbacks of one '
               'TimeoutDict timer the clock lies in [T0, T0+timeout]')

    def now(st):
        if 'now' not in st.ghost:
            st.ghost['now'] = VReal(z3.Real(fresh_name('now')))
        return st.ghost['now'].t

    reg.externals['asyncio.get_running_loop'] = lambda ex, st, args, kw, node: [(st, VRef(z3.Int(fresh_name('loop')), 'Loop'))]
    reg.externals['asyncio.events.get_running_loop'] = reg.externals['asyncio.get_running_loop']
    base_call_later = reg.externals['Loop.call_later']

    def call_later(ex, st, args, kw, node):
        cb = args[2]
        b = getattr(cb, 'bound', None)
        if isinstance(b, VRef) and b.cls == 'TimeoutDict':
            ex.write_field(st, b, 'gh_T0', REAL, VReal(now(st)))       # ghost: the timer is armed now
            ex.write_field(st, b, 'gh_armed', BOOL, VBool(z3.BoolVal(True)))
        return base_call_later(ex, st, args, kw, node)
    reg.externals['Loop.call_later'] = call_later

    def parts(ex, st, td):
        items = ex.read_field(st, td, '_items', F['_items'])
        rec = ex.read_field(st, td, '_recently_accessed', F['_recently_accessed'])
        tmo = ex.read_field(st, td, '_timeout', F['_timeout'])
        t0 = ex.read_field(st, td, 'gh_T0', REAL).t
        last = ex.read_field(st, td, 'gh_last', LAST).t
        d = ex.read_field(st, td, 'timeout', REAL).t
        return items, rec, tmo, t0, last, d

    @reg.specfunc('td_inv')
    def td_inv(ex, st, td):
        """armed timer <=> recently-accessed set exists; every stored key was used within the stated windows"""
        items, rec, tmo, t0, last, d = parts(ex, st, td)
        n = now(st)
        k = z3.Const('inv_tk', sort_of(K))
        with quantified(ex):
            dom = ex.dict_dom(st, items)
            rdom = ex.dict_dom(st, rec.some())
            armed = z3.Not(tmo.is_none())
            body = z3.Implies(z3.Select(dom, k), z3.If(z3.Select(rdom, k),
                                                       z3.And(t0 <= z3.Select(last, k), z3.Select(last, k) <= n),
                                                       z3.And(t0 - d <= z3.Select(last, k), z3.Select(last, k) <= t0)))
            really_armed = ex.read_field(st, td, 'gh_armed', BOOL).t      # ghost: a call_later of _tick is pending
            return VBool(z3.And(d > 0, armed == z3.Not(rec.is_none()), armed == really_armed,
                                z3.Implies(armed, z3.And(t0 <= n, n <= t0 + d, z3.ForAll([k], body))),
                                z3.Implies(z3.Not(armed), z3.ForAll([k], z3.Not(z3.Select(dom, k))))))

    def touch(ex, st, env, result):
        """ghost: the key is used now"""
        td, key = env['self'], env['key']
        last = ex.read_field(st, td, 'gh_last', LAST).t
        ex.write_field(st, td, 'gh_last', LAST, VRaw(z3.Store(last, coerce(key, K).t, now(st))))

    MOD = ['self._timeout', 'self._recently_accessed', 'dict:self._recently_accessed', 'self.gh_T0', 'self.gh_last', 'self.gh_armed']

    reg.contract(TD + '._start_over', properties=P, requires=['self.timeout > 0'], only_raises=True,
                 modifies=['self._timeout', 'self._recently_accessed', 'self.gh_T0', 'self.gh_armed'], hints={'set()': RECENT},
                 ensures={'new-set': 'is_new(self._recently_accessed)',
                          'armed-now': 'self._timeout is not None and self._recently_accessed is not None and self.gh_T0 == ghost_now() and self.gh_armed',
                          'nothing-recent': 'forall_key_not_recent(self)'},
                 at_exit=lambda ex, s, entry, env, result: [
                     ('one-timer-for-the-timeout', B(len(evs(s, 'call_later')) == 1)),
                     ('delay-is-self.timeout', z3.And(B(True), *[ex.eq(s, e[1], ex.spec_val(s, 'self.timeout', env=env)) for e in evs(s, 'call_later')]))])
    reg.specfuncs['ghost_now'] = lambda ex, st: VReal(now(st))

    @reg.specfunc('forall_key_not_recent')
    def fknr(ex, st, td):
        rec = ex.read_field(st, td, '_recently_accessed', F['_recently_accessed']).some()
        k = z3.Const('inv_tk', sort_of(K))
        return VBool(z3.ForAll([k], z3.Not(z3.Select(ex.dict_dom(st, rec), k))))

    def acc_setup(ex, st, env):
        # the key being accessed has just been used (ghost update done by __getitem__/__setitem__ before calling _accessed)
        pass

    reg.contract(TD + '._accessed', params={'key': K}, properties=P, only_raises=True, hints={'set()': RECENT},
                 requires=['td_inv_except(self, key)', 'key in self._items', 'self.gh_last_of(key) == ghost_now()' if False else 'last_is_now(self, key)'],
                 modifies=['self._timeout', 'self._recently_accessed', 'dict:self._recently_accessed', 'self.gh_T0', 'self.gh_armed'],
                 ensures={'recent-set-kept-or-new': 'self._recently_accessed is old(self._recently_accessed) or is_new(self._recently_accessed)', 'invariant': 'td_inv(self)'})

    @reg.specfunc('last_is_now')
    def last_is_now(ex, st, td, key):
        last = ex.read_field(st, td, 'gh_last', LAST).t
        return VBool(z3.Select(last, coerce(key, K).t) == now(st))

    @reg.specfunc('td_inv_except')
    def td_inv_except(ex, st, td, key):
        """td_inv for every key but `key`; emptiness of an unarmed dict is not required (the key was just inserted)"""
        items, rec, tmo, t0, last, d = parts(ex, st, td)
        n = now(st)
        k = z3.Const('inv_tk', sort_of(K))
        kk = coerce(key, K).t
        with quantified(ex):
            dom = ex.dict_dom(st, items)
            rdom = ex.dict_dom(st, rec.some())
            armed = z3.Not(tmo.is_none())
            body = z3.Implies(z3.And(z3.Select(dom, k), k != kk), z3.If(z3.Select(rdom, k),
                              z3.And(t0 <= z3.Select(last, k), z3.Select(last, k) <= n),
                              z3.And(t0 - d <= z3.Select(last, k), z3.Select(last, k) <= t0)))
            really_armed = ex.read_field(st, td, 'gh_armed', BOOL).t
            return VBool(z3.And(d > 0, armed == z3.Not(rec.is_none()), armed == really_armed,
                                z3.Implies(armed, z3.And(t0 <= n, n <= t0 + d, z3.ForAll([k], body))),
                                z3.Implies(z3.Not(armed), z3.ForAll([k], z3.Implies(k != kk, z3.Not(z3.Select(dom, k)))))))

    reg.contract(TD + '.__setitem__', params={'key': K, 'value': MSG}, properties=P, only_raises=True,
                 requires=['td_inv(self)'], modifies=MOD + ['dict:self._items'],
                 setup=lambda ex, st, env: touch(ex, st, env, None),
                 ensures={'recent-set-kept-or-new': 'self._recently_accessed is old(self._recently_accessed) or is_new(self._recently_accessed)',
                          'stored': 'key in self._items and self._items[key] is value',
                          'others-untouched': lambda ctx: dict_frame(ctx.ex, ctx.st, ctx.old_st, ctx.env['self'], F, '_items', ctx.env['key']),
                          'invariant': 'td_inv(self)', 'used-now': 'last_is_now(self, key)'},
                 ghost=lambda ex, st, env, result: touch(ex, st, env, result))

    reg.contract(TD + '.__getitem__', params={'key': K}, result=MSG, properties=P,
                 requires=['td_inv(self)'], modifies=MOD, raises={'KeyError': 'key not in self._items'}, only_raises=True,
                 raises_post={'KeyError': {'nothing-changes': 'td_inv(self)'}},
                 setup=lambda ex, st, env: touch(ex, st, env, None),
                 ensures={'recent-set-kept-or-new': 'self._recently_accessed is old(self._recently_accessed) or is_new(self._recently_accessed)',
                          'value': 'result is self._items[key]', 'invariant': 'td_inv(self)', 'used-now': 'last_is_now(self, key)',
                          'items-untouched': lambda ctx: dict_frame(ctx.ex, ctx.st, ctx.old_st, ctx.env['self'], F, '_items')},
                 ghost=lambda ex, st, env, result: touch(ex, st, env, result))

    reg.contract(TD + '.pop', params={'key': K, 'default': Opt(MSG)}, result=Opt(MSG), properties=P, only_raises=True,
                 requires=['td_inv(self)'], modifies=['dict:self._items'],
                 ensures={'removed': 'key not in self._items',
                          'others-untouched': lambda ctx: dict_frame(ctx.ex, ctx.st, ctx.old_st, ctx.env['self'], F, '_items', ctx.env['key']),
                          'returns-old-value-or-default': 'result == (old(self._items[key]) if old(key in self._items) else default)',
                          'invariant': 'td_inv(self)'})

    # ---- the timer callback: exactly at T0 + timeout
    def tick_exit(ex, s, entry, env, result):
        td = env['self']
        items0 = ex.read_field(entry, td, '_items', F['_items'])
        items1 = ex.read_field(s, td, '_items', F['_items'])
        last = ex.read_field(entry, td, 'gh_last', LAST).t
        d = ex.read_field(entry, td, 'timeout', REAL).t
        n = now(entry)
        k = z3.Const(fresh_name('tk'), sort_of(K))
        with quantified(ex):
            gone = z3.And(z3.Select(ex.dict_dom(entry, items0), k), z3.Not(z3.Select(ex.dict_dom(s, items1), k)))
            kept = z3.And(z3.Select(ex.dict_dom(entry, items0), k), z3.Select(ex.dict_dom(s, items1), k))
            age = n - z3.Select(last, k)
            return [('discarded-only-after-timeout', z3.ForAll([k], z3.Implies(gone, age >= d))),
                    ('discarded-within-twice-timeout', z3.ForAll([k], z3.Implies(gone, age <= 2 * d))),
                    ('younger-than-timeout-is-kept', z3.ForAll([k], z3.Implies(z3.And(z3.Select(ex.dict_dom(entry, items0), k), age < d), z3.Select(ex.dict_dom(s, items1), k)))),
                    ('older-than-timeout-is-discarded', z3.ForAll([k], z3.Implies(z3.And(z3.Select(ex.dict_dom(entry, items0), k), age > d), z3.Not(z3.Select(ex.dict_dom(s, items1), k))))),
                    ('nothing-appears', z3.ForAll([k], z3.Implies(z3.Select(ex.dict_dom(s, items1), k), z3.Select(ex.dict_dom(entry, items0), k)))),
                    ('kept-values-unchanged', z3.ForAll([k], z3.Implies(kept, z3.Select(ex.dict_vals(s, items1), k) == z3.Select(ex.dict_vals(entry, items0), k))))]

    def tick_setup(ex, st, env):
        td = env['self']
        t0 = ex.read_field(st, td, 'gh_T0', REAL).t
        d = ex.read_field(st, td, 'timeout', REAL).t
        st.assume(now(st) == t0 + d)          # T-LOOP: the callback runs exactly when due
        # ... and the pending call is thereby used up (ghost update applied after the preconditions)
        return lambda ex_, st_, env_: ex_.write_field(st_, env_['self'], 'gh_armed', BOOL, VBool(z3.BoolVal(False)))

    reg.contract(TD + '._tick', properties=P, only_raises=True, setup=tick_setup,
                 requires=['td_inv(self)', 'self._timeout is not None'],
                 modifies=['self._items', 'self._timeout', 'self._recently_accessed', 'self.gh_T0', 'self.gh_armed'],
                 hints={'set()': RECENT}, at_exit=tick_exit, ensures={'invariant': 'td_inv(self)'})

    # ------------------------------------------------------ request assembly
    B1 = 'next_block.opt.block1'
    MISMATCH = ("(%s[1] and not (len(next_block.payload) == bsize(%s[2]) or (%s[2] == 7 and len(next_block.payload) %% bsize(%s[2]) == 0)))" % (B1, B1, B1, B1))
    reg.contract(MSGK + '._append_request_block', params={'next_block': MSG}, properties=P, only_raises=True,
                 requires=['self.code is not None', 'next_block.opt.block1 is not None', 'next_block.opt.block1[0] >= 0', '0 <= next_block.opt.block1[2] <= 7',
                           'self is not next_block', 'self.opt is not next_block.opt'],
                 modifies=['self.payload', 'self.token', 'self.mid', 'self.opt.block1', 'self.opt.block2'],
                 raises={'BadRequest': '1 <= self.code < 32 and ' + MISMATCH,
                         'ValueError': 'not (1 <= self.code < 32) or (not %s and %s[0] * bsize(%s[2]) != len(self.payload))' % (MISMATCH, B1, B1)},
                 raises_post={'BadRequest': {'assembly-unchanged': 'self.payload == old(self.payload)'},
                              'ValueError': {'assembly-unchanged': 'self.payload == old(self.payload)'}},
                 ensures={'appends-exactly-the-block': 'self.payload == old(self.payload) + next_block.payload',
                          'remembers-block-option': 'self.opt.block1 == next_block.opt.block1'},
                 ghost=lg('append_request_block', 'self', 'next_block'))

    reg.declare_class('Block1Spool', BW + ':Block1Spool', fields={'_assemblies': Ref('TimeoutDict')})
    reg.declare_class('Block2Cache', BW + ':Block2Cache', fields={'_completes': Ref('TimeoutDict')})
    reg.declare_class('ContinueException', BW + ':ContinueException', fields={'block1': Opt(BLOCKTUPLE), 'message': STR})
    reg.declare_class('IncompleteException', BW + ':IncompleteException', fields={'message': STR})
    reg.declare_class('ConstructionRenderableError', 'aiocoap.error:ConstructionRenderableError', fields={'message': STR})

    @reg.specfunc('block_key')
    def block_key(ex, st, m):
        """the key of a block-wise operation: a function of the endpoint's blockwise key, the code and the cache-key
        options (the latter as an uninterpreted function of the message's options object)"""
        m = m.some() if isinstance(m, VOpt) else m
        MF = reg.classes['Message'].fields
        rem = ex.read_field(st, m, 'remote', MF['remote']).some()
        bk = ex.read_field(st, rem, 'blockwise_key', ANY).t
        code = ex.read_field(st, m, 'code', MF['code']).some().t
        opt = ex.read_field(st, m, 'opt', MF['opt']).t
        f = z3.Function('BLOCKKEY', AnyS, I, AnyS, AnyS)
        ck = z3.Function('cache_key_without_block_and_observe', I, AnyS)
        return VAny(f(bk, code, ck(opt)))

    def bk_exit(ex, s, entry, env, result):
        calls = evs(s, 'get_cache_key')
        g = [('one-cache-key', B(len(calls) == 1))]
        for e in calls:
            g.append(('cache-key-of-this-message', e[1].t == env['message'].t))
            ign = e[2]
            ok = isinstance(ign, VList)
            g.append(('ignores-exactly-block1-block2-observe', B(ok)))
            if ok:
                sq = ex.list_as_seq(s, ign)
                g.append(('ignore-list', z3.And(sq.len == 3, sq.at(z3.IntVal(0)).t == 27, sq.at(z3.IntVal(1)).t == 23, sq.at(z3.IntVal(2)).t == 6)))
        if isinstance(result, VTuple) and len(result.items) == 3:
            g.append(('endpoint-part', result.items[0].t == ex.spec_val(s, 'message.remote.blockwise_key', env=env).t))
            g.append(('method-part', ex.eq(s, result.items[1], ex.spec_val(s, 'message.code', env=env))))
            g.append(('options-part', result.items[2].t == calls[0][3].t if calls else B(False)))
        else:
            g.append(('is-a-triple', B(False)))
        return g

    def gck(ex, st, args, kw, node):
        r = VAny(fresh(ANY, 'cache_key'))
        st.log.append(('get_cache_key', args[0], args[1] if len(args) > 1 else kw.get('ignore_options'), r))
        return [(st, r)]
    reg.externals['repo:aiocoap.message:Message.get_cache_key'] = gck

    reg.contract(BW + ':_extract_block_key#body', params={'message': MSG}, properties=P, only_raises=True,
                 requires=['message.remote is not None'], at_exit=bk_exit, use_at_calls=False)
    reg.contract(BW + ':_extract_block_key', params={'message': MSG}, result=ANY, verify=False, properties=P,
                 ensures={'function-of-endpoint-method-and-cache-key-options': 'result == block_key(message)'},
                 trusted_reason='call-site summary (the triple is abstracted to one opaque key value); body verified as #body')

    @reg.specfunc('asm_has')
    def asm_has(ex, st, spool, key):
        td = ex.read_field(st, spool, '_assemblies' if spool.cls == 'Block1Spool' else '_completes', Ref('TimeoutDict'))
        items = ex.read_field(st, td, '_items', F['_items'])
        return VBool(z3.Select(ex.dict_dom(st, items), coerce(key, K).t))

    @reg.specfunc('asm_get')
    def asm_get(ex, st, spool, key):
        td = ex.read_field(st, spool, '_assemblies' if spool.cls == 'Block1Spool' else '_completes', Ref('TimeoutDict'))
        items = ex.read_field(st, td, '_items', F['_items'])
        return from_term(MSG, z3.Select(ex.dict_vals(st, items), coerce(key, K).t))

    def stored_inv(field, want_request):
        def f(ex, st, holder):
            td = ex.read_field(st, holder, field, Ref('TimeoutDict'))
            items = ex.read_field(st, td, '_items', F['_items'])
            MF = reg.classes['Message'].fields
            k = z3.Const('inv_sk', sort_of(K))
            with quantified(ex):
                m = from_term(MSG, z3.Select(ex.dict_vals(st, items), k))
                code = ex.read_field(st, m, 'code', MF['code'])
                rem = ex.read_field(st, m, 'remote', MF['remote'])
                ok = [z3.Not(code.is_none()), m.t >= 1, m.t < st.alloc]
                if want_request:
                    ok += [code.some().t >= 1, code.some().t < 32, z3.Not(rem.is_none())]
                body = z3.ForAll([k], z3.Implies(z3.Select(ex.dict_dom(st, items), k), z3.And(*ok)))
            return VBool(z3.And(td_inv(ex, st, td).t, body))
        return f
    reg.specfuncs['spool_inv'] = stored_inv('_assemblies', True)
    reg.specfuncs['cache_inv'] = stored_inv('_completes', False)

    R1 = 'req.opt.block1'
    HASKEY = 'asm_has(self, block_key(req))'
    ASM = 'asm_get(self, block_key(req))'
    R_MISMATCH = ("(%s[1] and not (len(req.payload) == bsize(%s[2]) or (%s[2] == 7 and len(req.payload) %% bsize(%s[2]) == 0)))" % (R1, R1, R1, R1))
    GAP = '(%s[0] * bsize(%s[2]) != len(%s.payload))' % (R1, R1, ASM)

    def ft_exit(ex, s, entry, env, result):
        ev = Ev(ex, s, entry, env)
        nob = ev('old(req.opt.block1) is None')
        first = ev('old(req.opt.block1) is not None and old(req.opt.block1[0]) == 0')
        return [('without-block1-passed-through', z3.Implies(nob, z3.And(result.t == env['req'].t, B(len(s.log) == 0)))),
                ('complete-body-returned', z3.Implies(z3.Not(nob), ev('result is asm_get(self, block_key(req))', result=result))),
                ('first-block-starts-a-new-assembly', z3.Implies(first, ev('result is req', result=result))),
                ('only-final-blocks-return', z3.Implies(z3.Not(nob), ev('not req.opt.block1[1]')))]

    def cont_post(ctx):
        exc = ctx.st.ghost.get('$raised')
        return z3.BoolVal(True)

    reg.contract(BW + ':Block1Spool.feed_and_take', params={'req': MSG}, result=MSG, properties=P,
                 requires=['spool_inv(self)', 'req.code is not None', '1 <= req.code < 32', 'req.remote is not None',
                           'req.remote.maximum_payload_size >= 1024', '0 <= req.remote.maximum_block_size_exp <= 7',
                           'implies(req.opt.block1 is not None, req.opt.block1[0] >= 0 and 0 <= req.opt.block1[2] <= 7)',
                           'implies(req.opt.block2 is not None, req.opt.block2[0] >= 0 and 0 <= req.opt.block2[2] <= 7)',
                           'implies(req.opt.block1 is not None and req.opt.block1[0] > 0 and %s, %s is not req and %s.opt is not req.opt)' % (HASKEY, ASM, ASM)],
                 ensures={'spool-invariant': 'spool_inv(self)',
                          'result-is-a-request-from-a-known-endpoint': 'result.code is not None and 1 <= result.code < 32 and result.remote is not None'},
                 raises_post={k_: {'spool-invariant': 'spool_inv(self)'} for k_ in ('IncompleteException', 'BadRequest', 'ContinueException')},
                 raises={'IncompleteException': 'req.opt.block1 is not None and req.opt.block1[0] > 0 and (not %s or (not %s and %s))' % (HASKEY, R_MISMATCH, GAP),
                         'BadRequest': 'req.opt.block1 is not None and req.opt.block1[0] > 0 and %s and %s' % (HASKEY, R_MISMATCH),
                         'ContinueException': 'req.opt.block1 is not None and req.opt.block1[1] and (req.opt.block1[0] == 0 or (%s and not %s and not %s))' % (HASKEY, R_MISMATCH, GAP)},
                 only_raises=True, at_exit=ft_exit,
                 modifies=['self._assemblies._timeout', 'self._assemblies._recently_accessed', 'dict:self._assemblies._recently_accessed',
                           'self._assemblies.gh_T0', 'self._assemblies.gh_last', 'self._assemblies.gh_armed', 'dict:self._assemblies._items',
                           'field:payload', 'field:token', 'field:mid', 'field:block1', 'field:block2'],
                 ghost=lg_result('feed_and_take', 'self', 'req'))

    # ------------------------------------------------------ response cache
    Q2 = 'req.opt.block2'

    def b2_at_await(ex, s, entry, env):
        ev = lambda t: ex.truth(s, ex.spec_val(s, t, env=env, old_st=entry))
        return [('builder-only-for-block-0', ev('req.opt.block2 is None or req.opt.block2[0] == 0')),
                ('builder-called-once', B(len(evs(s, 'call')) == 1))]

    def xi_exit(ex, s, entry, env, result):
        ev = Ev(ex, s, entry, env)
        later = ev('old(req.opt.block2) is not None and old(req.opt.block2[0]) > 0')
        calls, xb = evs(s, 'call'), evs(s, 'extract_block')
        g = [('later-blocks-come-from-the-cache-not-a-new-rendering', z3.Implies(later, B(len(calls) == 0))),
             ('block-0-renders-exactly-once', z3.Implies(z3.Not(later), B(len(calls) == 1))),
             ('later-blocks-are-always-slices', z3.Implies(later, B(len(xb) == 1)))]
        for e in xb:
            g.append(('slice-of-the-cached-rendering', z3.Implies(later, e[1].t == ex.spec_val(s, 'old(asm_get(self, block_key(req)))', env=env, old_st=entry).t)))
            g.append(('slice-as-requested', z3.Implies(later, ev('n == req.opt.block2[0] and x == req.opt.block2[2]', n=e[2], x=e[3]))))
            g.append(('result-is-that-slice', result.t == e[-1].t))
            g.append(('sliced-rendering-is-cached', ev('asm_has(self, block_key(req)) and asm_get(self, block_key(req)) is a', a=e[1])))
        # the cache never keeps a rendering older than the latest block-0 request of that key
        g.append(('cache-holds-the-latest-block-0-rendering', z3.Implies(z3.Not(later), z3.Or(z3.Not(ev('asm_has(self, block_key(req))')), B(len(xb) == 1)))))
        return g

    reg.contract(BW + ':Block2Cache.extract_or_insert', params={'req': MSG, 'response_builder': CALLABLE}, result=MSG, properties=P,
                 requires=['cache_inv(self)', 'req.code is not None', 'req.remote is not None', 'req.remote.maximum_payload_size >= 1024',
                           '0 <= req.remote.maximum_block_size_exp <= 7',
                           'implies(req.opt.block2 is not None, req.opt.block2[0] >= 0 and 0 <= req.opt.block2[2] <= 7)'],
                 raises={'IncompleteException': MAY, 'BadRequest': MAY, 'CancelledError': MAY, 'Exception': MAY},
                 raises_post={'IncompleteException': {'only-for-later-blocks-without-rendering': 'req.opt.block2 is not None and req.opt.block2[0] > 0 and not old(asm_has(self, block_key(req)))'}},
                 at_exit=xi_exit, modifies=['*'],
                 awaits={0: {'havoc': True, 'check': b2_at_await, 'result': MSG, 'raises': ['builtins:Exception'],
                             'owned': ['req', 'req.opt', 'req.remote', 'self'],
                             'assume': ['cache_inv(self)'],
                             'result_assume': ['result.code is not None', 'result is not req', 'result.opt is not req.opt']}},
                 local_types={'assembled': MSG})

    # ------------------------------------------------------ glue
    reg.contract(BW + ':ContinueException.to_message', result=MSG, properties=P, only_raises=True,
                 requires=['self.block1 is not None'],
                 ensures={'code-2.31': 'result.code == 95', 'echoes-block-option': 'result.opt.block1 == self.block1'})

    IR = 'aiocoap.interfaces:Resource'
    # messages kept in the spool / cache are other objects than the request being processed, and are requests/responses
    STORED_OK1 = ('implies(asm_has(self._block1, block_key(pipe.request)), asm_get(self._block1, block_key(pipe.request)) is not pipe.request and '
                  'asm_get(self._block1, block_key(pipe.request)).opt is not pipe.request.opt)')
    reg.assume('A-STORED: messages kept in Block1Spool/Block2Cache are not the request object currently being processed')
    reg.declare_class('ResourceI', IR, fields={'_block1': Ref('Block1Spool'), '_block2': Ref('Block2Cache')})
    reg.contract(IR + '.needs_blockwise_assembly', params={'request': MSG}, result=BOOL, verify=False, properties=P,
                 trusted_reason='abstract method of the resource interface (the application decides)')
    reg.contract(IR + '.render', params={'request': MSG}, result=MSG, verify=False, properties=P, modifies=['*'],
                 raises={'Exception': MAY}, ghost=lg_result('render', 'self', 'request'),
                 ensures={'a-message': 'result.code is not None or True'},
                 trusted_reason='abstract method of the resource interface (the application handler)')
    reg.contracts[BW + ':Block2Cache.extract_or_insert'].ghost = lg_result('extract_or_insert', 'self', 'req', 'response_builder')

    def rtp_exit(ex, s, entry, env, result):
        adds = evs(s, 'pipe_add_response')
        g = [('exactly-one-final-response', B(len(adds) == 1))]
        for e in adds:
            kw = dict(e[-1])
            g.append(('marked-last', ex.truth(s, kw['is_last']) if 'is_last' in kw else B(False)))
            g.append(('to-this-pipe', e[1].t == env['pipe'].t))
        ft, xi, rn = evs(s, 'feed_and_take'), evs(s, 'extract_or_insert'), evs(s, 'render')
        g.append(('assembly-before-rendering', B(len(ft) == len(xi) and len(ft) <= 1)))
        for f, x in zip(ft, xi):
            g.append(('handler-input-is-the-assembled-request', x[2].t == f[-1].t))
        return g

    reg.contract(IR + '._render_to_pipe', params={'pipe': Ref('PipeI')}, self_class='ResourceI', properties=P + ['C09'],
                 requires=['pipe.request.code is not None', '1 <= pipe.request.code < 32', 'pipe.request.remote is not None',
                           'pipe.request.remote.maximum_payload_size >= 1024', '0 <= pipe.request.remote.maximum_block_size_exp <= 7',
                           'implies(pipe.request.opt.block1 is not None, pipe.request.opt.block1[0] >= 0 and 0 <= pipe.request.opt.block1[2] <= 7)',
                           'implies(pipe.request.opt.block2 is not None, pipe.request.opt.block2[0] >= 0 and 0 <= pipe.request.opt.block2[2] <= 7)'],
                 raises={'Exception': MAY, 'CancelledError': MAY}, modifies=['*'], at_exit=rtp_exit,
                 awaits={0: {'havoc': True, 'result': BOOL,
                             'owned': ['pipe', 'pipe.request', 'pipe.request.opt', 'pipe.request.remote', 'self', 'self._block1', 'self._block2'],
                             'assume': ['spool_inv(self._block1)', 'cache_inv(self._block2)', 'self._block1._assemblies is not self._block2._completes', 'self._block1._assemblies._items is not self._block2._completes._items', 'implies(self._block1._assemblies._recently_accessed is not None, self._block1._assemblies._recently_accessed is not self._block2._completes._recently_accessed)', STORED_OK1]},
                         1: {'havoc': False}, 2: {'havoc': True, 'result': MSG}})
