"""C10 -- message layer reactions (RFC 7252 section 4.2/4.3, table 1; RFC 7967 No-Response)"""
import z3
from pyvc.values import *   # noqa
from pyvc.registry import MAY
from contracts.mm import MM
from contracts.util import lg, lg_result, evs, count, B, Ev

CON, NON, ACK, RST = 0, 1, 2, 3


def register(reg, prog):
    P = ['C10']
    MSG = Ref('Message')

    # ------------------------------------------------------- dispatch_message
    def dm_exit(ex, s, entry, env, result):
        ev = Ev(ex, s, entry, env)
        m = env['message']
        is_req = ev('1 <= message.code < 32')
        is_resp = ev('64 <= message.code < 192')
        empty = ev('message.code == 0')
        ty = lambda t: ev('message.mtype == %d' % t)
        dd = evs(s, 'dedup')
        dup = z3.BoolVal(False)
        g = [('dedup-only-requests', B(len(dd) == 1) == is_req)]
        for e in dd:
            g.append(('dedup-this-message', e[2].t == m.t))
            dup = e[3].t
        g.append(('duplicate-request-stops-here', z3.Implies(z3.And(is_req, dup), B(len(s.log) == len(dd)))))
        live = z3.Not(z3.And(is_req, dup))
        rm, ping, preq, presp, eack, si = (evs(s, k) for k in ('_remove_exchange', 'ping', 'process_request', 'process_response', 'empty_ack', 'send_initially'))
        g.append(('ack-or-rst-ends-exchange', z3.Implies(live, B(len(rm) == 1) == z3.Or(ty(ACK), ty(RST)))))
        g.append(('ping-answered', z3.Implies(live, B(len(ping) == 1) == z3.And(empty, ty(CON)))))
        g.append(('request-upcall', z3.Implies(live, B(len(preq) == 1) == z3.And(is_req, z3.Or(ty(CON), ty(NON))))))
        g.append(('response-upcall', z3.Implies(live, B(len(presp) == 1) == z3.And(is_resp, z3.Or(ty(CON), ty(NON), ty(ACK))))))
        for e in rm + ping + preq + presp:
            g.append(('same-message-passed-on', e[2].t == m.t))
        matched = presp[0][3].t if presp else z3.BoolVal(False)
        g.append(('matched-con-response-gets-empty-ack', B(len(eack) == 1) == z3.And(B(len(presp) == 1), matched, ty(CON))))
        for e in eack:
            g.append(('ack-to-sender', ev('r is message.remote', r=e[2])))
            g.append(('ack-same-mid', ev('m2 == message.mid', m2=e[3])))
        unmatched_con = z3.And(B(len(presp) == 1), z3.Not(matched), ty(CON), ev('not message.remote.is_multicast_locally'))
        g.append(('unmatched-unicast-con-response-gets-rst', B(len(si) == 1) == unmatched_con))
        for e in si:
            g.append(('rst-type', ev('r.mtype == 3 and r.code == 0 and r.mid == message.mid and len(r.payload) == 0', r=e[2])))
            g.append(('rst-to-sender', ev('r.remote == as_response_address(message.remote)', r=e[2])))
        g.append(('nothing-else', B(len(s.log) == len(dd) + len(rm) + len(ping) + len(preq) + len(presp) + len(eack) + len(si))))
        return g

    reg.specfuncs['as_response_address'] = lambda ex, st, r: (r.some() if isinstance(r, VOpt) else r)

    reg.contract(MM + '.dispatch_message', params={'message': MSG}, properties=P + ['C03', 'C04', 'C02'],
                 requires=['message.code is not None', 'message.mtype is not None', 'message.remote is not None',
                           'mm_wf(self)', 'nstart_inv(self)', '0 <= message.mtype <= 3', '0 <= message.code <= 255'],
                 only_raises=True, at_exit=dm_exit)

    # ---------------------------------------------------------------- bodies
    def ping_exit(ex, s, entry, env, result):
        ev = Ev(ex, s, entry, env)
        si = evs(s, 'send_initially')
        g = [('one-reset', B(len(si) == 1 and len(s.log) == 1))]
        for e in si:
            g.append(('reset-same-mid', ev('r.mtype == 3 and r.code == 0 and r.mid == message.mid and len(r.payload) == 0', r=e[2])))
            g.append(('reset-to-sender', ev('r.remote == as_response_address(message.remote)', r=e[2])))
        return g
    reg.contract(MM + '._process_ping#body', params={'message': MSG}, properties=P, requires=['message.remote is not None'],
                 only_raises=True, at_exit=ping_exit)

    def eack_exit(ex, s, entry, env, result):
        ev = Ev(ex, s, entry, env)
        si = evs(s, 'send_initially')
        g = [('one-ack', B(len(si) == 1 and len(s.log) == 1))]
        for e in si:
            g.append(('empty-ack', ev('a.mtype == 2 and a.code == 0 and a.mid == mid and len(a.payload) == 0', a=e[2])))
            g.append(('ack-to-remote', ev('a.remote == as_response_address(remote)', a=e[2])))
        return g
    reg.contract(MM + '._send_empty_ack#body', params={'remote': Opt(Ref('Remote')), 'mid': Opt(INT), 'reason': STR},
                 properties=P + ['C04'], requires=['remote is not None'], only_raises=True, at_exit=eack_exit)

    reg.contract(MM + '._process_response#body', params={'response': MSG}, result=BOOL, properties=P, only_raises=True,
                 at_exit=lambda ex, s, entry, env, result: [
                     ('token-manager-decides', B(len(evs(s, 'process_response')) == 1 and len(s.log) == 1)),
                     ('result-passed-through', z3.And(B(True), *[e[-1].t == result.t for e in evs(s, 'process_response')]))])

    reg.contract(MM + '._next_message_id', result=INT, properties=P, only_raises=True,
                 requires=['0 <= self.message_id <= 65535'],
                 ensures={'returns-current': 'result == old(self.message_id)',
                          'advances-mod-2^16': 'self.message_id == (old(self.message_id) + 1) % 65536',
                          'fresh': 'self.message_id != result'},
                 modifies=['self.message_id'])

    # ------------------------------------------------------------ send_message
    def sm_exit(ex, s, entry, env, result):
        ev = Ev(ex, s, entry, env)
        g = []
        m = env['message']
        is_resp = ev('old(64 <= message.code < 192)')
        nr = z3.And(is_resp, ev('old(message.opt.no_response is not None and nr_suppressed(message.opt.no_response, message.code))'))
        opp = z3.And(is_resp, ev('old((message.remote, message.token) in self._piggyback_opportunities)'))
        si, bl, cancels, nmid = evs(s, 'send_initially'), evs(s, 'backlog_append'), evs(s, 'cancel'), evs(s, 'next_mid')
        sent = si  # messages handed on for transmission now
        queued = ev('message.remote in old(self._backlogs) and len(self._backlogs[message.remote]) == old(len(self._backlogs[message.remote])) + 1')
        g.append(('suppressed-without-pending-ack-sends-nothing', z3.Implies(z3.And(nr, z3.Not(opp)), B(len(s.log) == 0))))
        g.append(('opportunity-consumed', z3.Implies(opp, ev('(old(message.remote), old(message.token)) not in self._piggyback_opportunities'))))
        g.append(('ack-timer-cancelled-iff-opportunity', B(len(cancels) == 1) == opp))
        for e in cancels:
            g.append(('cancels-the-pending-ack-timer', ev('h is old(self._piggyback_opportunities[(message.remote, message.token)][1])', h=e[1])))
        for e in si:
            out = e[2]
            live = ev('old(self._active_exchanges is not None)')    # before MessageManager.shutdown (afterwards every type is forced to NON)
            g.append(('suppressed-with-pending-ack-sends-empty-ack', z3.Implies(z3.And(nr, opp, live),
                      ev('o is not message and o.mtype == 2 and o.code == 0 and o.mid == old(self._piggyback_opportunities[(message.remote, message.token)][0]) and o.remote == as_response_address(old(message.remote))', o=out))))
            g.append(('otherwise-this-message', z3.Implies(z3.Not(z3.And(nr, opp)), out.t == m.t)))
            g.append(('piggybacked-is-ack-with-request-mid', z3.Implies(z3.And(opp, z3.Not(nr), live),
                      ev('message.mtype == 2 and message.mid == old(self._piggyback_opportunities[(message.remote, message.token)][0])'))))
            g.append(('no-response-option-cleared', z3.Implies(is_resp, ev('o.opt.no_response is None', o=out))))
            g.append(('never-con-to-multicast', ev('not (o.mtype == 0 and o.remote.is_multicast)', o=out)))
            g.append(('mid-set', ev('o.mid is not None', o=out)))
            g.append(('monitor-passed-on', ev('mon is messageerror_monitor', mon=e[3])))
        g.append(('at-most-one-transmission', B(len(si) <= 1)))
        # type selection for messages that come without a type and are not piggybacked
        plain = z3.And(z3.Not(opp), z3.Not(nr), ev('old(message.mtype is None)'))
        g.append(('type-non-after-shutdown-or-multicast', z3.Implies(z3.And(plain, ev('old(self._active_exchanges is None) or old(message.remote.is_multicast)')), ev('message.mtype == 1'))))
        g.append(('type-follows-reliability', z3.Implies(z3.And(plain, ev('old(self._active_exchanges is not None) and not old(message.remote.is_multicast)')),
                  ev('message.mtype == (0 if old(message.transport_tuning.reliability) is True else 1 if old(message.transport_tuning.reliability) is False else 1 if (old(message.request) is not None and old(message.request.mtype) == 1) else 0)'))))
        # separate response: fresh message id from the counter
        g.append(('fresh-mid-unless-piggybacked', z3.Implies(z3.And(B(len(si) + len(bl) == 1), z3.Not(opp)), B(len(nmid) == 1))))
        for e in nmid:
            g.append(('mid-from-counter', z3.Implies(z3.Not(opp), ev('message.mid == n', n=e[2]))))
        # NSTART: queue behind an open exchange, otherwise transmit now
        con_out = ev('message.mtype == 0')
        g.append(('con-behind-open-exchange-is-queued-not-sent', z3.Implies(z3.And(con_out, ev('old(message.remote in self._backlogs)'), z3.Not(nr)),
                  z3.And(B(len(si) == 0), B(len(bl) == 1)))))
        g.append(('only-con-is-ever-queued', z3.Implies(B(len(bl) > 0), con_out)))
        for e in bl:
            g.append(('queued-at-the-end', ev('old(message.remote in self._backlogs) and lst is old(self._backlogs[message.remote]) and it[0] is message and it[1] is messageerror_monitor', lst=e[1], it=e[2])))
        return g

    def sm_raise_post(ctx):
        return ctx.ex.truth(ctx.st, ctx.ev('message.mtype == 0 and message.remote.is_multicast'))

    def backlog_append(ex, st, args, kw, node):
        """list.append on a backlog list: recorded, then performed"""
        return None

    reg.contract(MM + '._next_message_id#summary', verify=False, properties=P)   # placeholder to keep naming stable
    del reg.contracts[MM + '._next_message_id#summary']
    reg.contracts[MM + '._next_message_id'].ghost = lg_result('next_mid', 'self')

    reg.contract(MM + '.send_message', params={'message': MSG, 'messageerror_monitor': Opt(CALLABLE)}, properties=P + ['C14'],
                 requires=['mm_wf_or_shutdown(self)', 'implies(self._active_exchanges is not None, nstart_inv(self))',
                           'message.code is not None', 'message.remote is not None', '0 <= self.message_id <= 65535',
                           'implies(message.mtype is not None, 0 <= message.mtype <= 3)', '0 <= message.code <= 255',
                           'implies(message.opt.no_response is not None, 0 <= message.opt.no_response)',
                           'messageerror_monitor is not None'],
                 raises={'ConToMulticast': MAY}, only_raises=True,
                 raises_post={'ConToMulticast': {'only-con-to-multicast': sm_raise_post,
                                                 'nothing-sent': lambda ctx: B(not evs(ctx.st, 'send_initially', 'wire', 'backlog_append', 'next_mid'))}},
                 at_exit=sm_exit)
