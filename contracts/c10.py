"""C10 -- the message-layer reaction table is in contracts/mm.py (MessageManager).  This file only adds a bounded
conformance stand-in for one environment assumption those contracts make (A-REMOTE): the `is_multicast` /
`is_multicast_locally` fields of an endpoint address mean "the remote / the local address the datagram was received on is a
multicast address", and `as_response_address()` of a locally-multicast address drops the local address.  The UDP6
implementation computes them through `ipaddress` and string formatting, which is outside the string model; it is
enumerated natively instead.  Labelled bounded, never counted as proved."""
import os
import socket
import struct

VERIF = os.path.dirname(os.path.dirname(os.path.abspath(__file__)))


def register(reg, prog):
    pass


def ref_is_multicast(addr16):
    """RFC 4291 section 2.7: ff00::/8; for IPv4-mapped addresses (::ffff:a.b.c.d) RFC 5771: 224.0.0.0/4"""
    if addr16[:12] == b'\0' * 10 + b'\xff\xff':
        return 224 <= addr16[12] <= 239
    return addr16[0] == 0xff


def bounded(tier, seed):
    from aiocoap.transports.udp6 import UDP6EndpointAddress, _in6_pktinfo
    iface = type('FakeMessageInterface', (), {})()
    viol, n, samples = [], 0, []
    firsts = [0x00, 0x20, 0xfe, 0xff]
    tails = [bytes(15), bytes(14) + b'\x01', b'\x02' + bytes(13) + b'\xfd']
    addrs = [bytes([f]) + t for f in firsts for t in tails]
    for a in (224, 239, 240, 223, 10, 127, 255):
        for rest in (b'\x00\x01\xbb', b'\x00\x00\x01'):
            addrs.append(b'\0' * 10 + b'\xff\xff' + bytes([a]) + rest)
    for local in addrs:
        for remote in addrs[::3]:
            for ifindex in (0, 1):
                n += 1
                sockaddr = (socket.inet_ntop(socket.AF_INET6, remote), 5683, 0, 0)
                ep = UDP6EndpointAddress(sockaddr, iface, pktinfo=_in6_pktinfo.pack(local, ifindex))
                try:
                    got = (ep.is_multicast_locally, ep.is_multicast, ep.as_response_address().pktinfo is None)
                except Exception as e:
                    got = repr(e)
                want = (ref_is_multicast(local), ref_is_multicast(remote), ref_is_multicast(local))
                if len(samples) < 3 and want[0] and n % 5 == 0:
                    samples.append({'local': socket.inet_ntop(socket.AF_INET6, local), 'remote': sockaddr[0], 'is_multicast_locally': got[0] if isinstance(got, tuple) else got})
                if got != want:
                    path = os.path.join(VERIF, 'replays', 'C10-endpoint-%d.py' % (len(viol) + 1))
                    os.makedirs(os.path.dirname(path), exist_ok=True)
                    with open(path, 'w') as f:
                        f.write('#!/venv/bin/python\n"""C10 replay (bounded stand-in, endpoint address): local address %s"""\nimport sys\nsys.path.insert(0, %r)\n'
                                'from aiocoap.transports.udp6 import UDP6EndpointAddress, _in6_pktinfo\niface = type("I", (), {})()\n'
                                'ep = UDP6EndpointAddress(%r, iface, pktinfo=_in6_pktinfo.pack(%r, %d))\n'
                                'got = (ep.is_multicast_locally, ep.is_multicast, ep.as_response_address().pktinfo is None)\nprint(got, "expected", %r)\nsys.exit(0 if got == %r else 1)\n'
                                % (socket.inet_ntop(socket.AF_INET6, local), os.environ.get('VERIF_REPO', '/repo'), sockaddr, local, ifindex, want, want))
                    if len(viol) < 10:
                        viol.append({'what': 'UDP6EndpointAddress local %s remote %s: (is_multicast_locally, is_multicast, response address without local part) = %r, expected %r'
                                             % (socket.inet_ntop(socket.AF_INET6, local), sockaddr[0], got, want), 'replay': path})
    return [{'name': 'C10/endpoint-address-multicast-conformance', 'tool': 'bounded enumeration (native)', 'bound': '%d local x %d remote addresses x 2 interface indexes' % (len(addrs), len(addrs[::3])),
             'inputs_tried': n, 'samples': samples, 'violations': viol, 'counted_as_proved': False}]
