"""C07 -- observe client: Request._run (generator driven by pipe events)"""
import z3
from pyvc.values import *   # noqa
from pyvc.registry import MAY
from contracts.util import lg, lg_result, evs, count, B, Ev
from contracts.c09 import EVENT

RQ = 'aiocoap.protocol:Request'


def register(reg, prog):
    reg.python_specs(prog, 'specs.rfc7641')
    P = ['C07']
    MSG = Ref('Message')
    reg.declare_class('Request', RQ, fields={'_pipe': Ref('PipeI'), 'response': Ref('FutureI'), 'observation': Opt(Ref('ObservationI')),
                                             '_stop_interest': CALLABLE})
    reg.externals['time.time'] = lambda ex, st, args, kw, node: (lambda r: (st.log.append(('time', r)), [(st, r)])[1])(VReal(z3.Real(fresh_name('clock'))))
    OWNED = ['self', 'self._pipe', 'self._pipe.request', 'self._pipe.request.transport_tuning']
    EV_OK = ['(result[0] is None) != (result[1] is None)', 'implies(result[1] is not None, result[2])',   # Pipe.add_exception: exception events are last
             'implies(result[0] is not None and result[0].opt.observe is not None, 0 <= result[0].opt.observe < 2**24)',
             'implies(result[0] is not None, result[0] is not self._pipe.request and result[0].opt is not self._pipe.request.opt)']

    def step(ex, s, snap):
        """one further event while observing, after which the generator waits for the next one"""
        new = s.log[len(snap.log):]
        ev = lambda t, **kw: ex.truth(s, ex.spec_val(s, t, env=dict(ex.visible_env(s), **kw)))
        cbs = [e for e in new if e[0] == 'obs_callback']
        times = [e for e in new if e[0] == 'time']
        errs = [e for e in new if e[0] == 'obs_error']
        has_obs = ev('next_event[0].opt.observe is not None')
        g = [('no-termination-signal-while-continuing', B(len(errs) == 0)),
             ('continues-only-on-notifications', ev('next_event[0] is not None and not next_event[2]') if True else B(True)),
             ('at-most-one-delivery-per-arrival', B(len(cbs) <= 1))]
        t2 = times[0][1] if times else None
        if t2 is not None:
            is_fresh = ev('fresh(head(v1), head(t1), next_event[0].opt.observe, t2, self._pipe.request.transport_tuning.OBSERVATION_RESET_TIME)', t2=t2)
            g.append(('delivered-iff-fresher-than-the-last-delivered', z3.Implies(has_obs, B(len(cbs) == 1) == is_fresh)))
            g.append(('last-delivered-advances-exactly-on-delivery', z3.Implies(has_obs, z3.If(is_fresh, ev('v1 == next_event[0].opt.observe and t1 == t2', t2=t2),
                                                                                               ev('v1 == head(v1) and t1 == head(t1)')))))
        else:
            g.append(('arrival-time-taken-for-every-notification', z3.Not(has_obs)))
        for c in cbs:
            g.append(('delivers-this-notification', ev('m is next_event[0]', m=c[2])))
        return g

    def run_exit(ex, s, entry, env, result):
        """the generator returned: the response future was completed exactly once, the observation (if any) got its
        terminal signal exactly once and nothing after it"""
        kinds = [e[0] for e in s.log]
        done = kinds.count('set_result') + kinds.count('set_exception')
        # ... by the library, unless the application had cancelled the future before the first event arrived (then it is complete
        # already, and completing it again would raise InvalidStateError into the transport or into shutdown)
        ev = Ev(ex, s, entry, env)
        g = [('response-completed-exactly-once', z3.Or(B(done == 1), z3.And(B(done == 0), ev('self.response.g_cancelled and self.response.g_done'))))]
        errs = [i for i, k in enumerate(kinds) if k == 'obs_error']
        cbs = [i for i, k in enumerate(kinds) if k == 'obs_callback']
        g.append(('at-most-one-termination-signal', B(len(errs) <= 1)))
        if errs:
            g.append(('nothing-delivered-after-the-end', B(all(i < errs[0] for i in cbs))))
        return g

    def first_check(ex, s, entry, env):
        return [('nothing-before-the-first-event', B(not evs(s, 'set_result', 'set_exception', 'obs_callback', 'obs_error')))]

    # the response future is shared with the application, which may cancel it at any time (and does nothing else to it): while the
    # generator is suspended before the first event the future is either still pending or cancelled
    APP_FUTURE = ['self.response.g_done == self.response.g_cancelled']
    reg.contract(RQ + '._run', properties=P + ['C02', 'C18'], strict_futures=True,      # C18: shutdown feeds LibraryShutdown into this generator and must not be aborted by it
                 yields={0: {'result': EVENT, 'owned': OWNED, 'assume': EV_OK + APP_FUTURE, 'check': first_check},
                         1: {'result': EVENT, 'owned': OWNED, 'assume': EV_OK}},
                 requires=['self._pipe.request.transport_tuning.OBSERVATION_RESET_TIME > 0'],
                 raises={}, only_raises=True, modifies=['*'],
                 invariants={0: ['self.observation is not None', 'v1 is not None', '0 <= v1 < 2**24']},
                 loop_steps={0: [step]}, at_exit=run_exit,
                 local_types={'v1': Opt(INT), 't1': REAL, 'next_event': EVENT})

    # ---- the lossy iterator: a value pushed while the consumer is suspended must not be discarded
    IT = 'aiocoap.protocol:ClientObservation._Iterator'
    reg.declare_class('ObsIterator', IT, fields={'_future': Ref('FutureI')})

    def anext_exit(ex, s, entry, env, result):
        ev = Ev(ex, s, entry, env)
        created = evs(s, 'create_future')
        awaited = ex.spec_val(s, 'old(self._future)', env=env, old_st=entry)
        after = s.ghost.get('$future_after_await')
        g = []
        if after is not None:
            replaced = after.t != awaited.t          # push() installed a new (already resolved) future meanwhile
            g.append(('a-future-installed-meanwhile-is-kept', z3.Implies(replaced, z3.And(B(len(created) == 0), ex.read_field(s, env['self'], '_future', Ref('FutureI')).t == after.t))))
            g.append(('a-consumed-future-is-replaced', z3.Implies(z3.Not(replaced), B(len(created) == 1))))
        return g

    def remember_future(ex, s, rv):
        s.ghost['$future_after_await'] = ex.read_field(s, ex.spec_val(s, 'self'), '_future', Ref('FutureI'))

    reg.contract(IT + '.__anext__', self_class='ObsIterator', result=ANY, properties=P + ['C18'],     # C18: the shutdown error pushed meanwhile must not be lost
                 raises={'StopAsyncIteration': MAY, 'CancelledError': MAY, 'Exception': MAY}, modifies=['*'], at_exit=anext_exit,
                 awaits={0: {'havoc': True, 'result': ANY, 'raises': ['aiocoap.error:NotObservable', 'aiocoap.error:ObservationCancelled', 'aiocoap.error:NetworkError'],
                             'after': remember_future}})
    _register_observation(reg, prog)


def _register_observation(reg, prog):
    """ClientObservation itself (elsewhere an opaque interface whose calls are logged): the terminal signal is remembered, so that a
    consumer that starts listening after the end still gets it (C07 "ends exactly once ... with a network error"; C18 "every outstanding
    ... observation terminates with a library error")"""
    CO = 'aiocoap.protocol:ClientObservation'
    P = ['C07', 'C18']
    d = reg.classes['ObservationI']
    d.fields.update({'callbacks': Opt(List(CALLABLE)), 'errbacks': Opt(List(CALLABLE)), 'cancelled': BOOL, '_on_cancel': List(CALLABLE),
                     '_latest_response': Opt(Ref('Message')), '_cancellation_reason': Opt(Ref('builtins:Exception'))})
    WF = '(self.errbacks is None) == self.cancelled and (self.callbacks is None) == self.cancelled'

    def own_methods(ex, st, args):
        # inside its own methods the observation is not an opaque collaborator: self.cancel() is the method below, by contract
        d.opaque = False

    def calls_since(s, snap):
        return [e for e in s.log[len(snap.log):] if e[0] == 'call']

    def cancel_step(ex, s, snap):
        return [('one-cancellation-callback-per-round', B(len(calls_since(s, snap)) == 1))]

    reg.contract(CO + '.cancel', self_class='ObservationI', properties=P, setup=own_methods, requires=[WF],
                 raises={'AssertionError': 'self.cancelled'}, only_raises=True,
                 invariants={0: ['self.cancelled and self.errbacks is None and self.callbacks is None']}, loop_steps={0: [cancel_step]},
                 modifies=['self.errbacks', 'self.callbacks', 'self.cancelled', 'self._cancellation_reason', 'list:self._on_cancel'],
                 ensures={'ended': 'self.cancelled and self.errbacks is None and self.callbacks is None',
                          'no-reason-recorded-by-cancel-itself': 'self._cancellation_reason is None',
                          'cancellation-callbacks-consumed': 'len(self._on_cancel) == 0'},
                 ghost=lg('obs_cancel', 'self'))

    def error_step(ex, s, snap):
        new = calls_since(s, snap)
        g = [('one-errback-per-round', B(len(new) == 1))]
        for e in new:
            g.append(('errback-gets-the-exception', ex.truth(s, ex.spec_val(s, 'a is exception', env=dict(ex.visible_env(s), a=e[2][0]))) if e[2] else B(False)))
            g.append(('the-errback-of-this-round-is-called', e[1] == ex.spec_val(s, 'c', env=ex.visible_env(s)).t))
        return g

    reg.contract(CO + '.error', self_class='ObservationI', params={'exception': Ref('builtins:Exception')}, properties=P, setup=own_methods,
                 requires=[WF], raises={'RuntimeError': 'self.errbacks is None'}, only_raises=True, loop_steps={0: [error_step]},
                 modifies=['self.errbacks', 'self.callbacks', 'self.cancelled', 'self._cancellation_reason', 'list:self._on_cancel'],
                 raises_post={'RuntimeError': {'an-ended-observation-is-left-alone': 'self._cancellation_reason is old(self._cancellation_reason) and self.cancelled'}},
                 ensures={'ended': 'self.cancelled and self.errbacks is None',
                          'the-terminal-error-is-remembered-for-late-listeners': 'self._cancellation_reason is exception'},
                 local_types={'c': CALLABLE})

    def errback_exit(ex, s, entry, env, result):
        ev = Ev(ex, s, entry, env)
        calls = [e for e in s.log if e[0] == 'call']
        was = ev('old(self.cancelled)')
        g = [('a-late-listener-is-called-at-once-exactly-once', was == B(len(calls) == 1)), ('otherwise-nothing-is-called', B(len(calls) <= 1))]
        for e in calls:
            g.append(('the-new-listener-is-the-one-called', e[1] == env['callback'].t))
            g.append(('with-the-remembered-terminal-error', ev('a is old(self._cancellation_reason)', a=e[2][0]) if e[2] else B(False)))
        g.append(('an-early-listener-is-queued', z3.Implies(z3.Not(was), ev('len(self.errbacks) == old(len(self.errbacks)) + 1 and self.errbacks[len(self.errbacks) - 1] is callback'))))
        return g

    reg.contract(CO + '.register_errback', self_class='ObservationI', params={'callback': CALLABLE, '_suppress_deprecation': BOOL}, properties=P, setup=own_methods,
                 requires=[WF], only_raises=True, at_exit=errback_exit, modifies=['list:self.errbacks'],
                 ensures={'state-kept': 'self.cancelled == old(self.cancelled) and self._cancellation_reason is old(self._cancellation_reason)'})
