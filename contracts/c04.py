"""C04 -- deduplication of requests by (endpoint, message ID)"""
import z3
from pyvc.values import *   # noqa
from pyvc.registry import MAY
from contracts.mm import MM
from contracts.util import lg, lg_result, evs, count, B, Ev


def register(reg, prog):
    P = ['C04']
    MSG = Ref('Message')
    F = reg.classes['MessageManager'].fields

    @reg.specfunc('recent_inv')
    def recent_inv(ex, st, mm):
        """every stored answer is an acknowledgement (ACK or RST) carrying the key's message ID"""
        rec = ex.read_field(st, mm, '_recent_messages', F['_recent_messages'])
        ks = sort_of(rec.k)
        k = z3.Const(fresh_name('rk'), ks)
        v = from_term(rec.v, z3.Select(ex.dict_vals(st, rec), k))
        mt = ex.read_field(st, v.some(), 'mtype', reg.classes['Message'].fields['mtype'])
        mid = ex.read_field(st, v.some(), 'mid', reg.classes['Message'].fields['mid'])
        rem = ex.read_field(st, v.some(), 'remote', reg.classes['Message'].fields['remote'])
        ok = z3.And(z3.Not(mt.is_none()), z3.Or(mt.some().t == 2, mt.some().t == 3), mid.t == ks.accessor(0, 1)(k),
                    rem.t == ks.accessor(0, 0)(k))
        return VBool(z3.ForAll([k], z3.Implies(z3.And(z3.Select(ex.dict_dom(st, rec), k), z3.Not(v.is_none())), ok)))

    def recent_update(ctx):
        """the only change to the duplicate memory: an ACK/RST for a remembered (remote, mid) is stored under that key"""
        ex, s, old, env = ctx.ex, ctx.st, ctx.old_st, ctx.env
        mm, msg = env['self'], env['message']
        now = ex.read_field(s, mm, '_recent_messages', F['_recent_messages'])
        was = ex.read_field(old, mm, '_recent_messages', F['_recent_messages'])
        ks = sort_of(F['_recent_messages'][1])
        kk = z3.Const(fresh_name('uk'), ks)
        key = coerce(ctx.ev('(message.remote, message.mid)'), F['_recent_messages'][1]).t
        is_ack = ex.truth(s, ctx.ev('message.mtype == 2 or message.mtype == 3'))
        known = z3.Select(ex.dict_dom(old, was), key)
        vs = sort_of(F['_recent_messages'][2])
        newv = z3.If(z3.And(known, is_ack), (msg.t if isinstance(msg, VOpt) else vs.constructor(1)(msg.t)), z3.Select(ex.dict_vals(old, was), key))
        return z3.And(now.t == was.t,
                      z3.ForAll([kk], z3.Select(ex.dict_dom(s, now), kk) == z3.Select(ex.dict_dom(old, was), kk)),
                      z3.ForAll([kk], z3.Implies(kk != key, z3.Select(ex.dict_vals(s, now), kk) == z3.Select(ex.dict_vals(old, was), kk))),
                      z3.Select(ex.dict_vals(s, now), key) == newv)
    reg.recent_update = recent_update

    def dd_exit(ex, s, entry, env, result):
        ev = Ev(ex, s, entry, env)
        dup = ev('old((message.remote, message.mid) in self._recent_messages)')
        si, timers = evs(s, 'send_initially'), evs(s, 'call_later')
        g = [('returns-whether-duplicate', result.t == dup)]
        stored = ev('old(self._recent_messages[(message.remote, message.mid)]) is not None')
        g.append(('con-duplicate-resends-stored-answer', z3.Implies(dup, B(len(si) == 1) == z3.And(ev('message.mtype == 0'), stored))))
        for e in si:
            g.append(('resends-exactly-the-stored-message', ev('a is old(self._recent_messages[(message.remote, message.mid)])', a=e[2])))
        g.append(('duplicate-changes-nothing', z3.Implies(dup, ev('forall_recent_same(self, old(self))') if False else B(len(timers) == 0))))
        g.append(('new-message-is-remembered', z3.Implies(z3.Not(dup), ev('(message.remote, message.mid) in self._recent_messages and self._recent_messages[(message.remote, message.mid)] is None'))))
        g.append(('new-message-sends-nothing', z3.Implies(z3.Not(dup), B(len(si) == 0))))
        g.append(('one-expiry-timer-iff-new', B(len(timers) == 1) == z3.Not(dup)))
        for e in timers:
            g.append(('expires-after-EXCHANGE_LIFETIME-of-its-tuning', ev('d == message.transport_tuning.EXCHANGE_LIFETIME', d=e[1])))
            # run the expiry callback: it forgets exactly this key and nothing else
            s2 = s.copy()
            save = ex.collect_only
            ex.collect_only = True
            try:
                outs = ex.call(s2, e[2], list(e[3]), {}, None)
            finally:
                ex.collect_only = save
            ok = len(outs) == 1 and outs[0][0].exc is None
            g.append(('expiry-callback-does-not-raise', B(ok)))
            if ok:
                s3 = outs[0][0]
                e3 = Ev(ex, s3, entry, env)
                g.append(('expiry-forgets-this-key', e3('(message.remote, message.mid) not in self._recent_messages')))
                kk = z3.Const(fresh_name('ok'), sort_of(F['_recent_messages'][1]))
                rec_now = ex.read_field(s3, env['self'], '_recent_messages', F['_recent_messages'])
                rec_before = ex.read_field(s, env['self'], '_recent_messages', F['_recent_messages'])
                key = coerce(ex.spec_val(s, '(message.remote, message.mid)', env=env), F['_recent_messages'][1]).t
                g.append(('expiry-forgets-nothing-else', z3.ForAll([kk], z3.Implies(kk != key,
                          z3.Select(ex.dict_dom(s3, rec_now), kk) == z3.Select(ex.dict_dom(s, rec_before), kk)))))
        # frame: other keys untouched
        kk = z3.Const(fresh_name('fk'), sort_of(F['_recent_messages'][1]))
        rec_now = ex.read_field(s, env['self'], '_recent_messages', F['_recent_messages'])
        rec_old = ex.read_field(entry, env['self'], '_recent_messages', F['_recent_messages'])
        key = coerce(ex.spec_val(s, '(message.remote, message.mid)', env=env), F['_recent_messages'][1]).t
        g.append(('other-keys-untouched', z3.ForAll([kk], z3.Implies(kk != key, z3.And(
            z3.Select(ex.dict_dom(s, rec_now), kk) == z3.Select(ex.dict_dom(entry, rec_old), kk),
            z3.Select(ex.dict_vals(s, rec_now), kk) == z3.Select(ex.dict_vals(entry, rec_old), kk))))))
        g.append(('duplicate-keeps-stored-answer', z3.Implies(dup, ev('self._recent_messages[(message.remote, message.mid)] is old(self._recent_messages[(message.remote, message.mid)])'))))
        return g

    reg.contract(MM + '._deduplicate_message#body', params={'message': MSG}, result=BOOL, properties=P,
                 requires=['mm_wf(self)', 'recent_inv(self)', 'message.transport_tuning.MAX_RETRANSMIT >= 0'],
                 only_raises=True, at_exit=dd_exit)

    def st_exit(ex, s, entry, env, result):
        ev = Ev(ex, s, entry, env)
        known = ev('old((message.remote, message.mid) in self._recent_messages)')
        is_ack = ev('message.mtype == 2 or message.mtype == 3')
        g = [('stores-acknowledgement-of-known-request', z3.Implies(z3.And(known, is_ack), ev('self._recent_messages[(message.remote, message.mid)] is message'))),
             ('never-creates-a-key', ev('((message.remote, message.mid) in self._recent_messages)') == known),
             ('invariant-kept', ev('recent_inv(self)')),
             ('nothing-sent', B(len(s.log) == 0))]
        return g

    reg.contract(MM + '._store_response_for_duplicates', params={'message': MSG}, properties=P,
                 requires=['mm_wf(self)', 'recent_inv(self)', 'message.mid is not None'],
                 modifies=['dict:self._recent_messages'], only_raises=True, at_exit=st_exit,
                 ghost=lg('store_for_duplicates', 'self', 'message'),
                 ensures={'invariant-kept': 'recent_inv(self)', 'exact-update': recent_update})

    # ---- first transmission: exchange (if CON), remember for duplicates, one datagram
    def si_exit(ex, s, entry, env, result):
        ev = Ev(ex, s, entry, env)
        kinds = [e[0] for e in s.log]
        con = ev('message.mtype == 0')
        g = [('one-datagram', B(kinds.count('wire') == 1)),
             ('exchange-iff-con', B(kinds.count('_add_exchange') == 1) == con),
             ('remembered-for-duplicates', B(kinds.count('store_for_duplicates') == 1)),
             ('order', B(kinds in (['_add_exchange', 'store_for_duplicates', 'wire'], ['store_for_duplicates', 'wire']))),
             ('duplicate-memory-update', recent_update(type('C', (), {'ex': ex, 'st': s, 'old_st': entry, 'env': env, 'ev': Ev(ex, s, entry, env).val})()))]
        for e in s.log:
            g.append(('same-message', e[2].t == env['message'].t) if e[0] != 'wire' else ('same-message', e[1].t == env['message'].t))
        return g

    reg.contract(MM + '._send_initially#body', params={'message': MSG, 'messageerror_monitor': Opt(CALLABLE)}, properties=P + ['C03', 'C10'],
                 requires=['mm_wf(self)', 'recent_inv(self)', 'message.mid is not None', 'message.remote is not None',
                           'implies(message.mtype == 0, messageerror_monitor is not None)',
                           'message.transport_tuning.ACK_RANDOM_FACTOR >= 1', 'message.transport_tuning.ACK_TIMEOUT > 0'],
                 only_raises=True, at_exit=si_exit)

    c = reg.contracts[MM + '._send_initially']
    c.ensures['duplicate-memory-update'] = recent_update
    c.ensures['duplicate-memory-invariant'] = 'implies(old(recent_inv(self)), recent_inv(self))'
