"""C02 -- the deductive contracts of C02 live in tm.py / mm.py / c07.py (tagged 'C02'); this module only adds the bounded
conformance stand-in for the assumed contract of endpoint addresses (A-REMOTE: `remote == other` decides "the same endpoint";
the token manager keys its tables by (token, remote))."""
import os
import socket

VERIF = os.path.dirname(os.path.dirname(os.path.abspath(__file__)))


def bounded(tier, seed):
    """Identity of UDP endpoint addresses against the notion of the property text ("the endpoint the response comes from": an IP
    address and a port): addresses that differ in host or port are never equal and never collide as dictionary keys together with
    a token; equal socket addresses are equal and hash alike (otherwise no response would ever match).  Whether the flow label or
    the zone of a link-local address take part is left open (the library compares the flow label and ignores the zone)."""
    from aiocoap.transports.udp6 import UDP6EndpointAddress
    iface = type('FakeMessageInterface', (), {})()
    hosts = ['::1', '2001:db8::1', '2001:db8::2', '::ffff:10.0.0.1', '::ffff:10.0.0.2', 'fe80::1', 'ff02::1']
    ports = [5683, 5684, 1, 61616]
    eps = [((h, p, 0, 0), UDP6EndpointAddress((h, p, 0, 0), iface)) for h in hosts for p in ports]
    viol, n, samples = [], 0, []

    def bad(what, sa, sb):
        path = os.path.join(VERIF, 'replays', 'C02-endpoint-%d.py' % (len(viol) + 1))
        os.makedirs(os.path.dirname(path), exist_ok=True)
        with open(path, 'w') as f:
            f.write('#!/venv/bin/python\n"""C02 replay (bounded stand-in, endpoint identity): %s"""\nimport sys, os\nsys.path.insert(0, os.environ.get("VERIF_REPO", "/repo"))\n'
                    'from aiocoap.transports.udp6 import UDP6EndpointAddress\niface = type("I", (), {})()\n'
                    'a, b = UDP6EndpointAddress(%r, iface), UDP6EndpointAddress(%r, iface)\nsame = (%r[:2] == %r[:2])\n'
                    'table = {(b"\\x01", a): "request to a"}\nhit = (b"\\x01", b) in table\n'
                    'print("a == b:", a == b, " hash equal:", hash(a) == hash(b), " (token, b) finds the request to a:", hit, " same host and port:", same)\n'
                    'sys.exit(0 if (a == b) == same and hit == same else 1)\n' % (what, sa, sb, sa, sb))
        if len(viol) < 10:
            viol.append({'what': what, 'replay': path})
    for (sa, a), (sb, b) in [(x, y) for x in eps for y in eps]:
        n += 1
        same = sa[:2] == sb[:2]
        try:
            eq, heq = (a == b), (hash(a) == hash(b))
            hit = (b'\x01', b) in {(b'\x01', a): 1}
        except Exception as e:
            bad('comparing the endpoints %r and %r raises %r' % (sa, sb, e), sa, sb)
            continue
        if len(samples) < 3 and n % 97 == 0:
            samples.append({'a': sa, 'b': sb, 'equal': eq})
        if same and not (eq and heq and hit):
            bad('two addresses of the same host and port %r do not compare equal (eq %s, hash equal %s, found as key %s)' % (sa[:2], eq, heq, hit), sa, sb)
        if not same and (eq or hit):
            bad('the endpoints %r and %r differ in host or port but compare equal: a response from one would be matched to a request to the other' % (sa[:2], sb[:2]), sa, sb)
    return [{'name': 'C02/endpoint-identity-is-host-and-port', 'tool': 'bounded enumeration (native UDP6EndpointAddress)',
             'bound': 'all pairs of %d hosts x %d ports' % (len(hosts), len(ports)), 'inputs_tried': n, 'samples': samples, 'violations': viol,
             'counted_as_proved': False}]
