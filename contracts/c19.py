"""C19 -- file server confinement (aiocoap/cli/fileserver.py)"""
import z3
from pyvc.values import *   # noqa
from pyvc.registry import MAY
from contracts.util import lg, lg_result, evs, count, B, Ev
from contracts.common import BLOCKTUPLE

FS = 'aiocoap.cli.fileserver:FileServer'


RTL_ORACLE = '''
import atexit, logging, os, shutil, tempfile
from pathlib import Path
from aiocoap.cli.fileserver import FileServer
from aiocoap import error
ROOT = Path(tempfile.mkdtemp(prefix="c19root"))
atexit.register(shutil.rmtree, ROOT, True)

def mk_server():
    return FileServer(ROOT, logging.getLogger("c19"))

def oracle(args, result, exc):
    if exc is not None:
        return None if isinstance(exc, error.RenderableError) else "exception %r" % (exc,)
    p = os.path.normpath(str(result))
    if not (p == str(ROOT) or p.startswith(str(ROOT) + os.sep)):
        return "Uri-Path %r is mapped to %s, outside the root %s" % (args["request"].get("opt", {}).get("uri_path"), p, ROOT)
    return None
'''


def register(reg, prog):
    reg.python_specs(prog, 'specs.misc')
    P = ['C19']
    MSG = Ref('Message')
    reg.declare_class('FileServer', FS, fields={'root': Ref('PathI'), 'write': BOOL, 'etag_length': INT,
                                                '_observations': Ref('ObsMapI'), '_block1': Ref('Block1Spool'), '_block2': Ref('Block2Cache')})
    # ghost structure of path objects: which root they are under, by which relative string
    reg.declare_class('PathI', 'pathlib:Path', opaque=True, fields={'gh_base': Opt(Ref('PathI')), 'gh_rel': STR, 'gh_kind': INT})
    reg.declare_class('ObsMapI', 'builtins:dict', opaque=True)
    reg.declare_class('ObsEntryI', 'builtins:list', opaque=True)
    reg.declare_class('StatI', 'os:stat_result', opaque=True, fields={'st_mode': INT, 'st_size': INT, 'st_mtime_ns': INT, 'st_ctime_ns': INT})
    reg.declare_class('FileI', 'io:BufferedReader', opaque=True, fields={'gh_path': Ref('PathI'), 'gh_pos': INT, 'name': STR})
    reg.assume('A-STR/pathlib: root / s is the path `s` itself if s starts with "/", otherwise root extended by the "/"-separated '
               'components of s ("" and "." collapse, ".." stays); "/".join(P) has exactly the components P when no component '
               'contains "/", and starts with "/" iff len(P) >= 2 and P[0] == "" (conformance-tested natively)')
    KIND_JOIN, KIND_PARENT, KIND_CHILD, KIND_TEMP = 1, 2, 3, 4

    reg.param_defaults.update({'st': Ref('StatI'), 'stat': Ref('StatI'), 'path': Ref('PathI'), 'request': MSG})

    # ---- strings
    def str_join(ex, st, args, kw, node):
        sep, seq = args
        if isinstance(seq, VList):
            seq = ex.list_as_seq(st, seq)
        if isinstance(seq, VTuple):
            seq = coerce(seq, Seq(STR))
        f = z3.Function('str_join', StrS, sort_of(Seq(STR)), StrS)
        r = VStr(f(sep.t, seq.t))
        r.joined = (sep, seq)
        if 'C16' in getattr(ex.cur_contract, 'properties', ()):
            st.log.append(('join', sep, seq, r))       # C16's exit clauses speak about what was joined
        return [(st, r)]
    reg.externals['str.join'] = str_join

    def truediv(ex, st, args, kw, node):
        base, rel = args
        p = ex.new_object(st, 'PathI')
        ex.write_field(st, p, 'gh_base', Opt(Ref('PathI')), base)
        ex.write_field(st, p, 'gh_rel', STR, rel)
        ex.write_field(st, p, 'gh_kind', INT, VInt(KIND_JOIN))
        return [(st, p)]
    reg.externals['operator.truediv'] = truediv

    @reg.specfunc('path_of')
    def path_of(ex, st, root, seq):
        """the abstract value root / "/".join(seq)"""
        f = z3.Function('str_join', StrS, sort_of(Seq(STR)), StrS)
        seq = coerce(seq, Seq(STR))
        return VStr(f(str_lit('/').t, seq.t))

    def rtl_exit(ex, s, entry, env, result):
        ev = Ev(ex, s, entry, env)
        return [('result-is-root-joined-with-the-path', ev('result.gh_base is self.root and result.gh_rel == path_of(self.root, request.opt.uri_path) and result.gh_kind == 1', result=result))]

    reg.contract(FS + '.request_to_localpath', params={'request': MSG}, result=Ref('PathI'), properties=P,
                 raises={'InvalidPathError': 'exists(i, 0, len(request.opt.uri_path), str_contains_slash(request.opt.uri_path[i]) or request.opt.uri_path[i] == "." or request.opt.uri_path[i] == "..") or joined_is_absolute(request.opt.uri_path)'},
                 only_raises=True, at_exit=rtl_exit,
                 ensures={'no-component-escapes': 'forall(i, 0, len(request.opt.uri_path), not str_contains_slash(request.opt.uri_path[i]) and request.opt.uri_path[i] != ".." and request.opt.uri_path[i] != ".")',
                          'joined-path-is-relative': 'not joined_is_absolute(request.opt.uri_path)',
                          'under-root': 'result.gh_base is self.root and result.gh_kind == 1',
                          'new-object': 'is_new(result)'},
                 ghost=lg_result('request_to_localpath', 'self', 'request'),
                 replay={'kind': 'call', 'setup': RTL_ORACLE, 'self': 'mk_server()', 'call': 'self_.request_to_localpath(mk_message(dict(request, code=1)))'})
    reg.specfuncs['str_contains_slash'] = lambda ex, st, p: VBool(z3.Function('str_contains', StrS, StrS, Bo)(p.t, str_lit('/').t))

    # ------------------------------------------------------------ environment: pathlib / files (assumed contracts)
    PF = reg.classes['PathI'].fields

    def derived(ex, st, base, kind, rel=None):
        p = ex.new_object(st, 'PathI')
        ex.write_field(st, p, 'gh_base', PF['gh_base'], base)
        ex.write_field(st, p, 'gh_rel', STR, rel if rel is not None else VStr(fresh(STR, 'rel')))
        ex.write_field(st, p, 'gh_kind', INT, VInt(kind))
        return p

    def fs(kind, result=None, raises=()):
        """a file-system primitive on a path object: recorded with its target; may raise the listed OSErrors"""
        def h(ex, st, args, kw, node):
            st.log.append(('fs', kind) + tuple(args))
            outs = []
            for cls in raises:
                s2 = st.copy()
                ex.raise_exc(s2, cls)
                outs.append((s2, None))
            outs.append((st, result(ex, st, args) if result else VNone()))
            return outs
        return h
    OSERR = ('builtins:FileNotFoundError', 'builtins:OSError')
    reg.externals['PathI.stat'] = fs('stat', lambda ex, st, a: ex.new_object(st, 'StatI'), OSERR)
    reg.externals['PathI.exists'] = fs('exists', lambda ex, st, a: VBool(z3.Bool(fresh_name('exists'))))
    reg.externals['PathI.is_dir'] = fs('is_dir', lambda ex, st, a: VBool(z3.Bool(fresh_name('isdir'))))
    reg.externals['PathI.unlink'] = fs('unlink', None, OSERR)
    reg.externals['PathI.rename'] = fs('rename', None, OSERR)
    reg.externals['PathI.relative_to'] = lambda ex, st, args, kw, node: [(st, VStr(fresh(STR, 'relpath')))]

    def p_open(ex, st, args, kw, node):
        st.log.append(('fs', 'open') + tuple(args))
        f = ex.new_object(st, 'FileI')
        ex.write_field(st, f, 'gh_path', Ref('PathI'), args[0])
        ex.write_field(st, f, 'gh_pos', INT, VInt(0))
        s2 = st.copy()
        ex.raise_exc(s2, 'builtins:OSError')
        return [(st, f), (s2, None)]
    reg.externals['PathI.open'] = p_open

    def iterdir(ex, st, args, kw, node):
        st.log.append(('fs', 'iterdir') + tuple(args))
        base = args[0]
        n = z3.Int(fresh_name('nchildren'))
        st.assume(n >= 0)
        arr = z3.Const(fresh_name('children'), z3.ArraySort(I, I))
        def at(i):
            return VRef(z3.Select(arr, i), 'PathI')
        seq = VSeq(n, at, Ref('PathI'))
        st.ghost['$iterdir_children'] = st.ghost.get('$iterdir_children', []) + [(arr, base)]
        return [(st, seq)]
    reg.externals['PathI.iterdir'] = iterdir
    reg.externals['attr:PathI.parent'] = lambda ex, st, base, node: [(st, derived(ex, st, base, KIND_PARENT))]

    def content_of(path_t):
        return VBytes.from_term(z3.Function('file_content', I, BytesS)(path_t))
    reg.specfuncs['file_content'] = lambda ex, st, p: content_of(p.t)

    def f_seek(ex, st, args, kw, node):
        f, pos = args
        ex.write_field(st, f, 'gh_pos', INT, pos)
        return [(st, VNone())]

    def f_read(ex, st, args, kw, node):
        f, n = args
        path = ex.read_field(st, f, 'gh_path', Ref('PathI'))
        pos = ex.read_field(st, f, 'gh_pos', INT)
        st.log.append(('fs', 'read', path))
        c = content_of(path.t)
        st.fact(c.len >= 0)
        data = ex.bytes_slice(c, pos.t, z3.simplify(pos.t + ex.as_int(n)))
        return [(st, data)]
    reg.externals['FileI.seek'] = f_seek
    reg.externals['FileI.read'] = f_read
    reg.externals['FileI.write'] = lambda ex, st, args, kw, node: (st.log.append(('fs', 'write', ex.read_field(st, args[0], 'gh_path', Ref('PathI')))), [(st, VNone())])[1]

    def named_temp(ex, st, args, kw, node):
        d = kw.get('dir')
        if d is None:
            ex.unsupported(node, 'NamedTemporaryFile without dir=')
        tp = derived(ex, st, d, KIND_TEMP)
        st.log.append(('fs', 'mktemp', tp, d))
        f = ex.new_object(st, 'FileI')
        ex.write_field(st, f, 'gh_path', Ref('PathI'), tp)
        ex.write_field(st, f, 'gh_pos', INT, VInt(0))
        nm = VStr(fresh(STR, 'tmpname'))
        tn = dict(st.ghost.get('$tmpnames', {}))
        tn[nm.t.get_id()] = tp
        st.ghost['$tmpnames'] = tn
        ex.write_field(st, f, 'name', STR, nm)
        return [(st, f)]
    reg.externals['tempfile.NamedTemporaryFile'] = named_temp

    def new_path(ex, st, args, kw, node):
        tp = st.ghost.get('$tmpnames', {}).get(z3.simplify(args[0].t).get_id()) if args and isinstance(args[0], VStr) else None
        if tp is None:
            ex.unsupported(node, 'Path(...) of a string that is not the name of a temporary file created here')
        return [(st, tp)]
    reg.externals['new:pathlib:Path'] = new_path
    reg.externals['new:pathlib:PosixPath'] = new_path

    reg.externals['stat.S_ISDIR'] = lambda ex, st, args, kw, node: [(st, VBool(z3.Function('S_ISDIR', I, Bo)(args[0].t)))]
    reg.externals['stat.S_ISREG'] = lambda ex, st, args, kw, node: [(st, VBool(z3.Function('S_ISREG', I, Bo)(args[0].t)))]
    reg.externals['_stat.S_ISDIR'] = reg.externals['stat.S_ISDIR']
    reg.externals['_stat.S_ISREG'] = reg.externals['stat.S_ISREG']
    reg.externals['mimetypes.guess_type'] = lambda ex, st, args, kw, node: [(st, VTuple([VOpt(STR, fresh(Opt(STR), 'mime')), VNone()]))]
    reg.externals['PathI.absolute'] = lambda ex, st, args, kw, node: [(st, args[0])]      # A-FS: same abstract path
    reg.externals['PathI.resolve'] = reg.externals['PathI.absolute']
    reg.externals['str.startswith'] = lambda ex, st, args, kw, node: [(st, VBool(z3.Function('str_startswith', StrS, StrS, Bo)(args[0].t, args[1].t)))]
    reg.externals['ObsMapI.__contains__'] = None
    reg.externals['ObsMapI.__contains__'] = lambda ex, st, c, item: z3.Bool(fresh_name('observed'))
    reg.externals['ObsMapI.__getitem__'] = lambda ex, st, args, kw, node: [(st, ex.new_object(st, 'ObsEntryI'))]
    reg.externals['ObsEntryI.__getitem__'] = lambda ex, st, args, kw, node: [(st, VOpt(Ref('StatI'), fresh(Opt(Ref('StatI')), 'laststat')))]
    reg.externals['ObsEntryI.__setitem__'] = lambda ex, st, args, kw, node: [(st, VNone())]
    reg.externals['repo:aiocoap.numbers.contentformat:ContentFormat.by_media_type'] = \
        lambda ex, st, args, kw, node: [(st, VInt(z3.Int(fresh_name('cf')))), (ex.raise_exc(st.copy(), 'builtins:KeyError'), None)]
    reg.externals['repo:' + FS + '.get_resources_as_linkheader'] = lambda ex, st, args, kw, node: [(st, VAny(fresh(ANY, 'links')))]

    reg.contract(FS + '.hash_stat', params={'stat': Ref('StatI')}, result=Opt(BYTES), verify=False, properties=P,
                 trusted_reason='hashlib/repr based ETag computation: no file-system access, result opaque')

    MODIFYING = ('unlink', 'rename', 'mktemp', 'write')

    def confined(ex, s, entry, env, allow_write):
        """every file-system primitive acts on the path derived from this request (or its parent directory, a temporary file
        created in that directory, or an entry listed from it); nothing is modified without write permission"""
        locs = evs(s, 'request_to_localpath')
        g = [('one-path-derivation', B(len(locs) <= 1))]
        L = locs[0][-1] if locs else None
        write = ex.truth(s, ex.spec_val(s, 'old(self.write)', env=env, old_st=entry))
        children = s.ghost.get('$iterdir_children', [])
        for e in evs(s, 'fs'):
            op, p = e[1], e[2]
            if L is None:
                g.append(('file-system-access-only-through-a-checked-path(%s)' % op, B(False)))
                continue
            base = ex.read_field(s, p, 'gh_base', PF['gh_base'])
            kind = ex.read_field(s, p, 'gh_kind', INT).t
            bb = ex.read_field(s, base.some(), 'gh_base', PF['gh_base'])
            bkind = ex.read_field(s, base.some(), 'gh_kind', INT).t
            ok = z3.Or(p.t == L.t,
                       z3.And(z3.Not(base.is_none()), base.some().t == L.t, kind == KIND_PARENT),
                       z3.And(z3.Not(base.is_none()), kind == KIND_TEMP, bkind == KIND_PARENT, z3.Not(bb.is_none()), bb.some().t == L.t))
            for arr, b in children:
                if z3.is_app(p.t) and p.t.decl().kind() == z3.Z3_OP_SELECT and p.t.arg(0).eq(arr):
                    ok = z3.Or(ok, b.t == L.t)
            g.append(('confined(%s)' % op, ok))
            # the parent directory of the request path, a temporary file in it, and any modification stay inside the root only if
            # the request path is strictly below the root: an empty Uri-Path names the root itself, whose parent is outside
            below_root = ex.truth(s, ex.spec_val(s, 'len(old(request.opt.uri_path)) >= 1', env=env, old_st=entry))
            if op in MODIFYING:
                g.append(('modifications-only-for-paths-below-the-root(%s)' % op, below_root))
            if op in MODIFYING:
                g.append(('write-permission-checked-before(%s)' % op, write))
            if op == 'rename':
                g.append(('rename-target-is-the-request-path', e[3].t == L.t))
        return g

    COMMON_REQ = ['request.code is not None']
    RAISES = {'InvalidPathError': MAY, 'NoSuchFile': MAY, 'PreconditionFailed': MAY, 'TrailingSlashMissingError': MAY,
              'AbundantTrailingSlashError': MAY, 'OSError': MAY, 'UnboundLocalError': MAY, 'CancelledError': MAY, 'Exception': MAY}

    def mk(name, extra_exit=None, awaits=None):
        def ex_(ex, s, entry, env, result):
            g = confined(ex, s, entry, env, True)
            if extra_exit:
                g += extra_exit(ex, s, entry, env, result)
            return g
        reg.contract(FS + '.' + name, params={'request': MSG}, result=MSG, properties=P, requires=COMMON_REQ,
                     raises=RAISES, modifies=['*'], at_exit=ex_, awaits=awaits or {},
                     raises_post={k: {'confined-also-on-failure': (lambda ctx: z3.And(B(True), *[g for _, g in confined(ctx.ex, ctx.st, ctx.old_st, ctx.env, True)]))}
                                  for k in RAISES})

    def no_modification(ex, s, entry, env, result):
        return [('read-only', B(not [e for e in evs(s, 'fs') if e[1] in MODIFYING]))]

    reg.contract(FS + '.render_get_dir', params={'request': MSG, 'path': Ref('PathI')}, result=MSG, verify=False, properties=P,
                 modifies=['*'], raises={'TrailingSlashMissingError': MAY, 'OSError': MAY},
                 ghost=lambda ex, st, env, result: st.log.append(('fs', 'iterdir', env['path'])),
                 trusted_reason='call-site summary: lists the given directory; body verified below (#body)')
    reg.contract(FS + '.render_get_file', params={'request': MSG, 'path': Ref('PathI')}, result=MSG, verify=False, properties=P,
                 modifies=['*'], raises={'AbundantTrailingSlashError': MAY, 'OSError': MAY},
                 ghost=lambda ex, st, env, result: st.log.append(('fs', 'read', env['path'])),
                 trusted_reason='call-site summary: reads the given file; body verified below (#body)')

    mk('render_get', no_modification, awaits={0: {'havoc': False}, 1: {'havoc': False}})
    mk('render_put')
    mk('render_delete')

    # ---- bodies of the two readers
    def dir_exit(ex, s, entry, env, result):
        g = [('read-only', B(not [e for e in evs(s, 'fs') if e[1] in MODIFYING]))]
        children = s.ghost.get('$iterdir_children', [])
        for e in evs(s, 'fs'):
            p = e[2]
            ok = p.t == env['path'].t
            for arr, b in children:
                if z3.is_app(p.t) and p.t.decl().kind() == z3.Z3_OP_SELECT and p.t.arg(0).eq(arr):
                    ok = z3.Or(ok, b.t == env['path'].t)
            g.append(('only-the-given-directory-and-its-entries(%s)' % e[1], ok))
        return g

    reg.contract(FS + '.render_get_dir#body', params={'request': MSG, 'path': Ref('PathI')}, result=MSG, properties=P,
                 raises={'TrailingSlashMissingError': MAY, 'OSError': MAY, 'IndexError': MAY}, at_exit=dir_exit, modifies=['*'],
                 local_types={'response': STR})

    def file_exit(ex, s, entry, env, result):
        ev = Ev(ex, s, entry, env)
        g = [('read-only', B(not [e for e in evs(s, 'fs') if e[1] in MODIFYING])),
             ('only-the-given-file', z3.And(B(True), *[e[2].t == env['path'].t for e in evs(s, 'fs')]))]
        blk = 'old(request.opt.block2)'
        num = '(%s[0] if %s is not None else 0)' % (blk, blk)
        szx = '(%s[2] if %s is not None else 6)' % (blk, blk)
        start = '(%s * bsize(%s))' % (num, szx)
        g.append(('payload-is-the-exact-slice-of-the-file', ev('result.payload == file_content(path)[%s:%s + bsize(%s)]' % (start, start, szx), result=result)))
        g.append(('more-flag-iff-bytes-remain', ev('implies(result.opt.block2 is not None, result.opt.block2[1] == (len(file_content(path)) > %s + bsize(%s)) and result.opt.block2[0] == %s and result.opt.block2[2] == %s)' % (start, szx, num, szx), result=result)))
        g.append(('block-option-omitted-only-for-a-complete-first-block', ev('(result.opt.block2 is None) == (%s == 0 and not (len(file_content(path)) > %s + bsize(%s)))' % (num, start, szx), result=result)))
        return g

    reg.contract(FS + '.render_get_file#body', params={'request': MSG, 'path': Ref('PathI')}, result=MSG, properties=P,
                 raises={'AbundantTrailingSlashError': MAY, 'OSError': MAY, 'IndexError': MAY}, at_exit=file_exit, modifies=['*'])


def bounded(tier, seed):
    """Conformance of the assumed str/pathlib contract (A-STR/pathlib), exhaustively over a small alphabet: NOT a proof."""
    import itertools, os
    from pathlib import PurePosixPath
    from specs.misc import joined_is_absolute
    alphabet = ['', 'a', '.', '..', 'a/b', '/', '/a', 'b.', '...']
    root = PurePosixPath('/srv/root')
    n = bad = 0
    samples, viol = [], []
    for k in range(0, 4 if tier == 'quick' else 5):
        for P in itertools.product(alphabet, repeat=k):
            n += 1
            joined = '/'.join(P)
            assert joined.startswith('/') == (joined_is_absolute(P) or (len(P) >= 1 and P[0].startswith('/'))), P
            accepted = not any('/' in p or p in ('.', '..') for p in P) and not joined_is_absolute(P)
            if accepted:
                res = os.path.normpath(str(root / joined))
                inside = res == str(root) or res.startswith(str(root) + '/')
                if not inside:
                    bad += 1
                    viol.append({'what': 'accepted path %r leaves the root: %s' % (P, res), 'replay': 'contracts/c19.py::bounded'})
                if len(samples) < 3 and k == 3:
                    samples.append({'uri_path': list(P), 'local': res})
    return [{'name': 'C19/pathlib-join-conformance', 'tool': 'exhaustive enumeration (native pathlib)', 'bound': 'alphabet of %d components, up to %d components' % (len(alphabet), 3 if tier == 'quick' else 4),
             'inputs_tried': n, 'samples': samples, 'violations': viol, 'counted_as_proved': False}]
