"""helpers shared by the contract files"""
import z3
from pyvc.values import *   # noqa


def lg(kind, *names):
    """ghost: record the call (with the named arguments) in the path's event log"""
    def g(ex, st, env, result):
        st.log.append((kind,) + tuple(env[n] for n in names))
    return g


def lg_result(kind, *names):
    def g(ex, st, env, result):
        st.log.append((kind,) + tuple(env[n] for n in names) + (result,))
    return g


def evs(s, *kinds):
    return [e for e in s.log if e[0] in kinds]


def count(s, kind):
    return sum(1 for e in s.log if e[0] == kind)


def B(x):
    return z3.BoolVal(bool(x))


def register(reg, prog):
    pass


class Ev:
    """evaluate spec text at a function exit"""

    def __init__(self, ex, s, entry, env):
        self.ex, self.s, self.entry, self.env = ex, s, entry, env

    def __call__(self, text, **kw):
        return self.ex.truth(self.s, self.ex.spec_val(self.s, text, env=dict(self.env, **kw), old_st=self.entry))

    def val(self, text, **kw):
        return self.ex.spec_val(self.s, text, env=dict(self.env, **kw), old_st=self.entry)
