"""helpers shared by the contract files"""
import z3
from pyvc.values import *   # noqa


def lg(kind, *names):
    """ghost: record the call (with the named arguments) in the path's event log"""
    def g(ex, st, env, result):
        st.log.append((kind,) + tuple(env[n] for n in names))
    return g


def lg_result(kind, *names):
    def g(ex, st, env, result):
        st.log.append((kind,) + tuple(env[n] for n in names) + (result,))
    return g


def evs(s, *kinds):
    return [e for e in s.log if e[0] in kinds]


def count(s, kind):
    return sum(1 for e in s.log if e[0] == kind)


def B(x):
    return z3.BoolVal(bool(x))


def register(reg, prog):
    pass


class Ev:
    """evaluate spec text at a function exit"""

    def __init__(self, ex, s, entry, env):
        self.ex, self.s, self.entry, self.env = ex, s, entry, env

    def __call__(self, text, **kw):
        return self.ex.truth(self.s, self.ex.spec_val(self.s, text, env=dict(self.env, **kw), old_st=self.entry))

    def val(self, text, **kw):
        return self.ex.spec_val(self.s, text, env=dict(self.env, **kw), old_st=self.entry)


def dict_frame(ex, s_new, s_old, obj, decl_fields, field, key_val=None):
    """the dictionary in obj.field is the same object and differs from its old content at most at key_val
    (nowhere if key_val is None)"""
    ty = decl_fields[field]
    now = ex.read_field(s_new, obj, field, ty)
    was = ex.read_field(s_old, obj, field, ty)
    same_ref = now.t == was.t
    if ty[0] == 'opt':
        now, was = now.some(), was.some()
    ks = sort_of(now.k)
    kk = z3.Const(fresh_name('fk'), ks)
    dn, do = ex.dict_dom(s_new, now), ex.dict_dom(s_old, was)
    vn, vo = ex.dict_vals(s_new, now), ex.dict_vals(s_old, was)
    if key_val is None:
        # nothing changed at all: stated as equality of the content maps
        return z3.And(same_ref, dn == do, vn == vo)
    key = coerce(key_val, now.k).t
    body = z3.Implies(kk != key, z3.And(z3.Select(dn, kk) == z3.Select(do, kk), z3.Select(vn, kk) == z3.Select(vo, kk)))
    return z3.And(same_ref, z3.ForAll([kk], body))


def simulate(ex, s, cb, args):
    """run a scheduled callback symbolically on a copy of state s (its own obligations are not emitted
    here: they belong to the callee's contract).  Returns the resulting state or None if it forks/raises."""
    s2 = s.copy()
    save = ex.collect_only
    ex.collect_only = True
    try:
        outs = ex.call(s2, cb, list(args), {}, None)
    finally:
        ex.collect_only = save
    if len(outs) == 1 and outs[0][0].exc is None:
        return outs[0][0]
    return None


class quantified:
    """context manager: build a quantified formula without recording facts about terms that mention bound variables"""

    def __init__(self, ex):
        self.ex = ex

    def __enter__(self):
        self.ex.no_facts = getattr(self.ex, 'no_facts', 0) + 1

    def __exit__(self, *a):
        self.ex.no_facts -= 1
