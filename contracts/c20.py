"""C20 -- resource directory (aiocoap/cli/rd.py): a request answered with 4.xx leaves the directory unchanged; one
registration per (ep, d); re-registration keeps the location; distinct registrations have distinct locations."""
import z3
from pyvc.values import *   # noqa
from pyvc.registry import MAY
from contracts.util import lg, lg_result, evs, count, B, Ev, dict_frame

RD = 'aiocoap.cli.rd'
QUERY = Dict(STR, List(Opt(STR)), 'rd.query')
PARAMS = Dict(STR, List(Opt(STR)), 'rd.params')
PATH = Seq(STR)
KEY = Tuple(Opt(STR), Opt(STR))


def register(reg, prog):
    P = ['C20']
    MSG = Ref('Message')
    reg.declare_class('Registration', RD + ':CommonRD.Registration', fields={
        'path': PATH, 'lt': INT, 'base': STR, 'base_is_explicit': BOOL, 'registration_parameters': PARAMS,
        'proxy_host': Opt(STR), '_delete_cb': CALLABLE, '_update_cb': CALLABLE, '_setproxyremote_cb': CALLABLE,
        'timeout': Ref('TaskI'), 'links': ANY})
    reg.declare_class('CommonRD', RD + ':CommonRD', fields={
        '_by_key': Dict(KEY, Ref('Registration'), 'rd.by_key'), '_by_path': Dict(SKEY, Ref('Registration'), 'rd.by_path'),
        'proxy_domain': Opt(STR), 'proxy_active': Dict(Opt(STR), ANY, 'rd.proxy_active'), 'log': ANY, 'entity_prefix': PATH})
    reg.declare_class('RegistrationResource', RD + ':RegistrationResource', fields={'reg': Ref('Registration')})

    # ------------------------------------------------------------------ pop_single_arg
    def others_untouched(ctx):
        ex, q = ctx.ex, ctx.env['query']
        name = ctx.env['name']
        dn, do = ex.dict_dom(ctx.st, q), ex.dict_dom(ctx.old_st.copy(), q)
        vn, vo = ex.dict_vals(ctx.st, q), ex.dict_vals(ctx.old_st.copy(), q)
        kk = z3.Const(fresh_name('ok'), StrS)
        return z3.ForAll([kk], z3.Implies(kk != name.t, z3.And(z3.Select(dn, kk) == z3.Select(do, kk), z3.Select(vn, kk) == z3.Select(vo, kk))))
    reg.contract(RD + ':pop_single_arg', params={'query': QUERY, 'name': STR}, result=Opt(STR), properties=P, only_raises=True,
                 raises={'BadRequest': 'name in query and len(query[name]) > 1'},
                 raises_post={'BadRequest': {'query-untouched': 'len(query) == old(len(query)) and name in query'}},
                 requires=['implies(name in query, len(query[name]) >= 1)'],
                 ensures={'other-keys-untouched': others_untouched,
                          'absent-gives-none': 'implies(not old(name in query), result is None and len(query) == old(len(query)))',
                          'single-value-removed': 'implies(old(name in query), name not in query and result == old(query[name][0]))'},
                 modifies=['dict:query'])

    # ------------------------------------------------------------------ Registration.update_params
    REG = RD + ':CommonRD.Registration'
    reg.contract(REG + '._set_timeout', self_class='Registration', verify=False, properties=P, modifies=['self.timeout'], ghost=lg('set_timeout', 'self'),
                 trusted_reason='creates the lifetime task (asyncio.create_task of a nested coroutine sleeping lt + grace_period, then calling delete)')
    reg.contract(REG + '.refresh_timeout', self_class='Registration', verify=False, properties=P, modifies=['self.timeout'], ghost=lg('refresh_timeout', 'self'),
                 trusted_reason='cancels the lifetime task and creates a new one (see _set_timeout)')

    def remote_uri(ex, st, base, node):
        s2 = st.copy()
        ex.raise_exc(s2, 'aiocoap.error:AnonymousHost')
        return [(st, ex.fresh_val(st, STR, 'remote_uri')), (s2, None)]
    reg.externals['attr:Remote.uri'] = remote_uri

    def up_unchanged(ctx):
        ex, s = ctx.ex, ctx.st
        quiet = B(not evs(s, 'set_timeout', 'refresh_timeout', 'call'))
        same = ex.truth(s, ctx.ev('self.lt == old(self.lt) and self.base_is_explicit == old(self.base_is_explicit) and '
                                  'implies(old(self.base_is_explicit) or not is_initial, self.base == old(self.base))'))
        frame = dict_frame(ex, s, ctx.old_st, ctx.env['self'], reg.classes['Registration'].fields, 'registration_parameters')
        return z3.And(quiet, same, frame)

    def up_exit(ex, s, entry, env, result):
        ev = Ev(ex, s, entry, env)
        timers = evs(s, 'set_timeout', 'refresh_timeout')
        g = [('lifetime-timer-restarted-exactly-once', B(len(timers) == 1)),
             ('initial-sets-later-refreshes', ev('is_initial') == B(bool(timers) and timers[0][0] == 'set_timeout'))]
        return g

    reg.contract(REG + '.update_params', self_class='Registration',
                 params={'network_remote': Ref('Remote'), 'registration_parameters': QUERY, 'is_initial': BOOL}, properties=P,
                 requires=['implies("lt" in registration_parameters, len(registration_parameters["lt"]) >= 1)',
                           # query_split gives every key at least one value; a value is None for a key without '=': `?base`
                           # (then the code fails with UnboundLocalError / TypeError and the server answers 5.00, which the
                           # property does not speak about): excluded here, recorded in DESIGN.md
                           'implies("base" in registration_parameters, len(registration_parameters["base"]) >= 1 and registration_parameters["base"][0] is not None)'],
                 raises={'BadRequest': MAY, 'TypeError': MAY, 'UnboundLocalError': MAY}, only_raises=True,
                 raises_post={'BadRequest': {'a-rejected-update-changes-nothing': up_unchanged}, 'TypeError': {'a-failed-update-changes-nothing': up_unchanged}},
                 at_exit=up_exit, modifies=['self.lt', 'self.base', 'self.base_is_explicit', 'self.timeout', '*dicts'])

    # ------------------------------------------------------------------ RegistrationResource: update via POST / PUT / DELETE
    reg.contracts[REG + '.update_params'].ghost = lg('update_params_ok', 'self', 'network_remote', 'registration_parameters')
    RR = RD + ':RegistrationResource'
    reg.contract(RD + ':query_split', params={'msg': MSG}, result=QUERY, verify=False, properties=P, modifies=[],
                 ensures={'fresh': 'is_new(result)'},
                 trusted_reason='splits the Uri-Query options at "="; string splitting is outside the string model (uninterpreted strings)')

    def rp_badrequest(ctx):
        return B(not evs(ctx.st, 'update_params_ok', 'set_timeout', 'refresh_timeout', 'call'))

    reg.contract(RR + '.render_post', self_class='RegistrationResource', params={'request': MSG}, result=MSG, properties=P, only_raises=True,
                 requires=['request.remote is not None'],
                 raises={'BadRequest': MAY, 'TypeError': MAY, 'UnboundLocalError': MAY},
                 raises_post={'BadRequest': {'a-request-answered-4.00-has-not-updated-the-registration': rp_badrequest}},
                 ensures={'changed': 'result.code == 68'}, modifies=['*'])

    # ------------------------------------------------------------------ CommonRD.initialize_endpoint
    CR = RD + ':CommonRD'
    reg.contracts[RD + ':query_split'].ensures.update({
        'every-key-has-a-value-list': 'implies("lt" in result, len(result["lt"]) >= 1) and implies("ep" in result, len(result["ep"]) >= 1) and '
                                      'implies("d" in result, len(result["d"]) >= 1) and implies("proxy" in result, len(result["proxy"]) >= 1)',
        'scope: base, if given, has a value': 'implies("base" in result, len(result["base"]) >= 1 and result["base"][0] is not None)',
        'scope: no proxy registration': '"proxy" not in result'})
    reg.assume('SCOPE-C20: registrations with the proprietary proxy=... parameter and queries with a valueless base are outside the C20 contracts')
    reg.contract(CR + '._new_pathtail', self_class='CommonRD', result=PATH, verify=False, properties=P, modifies=[],
                 ensures={'unused-location': 'result not in self._by_path'}, ghost=lg_result('new_pathtail', 'self'),
                 trusted_reason='linear search over itertools.count(1) for a path (str(i), "") not in _by_path: returns only such a path by its '
                                'loop condition; termination and str(i) are outside the model')
    reg.assume('A-RDCALLBACK: the callbacks a Registration holds (update notification, unregistration closure of its directory) only '
               'change dictionary contents (the closure deletes the registration\'s own two entries: verified in initialize_endpoint)')
    def del_exit(ex, s, entry, env, result):
        ev = Ev(ex, s, entry, env)
        cancels, calls = evs(s, 'task_cancel'), evs(s, 'call')
        g = [('lifetime-timer-cancelled', z3.And(B(len(cancels) == 1), *[ev('t is old(self.timeout)', t=c[1]) for c in cancels])),
             ('observers-notified-and-entries-removed-once-each', B(len(calls) == 2))]
        if len(calls) == 2:
            g.append(('update-callback-then-unregistration', z3.And(calls[0][1] == ev.val('old(self._update_cb)').t, calls[1][1] == ev.val('old(self._delete_cb)').t)))
        return g
    reg.contract(REG + '.delete', self_class='Registration', properties=P, only_raises=True, modifies=['*dicts'], ghost=lg('reg_delete', 'self'),
                 at_exit=del_exit)
    reg.externals['TaskI.cancel'] = lambda ex, st, args, kw, node: (st.log.append(('task_cancel', args[0])), [(st, VBool(z3.BoolVal(True)))])[1]

    def new_registration(ex, st, args, kw, node):
        """Registration(...): validates the parameters (update_params, is_initial=True: raises BadRequest before any effect, proved above)
        and returns a new registration at the given path"""
        s2 = st.copy()
        ex.raise_exc(s2, 'aiocoap.error:BadRequest')
        r = ex.new_object(st, 'Registration')
        ex.write_field(st, r, 'path', PATH, coerce(args[1], PATH))
        st.log.append(('new_registration', r, args[1], args[3]))
        return [(st, r), (s2, None)]
    reg.externals['new:' + REG] = new_registration

    def ie_rejected(ctx):
        ex, s = ctx.ex, ctx.st
        F = reg.classes['CommonRD'].fields
        return z3.And(B(not evs(s, 'reg_delete', 'new_registration')),
                      dict_frame(ex, s, ctx.old_st, ctx.env['self'], F, '_by_key'), dict_frame(ex, s, ctx.old_st, ctx.env['self'], F, '_by_path'))

    def ie_exit(ex, s, entry, env, result):
        ev = Ev(ex, s, entry, env)
        news, dels = evs(s, 'new_registration'), evs(s, 'reg_delete')
        g = [('one-new-registration', B(len(news) == 1)), ('at-most-the-replaced-one-is-deleted', B(len(dels) <= 1))]
        if news:
            g.append(('the-new-registration-is-returned', result.t == news[0][1].t))
        g.append(('registered-under-its-key', ev('self._by_key[(old(registration_parameters["ep"][0]), old(registration_parameters["d"][0]) if old("d" in registration_parameters) else None)] is r', r=result)))
        tails = evs(s, 'new_pathtail')
        OLDKEY = '(registration_parameters["ep"][0], registration_parameters["d"][0] if "d" in registration_parameters else None)'
        for t in tails:
            g.append(('a-new-endpoint-is-registered-under-the-new-location', ev('self._by_path[p] is r and r.path == self.entity_prefix + p', r=result, p=t[2])))
            g.append(('a-new-endpoint-gets-an-unused-location', ev('not old(p in self._by_path)', p=t[2])))
        had = ev('old((registration_parameters["ep"][0], registration_parameters["d"][0] if "d" in registration_parameters else None) in self._by_key)')
        g.append(('the-replaced-registration-is-deleted-exactly-when-there-was-one', had == B(len(dels) == 1)))
        for d in dels:
            g.append(('deletes-the-registration-of-this-endpoint', ev('x is old(self._by_key[(registration_parameters["ep"][0], registration_parameters["d"][0] if "d" in registration_parameters else None)])', x=d[1])))
            g.append(('re-registration-keeps-its-location', ev('self._by_path[old(x.path)[len(self.entity_prefix):]] is r and r.path == self.entity_prefix + old(x.path)[len(self.entity_prefix):]', x=d[1], r=result)))
        g.append(('a-location-is-searched-exactly-for-new-endpoints', had == B(len(tails) == 0)))
        return g

    reg.contract(CR + '.initialize_endpoint', self_class='CommonRD', params={'network_remote': Ref('Remote'), 'registration_parameters': QUERY},
                 result=Ref('Registration'), properties=P, only_raises=True,
                 requires=['"proxy" not in registration_parameters', 'implies("ep" in registration_parameters, len(registration_parameters["ep"]) >= 1)',
                           'implies("d" in registration_parameters, len(registration_parameters["d"]) >= 1)'],
                 raises={'BadRequest': MAY},
                 raises_post={'BadRequest': {'a-registration-answered-4.00-leaves-the-directory-unchanged': ie_rejected}},
                 at_exit=ie_exit, modifies=['*'], hints={'{}': QUERY})

    # ------------------------------------------------------------------ request handlers
    reg.declare_class('DirectoryResource', RD + ':DirectoryResource', fields={'common_rd': Ref('CommonRD')})
    reg.contract(RD + ':link_format_from_message', params={'message': MSG}, result=ANY, verify=False, properties=P, modifies=[],
                 raises={'BadRequest': MAY, 'UnsupportedContentFormat': MAY}, ghost=lg_result('parsed_links', 'message'),
                 trusted_reason='link-format / CoRAL parsing of the body (string parsing is outside the model); raises before anything is changed')
    reg.contracts[CR + '.initialize_endpoint'].ghost = lg_result('initialize_ok', 'self', 'network_remote', 'registration_parameters')

    def no_write(*kinds):
        def clause(ctx):
            return B(not evs(ctx.st, *kinds))
        return clause

    def dpost_exit(ex, s, entry, env, result):
        ev = Ev(ex, s, entry, env)
        inits, links = evs(s, 'initialize_ok'), evs(s, 'parsed_links')
        g = [('registered-once', B(len(inits) == 1 and len(links) == 1))]
        for i in inits:
            g.append(('location-of-the-registration-is-returned', ev('result_.opt.location_path == r.path', result_=result, r=i[-1])))
            for l in links:
                g.append(('links-of-this-request-are-stored', ev('r.links is l', r=i[-1], l=l[-1])))
        g.append(('created', ev('result_.code == 65', result_=result)))
        return g
    ERRS = ['BadRequest', 'UnsupportedContentFormat']
    reg.contract(RD + ':DirectoryResource.render_post', self_class='DirectoryResource', params={'request': MSG}, result=MSG, properties=P, only_raises=True,
                 requires=['request.remote is not None', 'implies(True, True)'],
                 raises={k: MAY for k in ERRS},
                 raises_post={k: {'a-registration-answered-4.xx-registered-nothing': no_write('initialize_ok')} for k in ERRS},
                 at_exit=dpost_exit, modifies=['*'])

    def put_exit(ex, s, entry, env, result):
        ev = Ev(ex, s, entry, env)
        ups, links = evs(s, 'update_params_ok'), evs(s, 'parsed_links')
        g = [('updated-once-with-the-parsed-links', B(len(ups) == 1 and len(links) == 1)), ('changed', ev('result_.code == 68', result_=result))]
        for l in links:
            g.append(('links-replaced', ev('self.reg.links is l', l=l[-1])))
        return g
    UERRS = ['BadRequest', 'UnsupportedContentFormat', 'TypeError', 'UnboundLocalError']
    reg.contract(RR + '.render_put', self_class='RegistrationResource', params={'request': MSG}, result=MSG, properties=P, only_raises=True,
                 requires=['request.remote is not None'], raises={k: MAY for k in UERRS},
                 raises_post={k: {'a-rejected-update-changes-neither-parameters-nor-links': (lambda ctx: z3.And(B(not evs(ctx.st, 'update_params_ok')), ctx.ex.truth(ctx.st, ctx.ev('self.reg.links is old(self.reg.links)'))))}
                              for k in ('BadRequest', 'UnsupportedContentFormat')},
                 at_exit=put_exit, modifies=['*'])

    def rdel_exit(ex, s, entry, env, result):
        ev = Ev(ex, s, entry, env)
        dels = evs(s, 'reg_delete')
        return [('the-registration-is-deleted-once', z3.And(B(len(dels) == 1), *[ev('x is old(self.reg)', x=d[1]) for d in dels])),
                ('deleted', ev('result_.code == 66', result_=result))]
    reg.contract(RR + '.render_delete', self_class='RegistrationResource', params={'request': MSG}, result=MSG, properties=P, only_raises=True,
                 at_exit=rdel_exit, modifies=['*'])


def bounded(tier, seed):
    from specs.c20_history import bounded as b
    return b(tier, seed)
