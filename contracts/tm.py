"""TokenManager (aiocoap/tokenmanager.py): serves C02 (matching), C18 (shutdown), parts of C07/C08/C09.
The Pipe objects it talks to are collaborators here (assumed interface, events recorded); Pipe itself is under
contract in contracts/c09.py."""
import z3
from pyvc.values import *   # noqa
from pyvc.registry import MAY
from contracts.util import lg, lg_result, evs, count, B, Ev, dict_frame, simulate, quantified

TM = 'aiocoap.tokenmanager:TokenManager'
OKEY = Tuple(BKEY, Opt(Ref('Remote')))


def register(reg, prog):
    reg.declare_class('TokenManager', TM, fields={
        'context': Ref('ContextI'), '_token': INT,
        'outgoing_requests': Opt(Dict(OKEY, Ref('PipeI'), 'tm.outgoing')),
        'incoming_requests': Opt(Dict(OKEY, Tuple(Ref('PipeI'), CALLABLE), 'tm.incoming')),
        'loop': Ref('Loop'), 'token_interface': Ref('TokenInterfaceI'), 'log': ANY})
    F = reg.classes['TokenManager'].fields
    reg.declare_class('PipeI', 'aiocoap.pipe:Pipe', opaque=True, fields={'request': Ref('Message')})
    reg.declare_class('ContextI', 'aiocoap.protocol:Context', opaque=True)
    reg.declare_class('TokenInterfaceI', 'aiocoap.interfaces:TokenInterface', opaque=True)
    reg.assume('A-PIPE: in the TokenManager contracts a Pipe is an interface object: add_response/add_exception/on_event/'
               'on_interest_end are recorded, their effect (callbacks) is specified by the Pipe contracts')

    def logger(kind, result=None):
        def h(ex, st, args, kw, node):
            st.log.append((kind,) + tuple(args) + (tuple(sorted(kw.items())),))
            return [(st, result(ex, st) if result else VNone())]
        return h
    reg.externals['PipeI.add_response'] = logger('pipe_add_response')
    reg.externals['PipeI.add_exception'] = logger('pipe_add_exception')
    def on_interest_end(ex, st, args, kw, node):
        """Pipe.on_interest_end(cb): cb is called exactly once -- right now if the pipe has no interest (any more),
        otherwise later.  Both cases are explored."""
        st.log.append(('pipe_on_interest_end',) + tuple(args) + ((),))
        # a pipe on which this very function has just registered an interested event handler (Pipe.on_event appends
        # (callback, True), so Pipe._any_interest() holds) cannot be without interest: only the "later" case exists
        for e in st.log:
            if e[0] == 'pipe_on_event' and e[1].t.eq(args[0].t) and not any(k == 'is_interest' for k, _ in e[-1]) and len(e) == 4:
                return [(st, VNone())]
        now = st.copy()
        now.ghost['$interest_already_ended'] = True
        outs = [(st, VNone())]
        for s2, _ in ex.call(now, args[1], [], {}, node):
            outs.append((s2, VNone() if s2.exc is None else None))
        return outs
    reg.externals['PipeI.on_interest_end'] = on_interest_end

    def fresh_callable(ex, st):
        f = VFunc('opaque')
        f.t = z3.Int(fresh_name('stopper'))
        return f
    reg.externals['PipeI.on_event'] = logger('pipe_on_event', fresh_callable)
    reg.externals['ContextI.render_to_pipe'] = logger('render_to_pipe')

    def ti_send(ex, st, args, kw, node):
        """token_interface.send_message(msg, monitor): may raise anything (e.g. ConToMulticast); returns None or a canceller"""
        st.log.append(('ti_send_message',) + tuple(args))
        s2 = st.copy()
        ex.raise_exc(s2, 'builtins:Exception')
        s2.exc[1].exact = False
        r = VOpt(CALLABLE, fresh(Opt(CALLABLE), 'canceller'))
        return [(st, r), (s2, None)]
    reg.externals['TokenInterfaceI.send_message'] = ti_send

    def new_pipe(ex, st, args, kw, node):
        p = ex.new_object(st, 'PipeI')
        ex.write_field(st, p, 'request', Ref('Message'), args[0])
        st.log.append(('new_pipe', p, args[0]))
        return [(st, p)]
    reg.externals['new:aiocoap.pipe:Pipe'] = new_pipe

    # bytes.lstrip(b"\\0"): the unique string without leading zero bytes that has the same big-endian value
    def lstrip(ex, st, args, kw, node):
        b, chars = args
        if not (z3.is_int_value(z3.simplify(chars.len)) and z3.simplify(chars.len).as_long() == 1):
            ex.unsupported(node, 'lstrip with other than one character')
        c = z3.simplify(chars.at(z3.IntVal(0)))
        n = z3.simplify(b.len)
        if z3.is_int_value(n) and n.as_long() <= 16:
            # concrete length: one case per number of stripped bytes
            out, rest = [], st
            for k in range(n.as_long() + 1):
                if rest is None:
                    break
                cond = z3.And(*([b.at(z3.IntVal(j)) == c for j in range(k)] + ([b.at(z3.IntVal(k)) != c] if k < n.as_long() else [])))
                st_k, rest = ex.branch(rest, cond)
                if st_k is not None:
                    out.append((st_k, ex.bytes_slice(b, z3.IntVal(k), None)))
            return out
        r = ex.fresh_val(st, BYTES, 'stripped')
        k = z3.Int(fresh_name('strip'))      # number of stripped bytes
        j = z3.Int(fresh_name('sj'))
        st.assume(z3.And(0 <= k, k <= b.len, r.len == b.len - k,
                         z3.ForAll([j], z3.Implies(z3.And(0 <= j, j < k), b.at(j) == c)),
                         z3.Implies(k < b.len, b.at(k) != c),
                         z3.ForAll([j], z3.Implies(z3.And(0 <= j, j < r.len), r.at(j) == b.at(j + k)))))
        return [(st, r)]
    reg.externals['bytes.lstrip'] = lstrip

    def strip_both(ex, st, args, kw, node):
        """bytes.strip(one byte): leading AND trailing occurrences removed"""
        b, chars = args
        if not (z3.is_int_value(z3.simplify(chars.len)) and z3.simplify(chars.len).as_long() == 1):
            ex.unsupported(node, 'strip with other than one character')
        c = z3.simplify(chars.at(z3.IntVal(0)))
        n = z3.simplify(b.len)
        if z3.is_int_value(n) and n.as_long() <= 8:
            # concrete length: one case per (leading, trailing) count, no quantifiers
            out, N = [], n.as_long()
            for k in range(N + 1):
                for m in range(0, N - k + 1):
                    if k == N and m > 0:
                        continue
                    conds = [b.at(z3.IntVal(i)) == c for i in range(k)] + [b.at(z3.IntVal(N - 1 - i)) == c for i in range(m)]
                    if k + m < N:
                        conds += [b.at(z3.IntVal(k)) != c, b.at(z3.IntVal(N - m - 1)) != c]
                    elif m > 0:
                        continue
                    st_k, _ = ex.branch(st.copy(), z3.And(*conds) if conds else z3.BoolVal(True))
                    if st_k is not None:
                        out.append((st_k, ex.bytes_slice(b, z3.IntVal(k), z3.IntVal(N - m))))
            return out
        k, m, j = z3.Int(fresh_name('strip')), z3.Int(fresh_name('rstrip')), z3.Int(fresh_name('sj'))
        r = VBytes(z3.simplify(b.len - k - m), lambda i, b=b, k=k: b.at(z3.simplify(i + k)))
        st.assume(z3.And(0 <= k, 0 <= m, k + m <= b.len,
                         z3.ForAll([j], z3.Implies(z3.And(0 <= j, j < k), b.at(j) == c)),
                         z3.ForAll([j], z3.Implies(z3.And(b.len - m <= j, j < b.len), b.at(j) == c)),
                         z3.Implies(k + m < b.len, z3.And(b.at(k) != c, b.at(b.len - m - 1) != c)),
                         z3.Implies(k + m == b.len, m == 0)))
        return [(st, r)]
    reg.externals['bytes.strip'] = strip_both

    def tm_wf(allow_shutdown):
        def f(ex, st, tm):
            o = ex.read_field(st, tm, 'outgoing_requests', F['outgoing_requests'])
            i = ex.read_field(st, tm, 'incoming_requests', F['incoming_requests'])
            tok = ex.read_field(st, tm, '_token', INT).t
            base = z3.And(tok >= 0, tok < 2 ** 64)
            if allow_shutdown:
                return VBool(base)
            return VBool(z3.And(base, z3.Not(o.is_none()), z3.Not(i.is_none())))
        return f
    reg.specfuncs['tm_wf'] = tm_wf(False)
    reg.specfuncs['tm_wf_sd'] = tm_wf(True)
    OUT, INC = 'dict:self.outgoing_requests', 'dict:self.incoming_requests'
    MSG = Ref('Message')

    # ------------------------------------------------------------- next_token
    reg.contract(TM + '.next_token', result=BYTES, properties=['C02'], requires=['tm_wf_sd(self)'], only_raises=True,
                 modifies=['self._token'],
                 ensures={'counter-advances': 'self._token == (old(self._token) + 1) % 2**64',
                          'token-encodes-counter': 'be_value(result) == self._token',
                          'at-most-8-bytes': 'len(result) <= 8',
                          'canonical': 'implies(len(result) > 0, result[0] != 0)'},
                 ghost=lg_result('next_token', 'self'))

    reg.contract('lemma:C02/distinct-counters-give-distinct-tokens', params={'a': BYTES, 'b': BYTES}, properties=['C02'],
                 requires=['len(a) <= 8', 'len(b) <= 8', 'implies(len(a) > 0, a[0] != 0)', 'implies(len(b) > 0, b[0] != 0)',
                           'be_value(a) != be_value(b)'],
                 ensures={'tokens-differ': 'a != b'})

    # ------------------------------------------------------- process_response
    def presp_exit(ex, s, entry, env, result):
        ev = Ev(ex, s, entry, env)
        exact = ev('old((response.token, response.remote) in self.outgoing_requests)')
        anyc = ev('old((response.token, None) in self.outgoing_requests)')
        adds = evs(s, 'pipe_add_response')
        g = [('unknown-token-or-endpoint-is-not-delivered', z3.Implies(z3.Not(z3.Or(exact, anyc)), z3.And(result.t == False, B(len(adds) == 0)))),   # noqa
             ('known-is-delivered-exactly-once', z3.Implies(z3.Or(exact, anyc), z3.And(result.t == True, B(len(adds) == 1)))),   # noqa
             ('nothing-else-happens', B(len(s.log) == len(adds)))]
        for e in adds:
            which = ev('p is old(self.outgoing_requests[(response.token, response.remote)])', p=e[1])
            whicha = ev('p is old(self.outgoing_requests[(response.token, None)])', p=e[1])
            g.append(('delivered-to-the-request-with-this-token-and-endpoint', z3.If(exact, which, whicha)))
            g.append(('this-response', e[2].t == env['response'].t))
            final = ev('not (p.request.opt.observe == 0 and response.opt.observe is not None)', p=e[1])
            kw = dict(e[-1])
            g.append(('is_last-iff-not-an-observe-notification', ex.truth(s, kw['is_last']) == final if 'is_last' in kw else B(False)))
            g.append(('retired-iff-final', z3.If(exact, ev('(response.token, response.remote) in self.outgoing_requests'),
                                                 ev('(response.token, None) in self.outgoing_requests')) == z3.Not(final)))
        return g

    def presp_frame(ctx):
        ex = ctx.ex
        exact = ex.truth(ctx.old_st.copy(), ctx.ev('(response.token, response.remote) in self.outgoing_requests', old=True))
        k1 = ctx.ev('(response.token, response.remote)')
        k2 = ctx.ev('(response.token, None)')
        return z3.If(exact, dict_frame(ex, ctx.st, ctx.old_st, ctx.env['self'], F, 'outgoing_requests', k1),
                     dict_frame(ex, ctx.st, ctx.old_st, ctx.env['self'], F, 'outgoing_requests', k2))

    reg.contract(TM + '.process_response', params={'response': MSG}, result=BOOL, properties=['C02', 'C07'],
                 requires=['tm_wf(self)'], only_raises=True, modifies=[OUT], at_exit=presp_exit,
                 ensures={'other-requests-untouched': presp_frame})

    # ---------------------------------------------------------------- request
    def req_exit(ex, s, entry, env, result):
        ev = Ev(ex, s, entry, env)
        down = ev('old(self.outgoing_requests is None)')
        pipe = env['request']
        excs, sends, ends, toks = evs(s, 'pipe_add_exception'), evs(s, 'ti_send_message'), evs(s, 'pipe_on_interest_end'), evs(s, 'next_token')
        g = [('after-shutdown-fails-immediately', z3.Implies(down, B(len(excs) == 1 and len(sends) == 0 and len(ends) == 0 and len(toks) == 0))),
             ('after-shutdown-registers-nothing', z3.Implies(down, ev('self.outgoing_requests is None')))]
        for e in excs:
            g.append(('failure-goes-to-this-request', e[1].t == pipe.t))
        g.append(('shutdown-error-is-a-library-error', z3.Implies(down, B(all(ex.issub(e[2].cls, 'aiocoap.error:LibraryShutdown') and ex.issub('aiocoap.error:LibraryShutdown', 'aiocoap.error:Error') for e in excs)))))
        g.append(('sent-once', z3.Implies(z3.Not(down), B(len(sends) == 1 and len(toks) == 1 and len(ends) == 1))))
        if sends and ends:
            g.append(('registered-before-sending', B(s.log.index(ends[0]) < s.log.index(sends[0]))))
        for e in sends:
            g.append(('sends-the-request-message', ev('m is request.request', m=e[2])))
            g.append(('fresh-token-assigned', ev('request.request.token == t', t=toks[0][2]) if toks else B(False)))
        if s.ghost.get('$interest_already_ended'):
            g.append(('no-registration-survives-a-request-nobody-waits-for', z3.Implies(z3.Not(down), ev('(request.request.token, None if request.request.remote.is_multicast else request.request.remote) not in self.outgoing_requests'))))
            return g
        # the cleanup hook removes exactly this registration
        for e in ends:
            s3 = simulate(ex, s, e[2], [])
            g.append(('interest-end-hook-runs', B(s3 is not None)))
            if s3 is not None:
                e3 = Ev(ex, s3, entry, env)
                g.append(('interest-end-removes-this-registration', e3('(request.request.token, None if request.request.remote.is_multicast else request.request.remote) not in self.outgoing_requests')))
                g.append(('interest-end-removes-nothing-else', dict_frame(ex, s3, s, env['self'], F, 'outgoing_requests',
                          ex.spec_val(s, '(request.request.token, None if request.request.remote.is_multicast else request.request.remote)', env=env))))
        return g

    def req_ensures(ctx):
        ex = ctx.ex
        down = ctx.ex.truth(ctx.old_st.copy(), ctx.ev('self.outgoing_requests is None', old=True))
        key = ctx.ev('(request.request.token, None if request.request.remote.is_multicast else request.request.remote)')
        return z3.Implies(z3.Not(down), dict_frame(ex, ctx.st, ctx.old_st, ctx.env['self'], F, 'outgoing_requests', key))

    reg.contract(TM + '.request', params={'request': Ref('PipeI')}, properties=['C02', 'C18'],
                 requires=['tm_wf_sd(self)', 'request.request.code is not None', '1 <= request.request.code < 32',
                           'request.request.remote is not None'],
                 only_raises=True, at_exit=req_exit, modifies=[OUT, 'self._token', 'field:token'],
                 ensures={'registered-under-token-and-endpoint': 'implies(old(self.outgoing_requests is not None), True)',
                          'other-requests-untouched': req_ensures})

    # --------------------------------------------------------- dispatch_error
    def havoc_locals(ex, s, names):
        """a copy of s in which the given locals of the function under verification hold arbitrary later values"""
        s2 = s.copy()
        for n in names:
            v, fid = s2.lookup(n)
            if v is not None and not isinstance(v, (VFunc, VModule)):
                s2.frames[fid][n] = ex.havoc_local(s2, n, v)
        return s2

    def de_step_out(ex, s, snap):
        """loop over outgoing requests: a matching entry gets exactly one stopper that fails exactly that request"""
        new = s.log[len(snap.log):]
        lst_now = ex.spec_val(s, 'stoppers')
        match = ex.truth(s, ex.spec_val(s, 'key[1] == remote'))
        n_now = ex.list_len(s, lst_now)
        n_before = ex.spec_val(s, 'head(len(stoppers))')
        g = [('no-event-while-collecting', B(len(new) == 0)),
             ('one-stopper-iff-endpoint-matches', n_now == ex.as_int(n_before) + z3.If(match, 1, 0))]
        # the appended closure, run later (when the loop variables have moved on), must fail THIS request with the error
        st_t, _ = ex.branch(s.copy(), match)
        if st_t is not None:
            cb = ex.list_at(st_t, lst_now, n_now - 1)
            before = snap.ghost.get('$callables', {})
            created = [f for k_, f in st_t.ghost.get('$callables', {}).items() if k_ not in before]
            known = created[0] if len(created) == 1 else None
            if known is not None:
                g.append(('appended-stopper-is-the-new-closure', z3.Implies(match, cb.t == known.t)))
            g.append(('stopper-is-a-known-closure', z3.Implies(match, B(known is not None))))
            if known is not None:
                pipe_then = ex.spec_val(st_t, 'request')
                exc_then = ex.spec_val(st_t, 'exception')
                later = havoc_locals(ex, st_t, ['request', 'key', 'token', 'request_remote'])
                s3 = simulate(ex, later, known, [])
                g.append(('stopper-runs', z3.Implies(match, B(s3 is not None))))
                if s3 is not None:
                    calls = s3.log[len(st_t.log):]
                    g.append(('stopper-fails-one-request', z3.Implies(match, B(len(calls) == 1 and calls[0][0] == 'pipe_add_exception'))))
                    for c in calls:
                        if c[0] == 'pipe_add_exception':
                            g.append(('stopper-fails-this-request', z3.Implies(match, c[1].t == pipe_then.t)))
                            g.append(('stopper-passes-the-network-error', z3.Implies(match, c[2].t == exc_then.t)))
        return g

    def de_step_in(ex, s, snap):
        new = s.log[len(snap.log):]
        lst_now = ex.spec_val(s, 'stoppers')
        match = ex.truth(s, ex.spec_val(s, 'remote == _r'))
        n_now = ex.list_len(s, lst_now)
        n_before = ex.spec_val(s, 'head(len(stoppers))')
        g = [('no-event-while-collecting', B(len(new) == 0)),
             ('one-stopper-iff-endpoint-matches', n_now == ex.as_int(n_before) + z3.If(match, 1, 0)),
             ('stopper-of-this-server-pipe', z3.Implies(match, ex.truth(s, ex.spec_val(s, 'stoppers[len(stoppers) - 1] is stopper'))))]
        return g

    def de_step_call(ex, s, snap):
        new = s.log[len(snap.log):]
        g = [('each-stopper-called-once', B(len(new) == 1 and new[0][0] == 'call'))]
        for e in new:
            if e[0] == 'call':
                g.append(('calls-the-listed-stopper', e[1] == ex.spec_val(s, 'stopper').t))
        return g

    def tde_exit(ex, s, entry, env, result):
        ev = Ev(ex, s, entry, env)
        down = ev('old(self.outgoing_requests is None)')
        return [('after-shutdown-nothing-happens', z3.Implies(down, B(len(s.log) == 0)))]

    def wraps_exit(ex, s, entry, env, result):
        return []

    reg.contract(TM + '.dispatch_error', params={'exception': Ref('builtins:Exception'), 'remote': Opt(Ref('Remote'))},
                 properties=['C02', 'C03', 'C07', 'C09', 'C14', 'C18'], requires=['tm_wf_sd(self)', 'implies(self.outgoing_requests is not None, self.incoming_requests is not None)'],
                 only_raises=True, modifies=[],
                 loop_entry={0: ["isinstance_network_error(exception)", 'len(stoppers) == 0'] if False else ['len(stoppers) == 0']},
                 loop_steps={0: [de_step_out], 1: [de_step_in], 2: [de_step_call]},
                 local_types={'stoppers': List(CALLABLE)}, hints={'[]': CALLABLE},
                 at_exit=tde_exit)
    _register_shutdown(reg, prog)


def _register_shutdown(reg, prog):
    """TokenManager.shutdown (C18): every server-side request is stopped once, every pending client request fails once with
    LibraryShutdown, and both registries are closed BEFORE the lower layers are shut down (so that nothing is accepted while
    they close)."""
    from contracts.util import evs, B, Ev
    MSG = Ref('Message')
    F = reg.classes['TokenManager'].fields

    def stop_step(ex, s, snap):
        new = s.log[len(snap.log):]
        ev = lambda t, **kw: ex.truth(s, ex.spec_val(s, t, env=dict(ex.visible_env(s), **kw)))
        g = [('each-server-side-request-is-stopped-once', B(len(new) == 1 and new[0][0] == 'call'))]
        for e in new:
            if e[0] == 'call':
                g.append(('its-own-stopper', e[1] == ex.spec_val(s, 'stop').t))
        g.append(('entry-retired', ev('key not in self.incoming_requests and len(self.incoming_requests) == head(len(self.incoming_requests)) - 1')))
        return g

    def fail_step(ex, s, snap):
        new = s.log[len(snap.log):]
        ev = lambda t, **kw: ex.truth(s, ex.spec_val(s, t, env=dict(ex.visible_env(s), **kw)))
        g = [('each-pending-request-fails-once', B(len(new) == 1 and new[0][0] == 'pipe_add_exception'))]
        for e in new:
            if e[0] == 'pipe_add_exception':
                g.append(('the-request-taken-out-of-the-registry', e[1].t == ex.spec_val(s, 'request').t))
                g.append(('with-library-shutdown', B(ex.issub(e[2].cls, 'aiocoap.error:LibraryShutdown'))))
        g.append(('entry-retired', ev('key not in self.outgoing_requests and len(self.outgoing_requests) == head(len(self.outgoing_requests)) - 1')))
        return g

    def closed_before_lower_layers(ex, s, entry, env):
        ev = Ev(ex, s, entry, env)
        return [('no-request-is-accepted-while-the-lower-layers-close', ev('self.outgoing_requests is None and self.incoming_requests is None'))]

    def sd_exit(ex, s, entry, env, result):
        ev = Ev(ex, s, entry, env)
        return [('registries-closed', ev('self.outgoing_requests is None and self.incoming_requests is None'))]

    # ---- construction: every manager owns its tables (C18 "other contexts in the same process are unaffected"; C02: a response is
    # matched against the requests of THIS manager only).  A table that is not created per instance is shared by every context.
    reg.classes['ContextI'].fields.update({'log': ANY, 'loop': Ref('Loop')})
    reg.contract(TM + '.__init__', params={'context': Ref('ContextI')}, properties=['C18', 'C02'], only_raises=True, modifies=['*'],
                 ensures={'own-empty-table-of-outgoing-requests': 'self.outgoing_requests is not None and is_new(self.outgoing_requests) and len(self.outgoing_requests) == 0',
                          'own-empty-table-of-incoming-requests': 'self.incoming_requests is not None and is_new(self.incoming_requests) and len(self.incoming_requests) == 0',
                          'tables-are-distinct': 'self.outgoing_requests is not self.incoming_requests',
                          'token-counter-in-range': '0 <= self._token <= 65535', 'bound-to-its-context': 'self.context is context and self.loop is context.loop'})

    reg.externals['TokenInterfaceI.shutdown'] = lambda ex, st, args, kw, node: (st.log.append(('ti_shutdown', args[0])), [(st, VNone())])[1]
    reg.contract(TM + '.shutdown', properties=['C18'], requires=['tm_wf(self)'],
                 raises={'CancelledError': MAY, 'Exception': MAY}, modifies=['*'], at_exit=sd_exit,
                 loop_steps={0: [stop_step], 1: [fail_step]},
                 awaits={0: {'havoc': True, 'owned': ['self'], 'check': closed_before_lower_layers, 'raises': ['builtins:Exception']}},
                 local_types={'stop': CALLABLE, 'request': Ref('PipeI'), 'key': OKEY})
