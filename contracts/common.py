"""Class declarations (field types), abstractions and aiocoap-specific external contracts
shared by all properties."""
import z3
from pyvc.values import *   # noqa

OPTNUM = 'aiocoap.numbers.optionnumbers:OptionNumber'
CODE = 'aiocoap.numbers.codes:Code'
TYPE = 'aiocoap.numbers.types:Type'
BLOCKTUPLE = Tuple(INT, BOOL, INT) + ('BlockwiseTuple',)


def register(reg, prog):
    E = Enum
    reg.declare_class('Options', 'aiocoap.options:Options',
                      fields={'_options': Dict(INT, List(Ref('OptionType')))})
    reg.declare_class('OptionType', 'aiocoap.optiontypes:OptionType', fields={'number': E(OPTNUM), 'value': BYTES})
    reg.assume('A-OPAQUEVAL: where code reads `.value` of an option of statically unknown format (CSM option 2), it is opaque bytes (unknown numbers map to OpaqueOption in the format table)')
    reg.declare_class('StringOption', 'aiocoap.optiontypes:StringOption', fields={'number': E(OPTNUM), 'value': STR})
    reg.declare_class('OpaqueOption', 'aiocoap.optiontypes:OpaqueOption', fields={'number': E(OPTNUM), 'value': BYTES})
    reg.declare_class('UintOption', 'aiocoap.optiontypes:UintOption', fields={'number': E(OPTNUM), 'value': INT})
    reg.declare_class('BlockOption', 'aiocoap.optiontypes:BlockOption', fields={'number': E(OPTNUM), '_value': BLOCKTUPLE})
    reg.declare_class('ContentFormatOption', 'aiocoap.optiontypes:ContentFormatOption',
                      fields={'number': E(OPTNUM), '_value': E('aiocoap.numbers.contentformat:ContentFormat')})
    reg.declare_class('BlockwiseTuple', 'aiocoap.optiontypes:BlockOption.BlockwiseTuple',
                      nt=['block_number', 'more', 'size_exponent'])

    DIRECTION = 'aiocoap.message:Direction'
    OPT_VIEWS = {'block1': Opt(BLOCKTUPLE), 'block2': Opt(BLOCKTUPLE), 'observe': Opt(INT), 'no_response': Opt(INT),
                 'etag': Opt(BYTES), 'size1': Opt(INT), 'size2': Opt(INT), 'uri_path': Seq(STR), 'uri_query': Seq(STR),
                 'content_format': Opt(INT), 'accept': Opt(INT), 'uri_host': Opt(STR), 'uri_port': Opt(INT),
                 'proxy_uri': Opt(STR), 'proxy_scheme': Opt(STR), 'echo': Opt(BYTES), 'oscore': Opt(BYTES),
                 'uri_path_abbrev': Opt(INT), 'request_tag': Seq(BYTES), 'max_age': Opt(INT),
                 'location_path': Seq(STR), 'location_query': Seq(STR), 'etags': Seq(BYTES), 'if_none_match': BOOL,
                 'hop_limit': Opt(INT), 'edhoc': BOOL, 'if_match': Seq(BYTES)}
    reg.classes['Options'].fields.update(OPT_VIEWS)
    reg.opt_views = dict(OPT_VIEWS)
    reg.assume('A-OPTVIEW: the option views of an Options object (opt.block1, opt.observe, ...) are modelled as independent '
               'fields; their link to the codec dictionary `_options` is not modelled')
    reg.declare_class('Message', 'aiocoap.message:Message', fields={
        'version': INT, 'mtype': Opt(E(TYPE)), 'mid': Opt(INT), 'code': Opt(E(CODE)), 'token': BYTES, 'payload': BYTES,
        'opt': Ref('Options'), 'remote': Opt(Ref('Remote')), 'direction': E(DIRECTION),
        'transport_tuning': Ref('TransportTuning'), 'request': Opt(Ref('Message')),
        '_original_request_path': Opt(Seq(STR))})
    reg.declare_class('TransportTuning', 'aiocoap.numbers.constants:TransportTuning', fields={
        'ACK_TIMEOUT': REAL, 'ACK_RANDOM_FACTOR': REAL, 'MAX_RETRANSMIT': INT, 'NSTART': INT,
        'MAX_LATENCY': REAL, 'EMPTY_ACK_DELAY': REAL, 'reliability': Opt(BOOL),
        'OBSERVATION_RESET_TIME': REAL, 'DEFAULT_BLOCK_SIZE_EXP': INT, 'DEFAULT_LEISURE': REAL})
    reg.assume('A-TUNING: transport tuning parameters are read as fields of the tuning object attached to the message '
               '(class attributes that subclasses may override)')
    reg.declare_class('Remote', 'aiocoap.interfaces:EndpointAddress', interned=True, fields={
        'is_multicast': BOOL, 'is_multicast_locally': BOOL, 'maximum_block_size_exp': INT, 'maximum_payload_size': INT,
        'blockwise_key': ANY})
    reg.assume('A-REMOTE: endpoint addresses are compared by identity of an abstract address value (their __eq__/__hash__ '
               'are consistent and total)')

    # type invariants of values (A-TYPEINV): block options have a non-negative number and a 3-bit size exponent (what
    # BlockOption.decode produces: proved in C01), endpoints advertise a block size exponent 0..7 and at least 1024 bytes
    def block_fact(v):
        inner = v.some()
        return z3.Or(v.is_none(), z3.And(inner.items[0].t >= 0, inner.items[2].t >= 0, inner.items[2].t <= 7))
    reg.field_facts['block1'] = block_fact
    reg.field_facts['block2'] = block_fact
    reg.field_facts['maximum_block_size_exp'] = lambda v: z3.And(v.t >= 0, v.t <= 7)
    reg.field_facts['maximum_payload_size'] = lambda v: v.t >= 1024
    reg.assume('A-TYPEINV: every Block1/Block2 option value has block number >= 0 and size exponent 0..7; every endpoint address '
               'has maximum_block_size_exp in 0..7 and maximum_payload_size >= 1024')

    @reg.external('new:aiocoap.message:Message')
    def _new_message(ex, st, args, kw, node):
        """Message(...) -- assumed contract of Message.__init__ (conformance-tested natively): fields from the
        underscore/plain keyword arguments, fresh empty Options, remaining keywords set option views."""
        if args:
            ex.unsupported(node, 'positional arguments to Message()')
        kw = dict(kw)
        m = ex.new_object(st, 'Message')
        def put(attr, v):
            ex.write_field(st, m, attr, reg.classes['Message'].fields[attr], v)
        mt = kw.pop('_mtype', None) or kw.pop('mtype', None) or VNone()
        put('mtype', mt)
        put('mid', kw.pop('_mid', None) or kw.pop('mid', None) or VNone())
        put('code', kw.pop('code', VNone()))
        put('token', kw.pop('_token', None) or kw.pop('token', None) or VBytes.const(b''))
        pl = kw.pop('payload', VBytes.const(b''))
        if isinstance(pl, VStr) and pl.lit == '':
            pl = VBytes.const(b'')
        put('payload', pl)
        put('version', VInt(1))
        put('remote', VNone())
        put('request', VNone())
        put('_original_request_path', VNone())
        from aiocoap.message import Direction
        put('direction', ex.lift(st, Direction.OUTGOING))
        tt = kw.pop('transport_tuning', None)
        if tt is None or isinstance(tt, VNone):
            tt = ex.new_object(st, 'TransportTuning')
            default_tuning(ex, st, tt)
        put('transport_tuning', tt)
        o = ex.new_object(st, 'Options')
        d = ex.new_dict(st, INT, List(Ref('OptionType')))
        ex.write_field(st, o, '_options', reg.classes['Options'].fields['_options'], d)
        for name, ty in OPT_VIEWS.items():
            if ty[0] == 'opt':
                ex.write_field(st, o, name, ty, VNone())
            elif ty[0] == 'seq':
                ex.write_field(st, o, name, ty, VTuple([]))
            else:
                ex.write_field(st, o, name, ty, VBool(False))
        put('opt', o)
        if 'uri' in kw:
            ex.unsupported(node, 'Message(uri=...)')
        for k, v in kw.items():
            if k not in OPT_VIEWS:
                ex.unsupported(node, 'Message(%s=...)' % k)
            ex.write_field(st, o, k, OPT_VIEWS[k], v)
        return [(st, m)]

    @reg.external('repo:aiocoap.message:Message.copy')
    def _copy(ex, st, args, kw, node):
        """Message.copy(**overrides): assumed contract (conformance-tested natively): a new Message with a new Options
        object; every field and option view equals the original's unless overridden by keyword."""
        src = args[0]
        kw = dict(kw)
        MF = reg.classes['Message'].fields
        m = ex.new_object(st, 'Message')
        for attr in ('code', 'payload', 'transport_tuning', 'mtype', 'mid', 'token', 'remote', 'direction', 'version', 'request',
                     '_original_request_path'):
            if attr in kw and attr in ('code', 'payload', 'transport_tuning', 'mtype', 'mid', 'token', 'remote'):
                v = kw.pop(attr)
                if attr == 'token' and isinstance(v, VNone):
                    v = VBytes.const(b'')     # Message(token=None)... copy() passes token through; None is replaced on send
            else:
                v = ex.read_field(st, src, attr, MF[attr])
            ex.write_field(st, m, attr, MF[attr], v)
        so = ex.read_field(st, src, 'opt', MF['opt'])
        o = ex.new_object(st, 'Options')
        d = ex.new_dict(st, INT, List(Ref('OptionType')))
        ex.write_field(st, o, '_options', reg.classes['Options'].fields['_options'], d)
        reg.assume('A-COPYOPT: Message.copy copies the option views; the codec dictionary of the copy is not related to the original (A-OPTVIEW)')
        for name, ty in OPT_VIEWS.items():
            v = kw.pop(name) if name in kw else ex.read_field(st, so, name, ty)
            if isinstance(v, VList):
                v = ex.list_as_seq(st, v) if not getattr(v, 'pending', False) else VTuple([])
            ex.write_field(st, o, name, ty, v)
        ex.write_field(st, m, 'opt', MF['opt'], o)
        if kw:
            ex.unsupported(node, 'Message.copy(%s=...)' % ', '.join(kw))
        st.log.append(('copy', src, m))
        return [(st, m)]

    def default_tuning(ex, st, tt):
        from aiocoap.numbers.constants import TransportTuning
        for name, ty in reg.classes['TransportTuning'].fields.items():
            val = getattr(TransportTuning, name)
            ex.write_field(st, tt, name, ty, ex.lift(st, val))
    reg.default_tuning = default_tuning

    # OptionNumber.format: the serialisation class registered for a number.  The table is read
    # from the really imported module on every run (T-EXT: set_format is not called at run time).
    @reg.external('attr:%s.format' % OPTNUM)
    def _format(ex, st, base, node):
        from aiocoap.numbers.optionnumbers import OptionNumber
        from aiocoap import optiontypes
        by_cls = {}
        for n in OptionNumber:
            by_cls.setdefault(n.format, []).append(int(n))
        table = []
        for c, nums in sorted(by_cls.items(), key=lambda kv: kv[0].__name__):
            if c is optiontypes.OpaqueOption:
                continue
            table.append((z3.Or(*[base.t == n for n in sorted(nums)]),
                          VFunc('class', pyobj=c, key='%s:%s' % (c.__module__, c.__qualname__))))
        default = VFunc('class', pyobj=optiontypes.OpaqueOption, key='aiocoap.optiontypes:OpaqueOption')
        reg.assume('T-EXT: OptionNumber.format table as registered at import time (read from the live module)')
        return [(st, VFunc('dispatch', table=table, default=default))]
