"""Class declarations (field types), abstractions and aiocoap-specific external contracts
shared by all properties."""
import z3
from pyvc.values import *   # noqa

OPTNUM = 'aiocoap.numbers.optionnumbers:OptionNumber'
CODE = 'aiocoap.numbers.codes:Code'
TYPE = 'aiocoap.numbers.types:Type'
BLOCKTUPLE = Tuple(INT, BOOL, INT) + ('BlockwiseTuple',)


def register(reg, prog):
    E = Enum
    reg.declare_class('Options', 'aiocoap.options:Options',
                      fields={'_options': Dict(INT, List(Ref('OptionType')))})
    reg.declare_class('OptionType', 'aiocoap.optiontypes:OptionType', fields={'number': E(OPTNUM)})
    reg.declare_class('StringOption', 'aiocoap.optiontypes:StringOption', fields={'number': E(OPTNUM), 'value': STR})
    reg.declare_class('OpaqueOption', 'aiocoap.optiontypes:OpaqueOption', fields={'number': E(OPTNUM), 'value': BYTES})
    reg.declare_class('UintOption', 'aiocoap.optiontypes:UintOption', fields={'number': E(OPTNUM), 'value': INT})
    reg.declare_class('BlockOption', 'aiocoap.optiontypes:BlockOption', fields={'number': E(OPTNUM), '_value': BLOCKTUPLE})
    reg.declare_class('ContentFormatOption', 'aiocoap.optiontypes:ContentFormatOption',
                      fields={'number': E(OPTNUM), '_value': E('aiocoap.numbers.contentformat:ContentFormat')})
    reg.declare_class('BlockwiseTuple', 'aiocoap.optiontypes:BlockOption.BlockwiseTuple',
                      nt=['block_number', 'more', 'size_exponent'])

    # OptionNumber.format: the serialisation class registered for a number.  The table is read
    # from the really imported module on every run (T-EXT: set_format is not called at run time).
    @reg.external('attr:%s.format' % OPTNUM)
    def _format(ex, st, base, node):
        from aiocoap.numbers.optionnumbers import OptionNumber
        from aiocoap import optiontypes
        by_cls = {}
        for n in OptionNumber:
            by_cls.setdefault(n.format, []).append(int(n))
        table = []
        for c, nums in sorted(by_cls.items(), key=lambda kv: kv[0].__name__):
            if c is optiontypes.OpaqueOption:
                continue
            table.append((z3.Or(*[base.t == n for n in sorted(nums)]),
                          VFunc('class', pyobj=c, key='%s:%s' % (c.__module__, c.__qualname__))))
        default = VFunc('class', pyobj=optiontypes.OpaqueOption, key='aiocoap.optiontypes:OpaqueOption')
        reg.assume('T-EXT: OptionNumber.format table as registered at import time (read from the live module)')
        return [(st, VFunc('dispatch', table=table, default=default))]
