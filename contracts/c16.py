"""C16 -- CoAP URI <-> Uri-* options (aiocoap/message.py, aiocoap/util).

NOT a deductive proof: the conversion runs through urllib.parse (regex- and string-heavy library code whose contracts would
have to be invented and whose reasoning needs string theories both solvers leave undecided).  What stands in, labelled
bounded / exhaustive and never counted as proved:

 * exhaustive (complete for that clause): the per-character quoting functions over EVERY Unicode scalar value (thorough) /
   every scalar value below U+0800 plus a stride of the rest (quick), against the RFC 3986 character classes;
 * bounded enumeration of the round-trip, error-class and host/port contracts over an alphabet built from the characters the
   property names (reserved '/', '?', '&', '=', '%', '#', empty segments, non-ASCII, escapes), with the expected options
   known by construction (an independent composer, not urllib).
"""
import itertools
import os

VERIF = os.path.dirname(os.path.dirname(os.path.abspath(__file__)))


def register(reg, prog):
    from contracts._c16d import register as r
    r(reg, prog)


# ---------------------------------------------------------------------- RFC 3986 / RFC 7252 reference (written from the RFCs)
UNRESERVED = set('ABCDEFGHIJKLMNOPQRSTUVWXYZabcdefghijklmnopqrstuvwxyz0123456789-._~')
SUB_DELIMS = set("!$&'()*+,;=")
PCHAR = UNRESERVED | SUB_DELIMS | set(':@')                      # without pct-encoded
QUERY_CHARS = (PCHAR | set('/?')) - set('&')                     # '&' separates Uri-Query options (RFC 7252 6.5 step 7)


def ref_quote(text, safe):
    return ''.join(chr(b) if chr(b) in safe and b < 128 else '%%%02X' % b for b in text.encode('utf8'))


def ref_compose(scheme, host, port, path, query, escape_all=False):
    """RFC 7252 6.5 from components; escape_all: percent-encode every byte that may be encoded"""
    enc = (lambda t, safe: ''.join('%%%02x' % b for b in t.encode('utf8'))) if escape_all else ref_quote
    u = scheme + '://' + host
    if port is not None:
        u += ':%d' % port
    u += ''.join('/' + enc(s, PCHAR) for s in path) or '/'
    if query:
        u += '?' + '&'.join(enc(q, QUERY_CHARS) for q in query)
    return u


SEGMENTS = ['a', '', 'a/b', '?', '&', '=', '%', '#', '%41', 'k=v', 'x&y=1', '\u00e9', '\u20ac', ' ', '.', '..', 'A', ':@', '+']
HOSTS = [('example.com', True), ('h', True), ('xn--bcher-kva.example', True), ('10.0.0.1', False), ('[2001:db8::1]', False), ('[fe80::1%25eth0]', False)]
PORTS = [None, 5683, 61616, 1]
SCHEMES = ['coap', 'coaps', 'coap+tcp', 'coaps+tcp', 'coap+ws', 'coaps+ws']


def decompose(uri):
    import aiocoap
    m = aiocoap.Message(code=aiocoap.GET)
    m.set_request_uri(uri)
    return m


def nontrivial(path, query):
    return any(any(c in s for c in '/?&=%# ') or s == '' or any(ord(c) > 127 for c in s) for s in tuple(path) + tuple(query))


def bounded(tier, seed):
    import aiocoap
    from aiocoap import error
    from aiocoap.message import UndecidedRemote, _quote_for_path, _quote_for_query
    from aiocoap.util import hostportjoin, hostportsplit, quote_nonascii
    out = []

    def violation(viol, n, what, code):
        path = os.path.join(VERIF, 'replays', 'C16-%s-%d.py' % (n, len(viol) + 1))
        os.makedirs(os.path.dirname(path), exist_ok=True)
        with open(path, 'w') as f:
            f.write('#!/venv/bin/python\n"""C16 replay (bounded stand-in %s): %s"""\nimport sys\nsys.path.insert(0, %r)\n%s\n' % (n, what, os.environ.get('VERIF_REPO', '/repo'), code))
        if len(viol) < 20:
            viol.append({'what': what, 'replay': path})

    # ---- 1. per-character quoting: exhaustive
    viol, n = [], 0
    stride = 1 if tier == 'thorough' else 257
    cps = list(range(0, 0x800)) + list(range(0x800, 0x110000, stride))
    for cp in cps:
        if 0xD800 <= cp <= 0xDFFF:
            continue
        ch = chr(cp)
        n += 1
        for name, fn, safe in (('path', _quote_for_path, PCHAR), ('query', _quote_for_query, QUERY_CHARS)):
            want = ref_quote(ch, safe)
            got = fn(ch)
            if got != want:
                violation(viol, 'quote', '_quote_for_%s(%r) == %r, RFC 3986 class gives %r' % (name, ch, got, want),
                          'from aiocoap.message import _quote_for_%s as q\nsys.exit(1 if q(%r) != %r else 0)' % (name, ch, want))
        want = ch if cp < 128 else ''.join('%%%02X' % b for b in ch.encode('utf8'))
        if quote_nonascii(ch) != want:
            violation(viol, 'quote', 'quote_nonascii(%r)' % ch, 'from aiocoap.util import quote_nonascii as q\nsys.exit(1 if q(%r) != %r else 0)' % (ch, want))
    out.append({'name': 'C16/per-character-quoting', 'tool': 'exhaustive enumeration of Unicode scalar values' if stride == 1 else 'enumeration (all below U+0800, every 257th above)',
                'bound': 'complete' if stride == 1 else 'stride 257 above U+0800', 'inputs_tried': n, 'exhaustive': stride == 1,
                'samples': [{'char': '&', 'path': _quote_for_path('&'), 'query': _quote_for_query('&')}, {'char': '\u20ac', 'path': _quote_for_path('\u20ac')}],
                'violations': viol, 'counted_as_proved': False})

    # ---- 2. options -> URI -> options
    viol, n, nt, samples = [], 0, 0, []
    kmax = 2
    seglists = [p for k in range(0, kmax + 1) for p in itertools.product(SEGMENTS, repeat=k)]
    if tier != 'thorough':
        qlists = [q for k in range(0, 2) for q in itertools.product(SEGMENTS, repeat=k)] + [('a', 'b'), ('x&y=1', '&'), ('', 'a'), ('a', '')]
    else:
        qlists = seglists
    hostinfos = [('h', 'h'), ('example.com:61616', 'example.com'), ('10.0.0.1', None), ('[2001:db8::1]:5683', None)]
    for si, scheme in enumerate(SCHEMES if tier == 'thorough' else SCHEMES[:2]):
        for hostinfo, name in (hostinfos if tier == 'thorough' or si == 0 else hostinfos[:1]):
            for path in seglists:
                for query in qlists:
                    if path == ('',) or query == ('',):
                        continue            # degenerate by RFC 7252 6.4 steps 8/9: indistinguishable from "no option"
                    n += 1
                    nt += nontrivial(path, query)
                    m = aiocoap.Message(code=aiocoap.GET, uri_path=path, uri_query=query)
                    m.remote = UndecidedRemote(scheme, hostinfo)
                    try:
                        u = m.get_request_uri()
                        m2 = decompose(u)
                        got = (m2.opt.uri_path, m2.opt.uri_query, m2.opt.uri_host, m2.opt.uri_port, getattr(m2.remote, 'scheme', None), getattr(m2.remote, 'hostinfo', None))
                    except Exception as e:
                        got, u = repr(e), None
                    want = (path, query, name, None, scheme, hostinfo)
                    if len(samples) < 4 and nontrivial(path, query) and n % 97 == 0:
                        samples.append({'options': {'uri_path': path, 'uri_query': query, 'remote': hostinfo}, 'uri': u})
                    if got != want:
                        violation(viol, 'opts-uri-opts', 'options %r / %r at %s://%s compose to %r which decomposes to %r' % (path, query, scheme, hostinfo, u, got),
                                  'import aiocoap\nfrom aiocoap.message import UndecidedRemote\nm = aiocoap.Message(code=aiocoap.GET, uri_path=%r, uri_query=%r)\n'
                                  'm.remote = UndecidedRemote(%r, %r)\nu = m.get_request_uri()\nm2 = aiocoap.Message(code=aiocoap.GET)\nm2.set_request_uri(u)\n'
                                  'print(u, m2.opt.uri_path, m2.opt.uri_query)\nsys.exit(0 if (m2.opt.uri_path, m2.opt.uri_query) == (%r, %r) else 1)' % (path, query, scheme, hostinfo, path, query))
    # RFC 7252 6.5 steps 3-5: the authority of the composed URI is Uri-Host (else the destination address) and Uri-Port (else the
    # destination port); decomposing it again keeps the port with the destination
    for scheme in ('coap', 'coaps'):
        for hostinfo in ('192.0.2.1', '192.0.2.1:5700', '[2001:db8::1]:5700', 'proxy.example:61617'):
            for uhost in (None, 'example.com'):
                for uport in (None, 61616, 5683 if scheme == 'coap' else 5684):
                    n += 1
                    m = aiocoap.Message(code=aiocoap.GET, uri_path=('a',))
                    if uhost is not None:
                        m.opt.uri_host = uhost
                    if uport is not None:
                        m.opt.uri_port = uport
                    m.remote = UndecidedRemote(scheme, hostinfo)
                    dest_host, _, dest_port = hostinfo.rpartition(':') if hostinfo.count(':') == 1 or ']:' in hostinfo else (hostinfo, '', '')
                    dest_host = dest_host or hostinfo
                    want_host = uhost or dest_host
                    want_port = uport if uport is not None else (int(dest_port) if dest_port else None)
                    if want_port == (5683 if scheme == 'coap' else 5684):
                        want_port = None
                    want = '%s://%s%s/a' % (scheme, want_host, ':%d' % want_port if want_port else '')
                    try:
                        u = m.get_request_uri()
                        m2 = decompose(u)
                        back = (m2.opt.uri_path, m2.opt.uri_host, getattr(m2.remote, 'hostinfo', None))
                    except Exception as e:
                        u, back = repr(e), None
                    want_back = (('a',), uhost or (None if dest_host[0].isdigit() or dest_host[0] == '[' else dest_host), want_host + (':%d' % want_port if want_port else ''))
                    # an explicit default port is an equivalent spelling (6.5 step 5 would elide it): compared modulo that
                    dflt = ':%d' % (5683 if scheme == 'coap' else 5684)
                    norm = lambda t: t.replace(dflt + '/', '/') if isinstance(t, str) else t
                    if back is not None and isinstance(back[2], str) and back[2].endswith(dflt):
                        back = (back[0], back[1], back[2][:-len(dflt)])
                    if norm(u) != want or back != want_back:
                        violation(viol, 'opts-uri-opts', 'Uri-Host %r Uri-Port %r sent to %s://%s composes to %r (RFC 7252 6.5: %r), which decomposes to %r (expected %r)' % (uhost, uport, scheme, hostinfo, u, want, back, want_back),
                                  'import aiocoap\nfrom aiocoap.message import UndecidedRemote\nm = aiocoap.Message(code=aiocoap.GET, uri_path=("a",))\n'
                                  'm.opt.uri_host = %r\nm.opt.uri_port = %r\nm.remote = UndecidedRemote(%r, %r)\nu = m.get_request_uri()\nprint(u)\nsys.exit(0 if u == %r else 1)' % (uhost, uport, scheme, hostinfo, want))
    out.append({'name': 'C16/options-to-uri-to-options', 'tool': 'bounded enumeration (native)', 'bound': 'segments from an alphabet of %d, up to %d path and %d query options' % (len(SEGMENTS), kmax, 1 if tier != 'thorough' else kmax),
                'inputs_tried': n, 'nontrivial': nt, 'samples': samples, 'violations': viol, 'counted_as_proved': False})

    # ---- 3. URI text -> options (expected by construction) -> URI -> options
    viol, n, nt, samples = [], 0, 0, []
    hosts = HOSTS + [('EXAMPLE.com', True), ('ex%41mple.com', True), ('ex%61mple.com', True)]
    paths3 = [p for k in range(0, 3) for p in itertools.product(SEGMENTS[:12], repeat=k)]
    queries3 = [(), ('a',), ('k=v',), ('x&y=1', '='), ('%41',), ('\u00e9', '')]
    for scheme in (SCHEMES if tier == 'thorough' else ['coap', 'CoAP', 'coaps+tcp']):
        for host, is_name in hosts:
            for port in (PORTS if tier == 'thorough' else PORTS[:2]):
                for path in (paths3 if tier == 'thorough' or host == 'example.com' else paths3[:20]):
                    for query in queries3:
                        if path == ('',) or query == ('',):
                            continue
                        for escape_all in (False, True):
                            n += 1
                            nt += nontrivial(path, query) or '%' in host or host != host.lower()
                            u = ref_compose(scheme, host, port, path, query, escape_all)
                            want_host = None
                            if is_name:
                                import urllib.parse
                                want_host = urllib.parse.unquote(host).lower()
                            try:
                                m1 = decompose(u)
                                got1 = (m1.opt.uri_path, m1.opt.uri_query, m1.opt.uri_host)
                                u2 = m1.get_request_uri()
                                m2 = decompose(u2)
                                got2 = (m2.opt.uri_path, m2.opt.uri_query, m2.opt.uri_host)
                                port_kept = getattr(m1.remote, 'hostinfo', '').endswith(':%d' % port) if port is not None else True
                            except Exception as e:
                                got1 = got2 = repr(e)
                                u2, port_kept = None, True
                            want = (path, query, want_host)
                            if got1 == want and not escape_all:
                                # 6.4 yields exactly the options of THIS URI also on a message that held the options of another one
                                try:
                                    m3 = decompose('coap://other.example/old/path?old=1&q')
                                    m3.set_request_uri(u)
                                    got3 = (m3.opt.uri_path, m3.opt.uri_query, m3.opt.uri_host)
                                except Exception as e:
                                    got3 = repr(e)
                                if got3 != want:
                                    violation(viol, 'uri-opts-uri', 'set_request_uri(%r) on a message that held another URI gives %r, on a fresh message %r' % (u, got3, want),
                                              'import aiocoap\nm = aiocoap.Message(code=aiocoap.GET)\nm.set_request_uri("coap://other.example/old/path?old=1&q")\nm.set_request_uri(%r)\n'
                                              'got = (m.opt.uri_path, m.opt.uri_query, m.opt.uri_host)\nprint(got)\nsys.exit(0 if got == %r else 1)' % (u, want))
                            if len(samples) < 4 and n % 211 == 0:
                                samples.append({'uri': u, 'options': got1, 'recomposed': u2})
                            if got1 != want or got2 != want or not port_kept:
                                violation(viol, 'uri-opts-uri', 'URI %r decomposes to %r (expected %r), recomposed %r decomposes to %r' % (u, got1, want, u2, got2),
                                          'import aiocoap\nm = aiocoap.Message(code=aiocoap.GET)\nm.set_request_uri(%r)\ngot = (m.opt.uri_path, m.opt.uri_query, m.opt.uri_host)\nu2 = m.get_request_uri()\n'
                                          'm2 = aiocoap.Message(code=aiocoap.GET)\nm2.set_request_uri(u2)\ngot2 = (m2.opt.uri_path, m2.opt.uri_query, m2.opt.uri_host)\nprint(got, u2, got2)\n'
                                          'sys.exit(0 if got == %r and got2 == %r else 1)' % (u, want, want))
    out.append({'name': 'C16/uri-to-options-to-uri', 'tool': 'bounded enumeration (native), expected options known by construction (independent composer)',
                'bound': '%d hosts x ports x paths up to 2 segments x %d queries x 2 escaping styles' % (len(hosts), len(queries3)),
                'inputs_tried': n, 'nontrivial': nt, 'samples': samples, 'violations': viol, 'counted_as_proved': False})

    # ---- 4. what is not a CoAP URI is rejected with the URL errors and nothing else
    viol, n, samples = [], 0, []
    bad = ['host/x', '//host/x', 'coap:///x', 'coap://', 'coap://user@host/', 'coap://u:p@host/', 'coap://host/#frag', 'coap://host/a?b#c', 'coap://host:abc/',
           'coap://host:-1/', 'coap://host/%FF', 'coap://host/?%C3', 'coap://h%FFst/', 'coap://[::1/', 'coap://::1/', '', ':', 'coap:', 'coap:x']
    toks = ['coap', ':', '//', 'h', '@', '#', '?', '%', '%zz', '[', ']', ':x', ' ', '/', '\u00e9']
    garbage = [''.join(t) for k in range(1, 5 if tier == 'thorough' else 4) for t in itertools.product(toks, repeat=k)]
    for u in bad + garbage:
        n += 1
        try:
            decompose(u)
            outcome = 'accepted'
        except (error.MalformedUrlError, error.IncompleteUrlError) as e:
            outcome = type(e).__name__
        except Exception as e:
            outcome = 'OTHER ' + type(e).__name__
        if u in bad and len(samples) < 6:
            samples.append({'text': u, 'outcome': outcome})
        if outcome.startswith('OTHER') or (u in bad and outcome == 'accepted'):
            violation(viol, 'rejects', 'set_request_uri(%r): %s' % (u, outcome),
                      'import aiocoap\nfrom aiocoap import error\ntry:\n    aiocoap.Message(code=aiocoap.GET).set_request_uri(%r)\n    print("accepted")\n    sys.exit(%d)\n'
                      'except (error.MalformedUrlError, error.IncompleteUrlError) as e:\n    print(type(e).__name__)\n    sys.exit(0)\nexcept Exception as e:\n    print("other", type(e).__name__, e)\n    sys.exit(1)' % (u, 1 if u in bad else 0))
    # structured authorities: every host form with every port form; a non-numeric or out-of-range port is rejected whatever the host looks like,
    # and no authority makes anything but the URL errors escape
    hosts_ok = ['host', 'EXAMPLE.com', '10.0.0.1', '[::1]', '[2001:db8::1]', '[fe80::1%eth0]', '[::ffff:1.2.3.4]']
    hosts_odd = ['[v1.x]', '[::zz]', '[]', '[1.2.3.4]', '[::1', '::1]', '[[::1]', '1.2.3.999', 'h%FFst', '[::1%25eth0]', '1..2.3', '...', '1.2.3.', '.1.2.3', '1.2.3.' + '1' * 4400]
    ports_bad = [':abc', ':-1', ':99999', ':65536', ':1x', ': 1', ':\u0661\u0662', ':+1', ':1_0', ':0x10']
    ports_ok = ['', ':', ':0', ':5683', ':65535']
    n_auth = 0
    for sch, h, p, rest in itertools.product(['coap', 'coap+tcp'], hosts_ok + hosts_odd, ports_bad + ports_ok, ['', '/', '/x?y']):
        u = '%s://%s%s%s' % (sch, h, p, rest)
        n += 1
        n_auth += 1
        must_reject = h in hosts_ok and p in ports_bad
        try:
            decompose(u)
            outcome = 'accepted'
        except (error.MalformedUrlError, error.IncompleteUrlError) as e:
            outcome = type(e).__name__
        except Exception as e:
            outcome = 'OTHER ' + type(e).__name__
        if must_reject and h.startswith('[') and len(samples) < 9:
            samples.append({'text': u, 'outcome': outcome})
        if outcome.startswith('OTHER') or (must_reject and outcome == 'accepted'):
            violation(viol, 'rejects', 'set_request_uri(%r): %s' % (u, outcome),
                      'import aiocoap\nfrom aiocoap import error\ntry:\n    aiocoap.Message(code=aiocoap.GET).set_request_uri(%r)\n    print("accepted")\n    sys.exit(%d)\n'
                      'except (error.MalformedUrlError, error.IncompleteUrlError) as e:\n    print(type(e).__name__)\n    sys.exit(0)\nexcept Exception as e:\n    print("other", type(e).__name__, e)\n    sys.exit(1)' % (u, 1 if must_reject else 0))
    out.append({'name': 'C16/rejects-non-uris-with-url-errors-only', 'tool': 'bounded enumeration (native)', 'bound': '%d listed malformed URIs + all strings of up to %d tokens from %d + %d authorities (2 schemes x %d host forms x %d port forms x 3 tails)' % (len(bad), 4 if tier == 'thorough' else 3, len(toks), n_auth, len(hosts_ok + hosts_odd), len(ports_bad + ports_ok)),
                'inputs_tried': n, 'samples': samples, 'violations': viol, 'counted_as_proved': False})

    # ---- 5. host/port join and split
    viol, n, samples = [], 0, []
    for host in ['example.com', 'h', '10.0.0.1', '2001:db8::1', 'fe80::1%eth0', '::', 'a-b.c']:
        for port in [None, 0, 1, 5683, 65535]:
            n += 1
            j = hostportjoin(host, port)
            try:
                got = hostportsplit(j)
            except Exception as e:
                got = repr(e)
            if len(samples) < 3 and ':' in host:
                samples.append({'host': host, 'port': port, 'joined': j, 'split': got})
            if got != (host, port):
                violation(viol, 'hostport', 'hostportsplit(hostportjoin(%r, %r) = %r) == %r' % (host, port, j, got),
                          'from aiocoap.util import hostportjoin, hostportsplit\nsys.exit(0 if hostportsplit(hostportjoin(%r, %r)) == (%r, %r) else 1)' % (host, port, host, port))
    out.append({'name': 'C16/hostport-join-split', 'tool': 'bounded enumeration (native)', 'bound': '7 hosts x 5 ports', 'inputs_tried': n, 'samples': samples,
                'violations': viol, 'counted_as_proved': False})
    return out
