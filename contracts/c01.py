"""C01 -- datagram codec"""
from pyvc.values import *   # noqa
from pyvc.registry import MAY
import z3
from contracts.common import OPTNUM


DECODE_ORACLE = '''
from aiocoap.message import Message
from aiocoap import error

def oracle(args, result, exc):
    b = args['rawdata']
    p = parse_datagram(b)
    if exc is not None:
        if not isinstance(exc, error.UnparsableMessage):
            return 'exception %r escapes the parser' % (exc,)
        if p is not None and not any(is_string_option(n) and not valid_utf8(v) for n, v in p[4]):
            return 'well-formed datagram rejected: %r' % (exc,)
        return None
    if p is None:
        return 'malformed datagram accepted'
    got = (int(result.mtype), int(result.code), result.mid, result.token,
           [(int(o.number), o.encode()) for o in result.opt.option_list()], result.payload)
    exp = (p[0], p[1], p[2], p[3], [(n, v) for n, v in p[4]], p[5])
    if got[:4] != exp[:4] or got[5] != exp[5] or [n for n, _ in got[4]] != [n for n, _ in exp[4]]:
        return 'fields differ from the RFC reading: %r vs %r' % (got, exp)
    return None
'''


def register(reg, prog):
    reg.python_specs(prog, 'specs.rfc7252')
    P = ['C01']

    reg.contract('aiocoap.options:_write_extended_field_value',
                 params={'value': INT}, result=Tuple(INT, BYTES),
                 ensures={'spec': 'result == ext(value)'},
                 raises={'ValueError': 'not (0 <= value < 65805)'},
                 only_raises=True, properties=P,
                 canaries={'off-by-one': 'result == ext(value + 1)'},
                 replay='pure')

    reg.contract('aiocoap.options:_read_extended_field_value',
                 params={'value': INT, 'rawdata': BYTES}, result=Tuple(INT, BYTES),
                 requires=['0 <= value <= 15'],
                 ensures={'spec': 'result == read_ext(value, rawdata)'},
                 raises={'UnparsableMessage': 'read_ext(value, rawdata) is None'},
                 only_raises=True, properties=P,
                 canaries={'rest': 'result[1] == rawdata[1:]'},
                 replay='pure')

    # ---- option value codecs (decode side)
    def log_decode(ex, st, env, result):
        st.log.append(('decode', env['self'], env['rawdata']))

    reg.contract('aiocoap.optiontypes:StringOption.decode', params={'rawdata': BYTES},
                 modifies=['self.value'], ghost=log_decode, properties=P,
                 raises={'UnicodeDecodeError': 'not valid_utf8(rawdata)'}, only_raises=True,
                 ensures={'value': 'self.value == utf8_decode(rawdata)'})
    reg.contract('aiocoap.optiontypes:OpaqueOption.decode', params={'rawdata': BYTES},
                 modifies=['self.value'], ghost=log_decode, properties=P, only_raises=True,
                 ensures={'value': 'self.value == rawdata'})
    reg.contract('aiocoap.optiontypes:UintOption.decode', params={'rawdata': BYTES},
                 modifies=['self.value'], ghost=log_decode, properties=P, only_raises=True,
                 ensures={'value': 'self.value == be_value(rawdata)'})
    reg.contract('aiocoap.optiontypes:BlockOption.decode', params={'rawdata': BYTES},
                 modifies=['self._value'], ghost=log_decode, properties=P, only_raises=True,
                 ensures={'value': 'self._value == (be_value(rawdata) // 16, (be_value(rawdata) // 8) % 2 == 1, be_value(rawdata) % 8)'})
    reg.contract('aiocoap.optiontypes:ContentFormatOption.decode', params={'rawdata': BYTES},
                 modifies=['self._value'], ghost=log_decode, properties=P, only_raises=True,
                 ensures={'value': 'self._value == be_value(rawdata)'})

    # ---- Options
    def log_add(ex, st, env, result):
        st.log.append(('add_option', env['self'], env['option']))

    reg.contract('aiocoap.options:Options.add_option',
                 params={'option': Ref('OptionType')},
                 modifies=['dict:self._options', '*lists'],
                 ensures={'present': 'option.number in self._options',
                          'last': 'self._options[option.number][len(self._options[option.number]) - 1] is option',
                          'length': 'len(self._options[option.number]) == (old(len(self._options[option.number])) + 1 if old(option.number in self._options) else 1)'},
                 ghost=log_add, properties=P)

    def decode_step(ex, s, snap):
        delta = s.log[len(snap.log):]
        goals = []
        p = ex.spec_val(s, 'parse_one(head(option_number), head(rawdata))')
        if isinstance(p, VOpt):
            goals.append(('wellformed', z3.Not(p.is_none())))
            p = p.some()
        elif isinstance(p, VNone):
            return [('wellformed', z3.BoolVal(False))]
        goals.append(('number', ex.truth(s, ex.spec_val(s, 'option_number == parse_one(head(option_number), head(rawdata))[0]'))))
        goals.append(('rest', ex.truth(s, ex.spec_val(s, 'rawdata == parse_one(head(option_number), head(rawdata))[2]'))))
        adds = [e for e in delta if e[0] == 'add_option']
        decs = [e for e in delta if e[0] == 'decode']
        goals.append(('one-add', z3.BoolVal(len(adds) == 1 and len(decs) == 1)))
        if len(adds) == 1 and len(decs) == 1:
            o = adds[0][2]
            goals.append(('added-is-decoded', o.t == decs[0][1].t))
            num = ex.read_field(s, o, 'number', Enum(OPTNUM))
            goals.append(('added-number', num.t == p.items[0].t))
            goals.append(('decoded-raw', decs[0][2].t == p.items[1].t))
            goals.append(('added-to-self', adds[0][1].t == ex.spec_val(s, 'self').t))
        return goals

    def log_opt_decode(ex, st, env, result):
        st.log.append(('opt_decode', env['self'], env['rawdata'], result))

    def log_opt_decode_exc(ex, st, env, cls):
        st.log.append(('opt_decode_raised', env['self'], env['rawdata']))

    # the option views are modelled as fields independent of the codec dictionary (A-OPTVIEW), so a caller of decode
    # must see every view of the decoded object as changed
    reg.contract('aiocoap.options:Options.decode', ghost=log_opt_decode, ghost_exc=log_opt_decode_exc,
                 modifies=['dict:self._options', '*lists'] + ['self.' + v for v in sorted(reg.opt_views)],
                 params={'rawdata': BYTES}, result=BYTES,
                 raises={'UnparsableMessage': "len(head(rawdata)) > 0 and head(rawdata)[0] != 255 and (parse_one(head(option_number), head(rawdata)) is None or (is_string_option(parse_one(head(option_number), head(rawdata))[0]) and not valid_utf8(parse_one(head(option_number), head(rawdata))[1])))"},
                 only_raises=True,
                 ensures={'end': "implies(len(head(rawdata)) == 0, result == b'')",
                          'marker': "implies(len(head(rawdata)) > 0, head(rawdata)[0] == 255 and result == head(rawdata)[1:])"},
                 loop_steps={0: [decode_step]},
                 replay={'kind': 'call', 'setup': 'from aiocoap.options import Options', 'self': 'Options()',
                         'call': 'self_.decode(rawdata)'},
                 properties=P)

    # ---- encode side
    reg.specfuncs['joined'] = lambda ex, st, l: ex.list_joined(st, l)

    reg.contract('aiocoap.optiontypes:OptionType.encode', result=BYTES, verify=False, properties=P,
                 trusted_reason='interface contract of the abstract method; every concrete override is verified against its format spec below',
                 ensures={})
    reg.contract('aiocoap.options:Options.option_list', result=Seq(Ref('OptionType')), verify=False, properties=P,
                 trusted_reason='sorted()/itertools.chain are not modelled; sortedness by option number is assumed and conformance-tested natively',
                 ensures={'sorted': 'forall(j, 0, len(result) - 1, result[j].number <= result[j + 1].number)'})

    def log_opt_encode(ex, st, env, result):
        st.log.append(('opt_encode', env['self'], result))

    reg.contract('aiocoap.options:Options.encode', result=BYTES, properties=P, ghost=log_opt_encode,
                 loop_steps={0: ["joined(data) == head(joined(data)) + enc1(head(current_opt_num), option.number, optiondata)",
                                 "current_opt_num == option.number"]},
                 invariants={0: ["current_opt_num >= 0"]},
                 raises={'ValueError': MAY},
                 raises_post={'ValueError': {'only-if-not-encodable': "not (0 <= cur(option).number - head(current_opt_num) < 65805 and len(cur(optiondata)) < 65805)"}},
                 only_raises=True,
                 loop_entry={0: ["joined(data) == b''", "current_opt_num == 0"]},
                 ensures={'join': "result == cur(joined(data))"})

    reg.contract('aiocoap.optiontypes:_to_minimum_bytes', params={'value': INT}, result=BYTES, properties=P,
                 requires=['0 <= value < 2**32'],
                 ensures={'value': 'be_value(result) == value',
                          'minimal': 'implies(len(result) > 0, result[0] != 0)',
                          'zero': '(len(result) == 0) == (value == 0)',
                          'length': 'len(result) <= 4'},
                 only_raises=True, replay='pure')
    reg.contract('aiocoap.optiontypes:OpaqueOption.encode', result=BYTES, properties=P, only_raises=True,
                 ensures={'value': 'result == self.value'})
    reg.contract('aiocoap.optiontypes:StringOption.encode', result=BYTES, properties=P, only_raises=True,
                 ensures={'value': 'result == utf8_encode(self.value)'})
    reg.contract('aiocoap.optiontypes:UintOption.encode', result=BYTES, properties=P, only_raises=True,
                 requires=['0 <= self.value < 2**32'],
                 ensures={'value': 'be_value(result) == self.value', 'minimal': 'implies(len(result) > 0, result[0] != 0)'})
    reg.contract('aiocoap.optiontypes:BlockOption.encode', result=BYTES, properties=P, only_raises=True,
                 requires=['0 <= self._value[0] < 2**20', '0 <= self._value[2] <= 7'],
                 ensures={'value': 'be_value(result) == self._value[0] * 16 + (8 if self._value[1] else 0) + self._value[2]',
                          'minimal': 'implies(len(result) > 0, result[0] != 0)'})
    reg.contract('aiocoap.optiontypes:ContentFormatOption.encode', result=BYTES, properties=P, only_raises=True,
                 requires=['0 <= self._value < 65536'],
                 ensures={'value': 'be_value(result) == self._value', 'minimal': 'implies(len(result) > 0, result[0] != 0)'})

    # ---- whole messages
    def enc_exit(ex, s, entry, env, result):
        evs = [e for e in s.log if e[0] == 'opt_encode']
        if len(evs) != 1:
            return [('one-options-encode', z3.BoolVal(False))]
        opts = evs[0][2]
        spec = ex.spec_val(s, 'datagram(self.mtype, self.code, self.mid, self.token, opts, self.payload)',
                           env=dict(env, opts=opts), old_st=entry)
        return [('rfc7252-section3', ex.eq(s, result, spec)),
                ('options-of-this-message', evs[0][1].t == ex.spec_val(s, 'self.opt', env=env).t)]

    reg.contract('aiocoap.message:Message.encode', result=BYTES, properties=P,
                 requires=['self.version == 1', 'implies(self.mtype is not None, 0 <= self.mtype <= 3)',
                           'implies(self.code is not None, 0 <= self.code <= 255)',
                           'implies(self.mid is not None, 0 <= self.mid <= 65535)', 'len(self.token) <= 8'],
                 raises={'TypeError': 'self.code is None or self.mtype is None or self.mid is None',
                         'AssertionError': 'self.direction != Direction.OUTGOING', 'ValueError': MAY},
                 only_raises=True, at_exit=enc_exit)

    def dec_raise_post(ctx):
        raised = [e for e in ctx.st.log if e[0] == 'opt_decode_raised']
        hdr_bad = ctx.ev('len(rawdata) < 4 or rawdata[0] // 64 != 1')
        return z3.Or(ctx.ex.truth(ctx.st, hdr_bad), z3.BoolVal(len(raised) > 0))

    def dec_exit(ex, s, entry, env, result):
        evs = [e for e in s.log if e[0] == 'opt_decode']
        if len(evs) != 1:
            return [('one-options-decode', z3.BoolVal(False))]
        rest = ex.spec_val(s, 'rawdata[4 + rawdata[0] % 16:]', env=env)
        msg_opt = ex.spec_val(s, 'result.opt', env=env, result=result)
        pl = ex.spec_val(s, 'result.payload', env=env, result=result)
        return [('options-from-rest', ex.eq(s, evs[0][2], rest)),
                ('options-into-message', evs[0][1].t == msg_opt.t),
                ('payload-is-parser-result', ex.eq(s, pl, evs[0][3]))]

    reg.contract('aiocoap.message:Message.decode', params={'rawdata': BYTES, 'remote': Opt(Ref('Remote'))},
                 result=Ref('Message'), properties=P,
                 raises={'UnparsableMessage': MAY}, only_raises=True,
                 raises_post={'UnparsableMessage': {'only-if-malformed': dec_raise_post}},
                 ensures={'version': 'len(rawdata) >= 4 and rawdata[0] // 64 == 1',
                          'type': 'result.mtype == (rawdata[0] // 16) % 4',
                          'code': 'result.code == rawdata[1]',
                          'mid': 'result.mid == rawdata[2] * 256 + rawdata[3]',
                          'token': 'result.token == rawdata[4:4 + rawdata[0] % 16]',
                          'remote': 'result.remote is remote',
                          'direction': 'result.direction == Direction.INCOMING'},
                 at_exit=dec_exit,
                 replay={'kind': 'call', 'call': 'Message.decode(rawdata)', 'setup': DECODE_ORACLE})


def bounded(tier, seed):
    """The format table of the RFC-defined options (numbers/optionnumbers.py: module-level `set_format` calls, outside any function
    a contract could be put on).  The deductive contracts read the table from the live module and prove each value codec against its
    format; WHICH format an option number has is pinned here, exhaustively over the finite table the RFCs define (a complete
    enumeration of a finite domain, still labelled as a stand-in because no obligation is generated for it)."""
    import os
    from aiocoap.numbers.optionnumbers import OptionNumber
    verif = os.path.dirname(os.path.dirname(os.path.abspath(__file__)))
    # RFC 7252 5.10, RFC 7959 2.1 / 4, RFC 7641 2, RFC 7967, RFC 8613 2, RFC 9175, RFC 9668
    table = {1: 'opaque', 3: 'string', 4: 'opaque', 5: 'empty', 6: 'uint', 7: 'uint', 8: 'string', 9: 'opaque', 11: 'string', 12: 'uint', 14: 'uint',
             15: 'string', 17: 'uint', 20: 'string', 21: 'empty', 23: 'block', 27: 'block', 28: 'uint', 35: 'string', 39: 'string', 60: 'uint',
             252: 'opaque', 258: 'uint', 292: 'opaque'}
    viol, samples = [], []
    for num, fmt in sorted(table.items()):
        try:
            v = OptionNumber(num).create_option(decode=b'\x04\x00').value
            wire = OptionNumber(num).create_option(decode=b'\x04\x00').encode()
        except Exception as e:
            v, wire = e, None
        if fmt == 'uint':
            ok = isinstance(v, int) and int(v) == 1024 and wire == b'\x04\x00'
        elif fmt == 'string':
            ok = v == '\x04\x00' and wire == b'\x04\x00'
        elif fmt in ('opaque', 'empty'):          # an option of format "empty" is carried as a zero-length opaque value by this library
            ok = v == b'\x04\x00' and wire == b'\x04\x00'
        else:
            ok = tuple(v) == (64, False, 0) and wire == b'\x04\x00' if not isinstance(v, Exception) else False
        if len(samples) < 4 and num in (6, 11, 23, 28):
            samples.append({'option': num, 'format': fmt, 'value decoded from 0400': repr(v)})
        if not ok:
            path = os.path.join(verif, 'replays', 'C01-format-%d.py' % num)
            os.makedirs(os.path.dirname(path), exist_ok=True)
            with open(path, 'w') as f:
                f.write('#!/venv/bin/python\n"""C01 replay (option format table): option %d has format %s in the RFCs"""\nimport sys, os\nsys.path.insert(0, os.environ.get("VERIF_REPO", "/repo"))\n'
                        'from aiocoap.numbers.optionnumbers import OptionNumber\no = OptionNumber(%d).create_option(decode=b"\\x04\\x00")\nprint(repr(o.value), type(o).__name__)\n'
                        'import aiocoap\nm = aiocoap.Message.decode(bytes.fromhex("40010001") + %r)\nprint(m.opt)\nsys.exit(0 if repr(o.value) == %r else 1)\n'
                        % (num, fmt, num, _one_option(num), {'uint': '1024', 'string': repr('\x04\x00'), 'opaque': repr(b'\x04\x00'), 'empty': repr(b'\x04\x00')}.get(fmt, 'BlockwiseTuple(block_number=64, more=False, size_exponent=0)')))
            viol.append({'what': 'option %d: a value with the bytes 04 00 decodes to %r, the RFC format of the option is %s' % (num, v, fmt), 'replay': path})
    return [{'name': 'C01/option-format-table', 'tool': 'exhaustive enumeration of the RFC-defined option numbers (native)', 'bound': 'complete: %d option numbers' % len(table),
             'inputs_tried': len(table), 'exhaustive': True, 'samples': samples, 'violations': viol, 'counted_as_proved': False}]


def _one_option(num):
    """wire form of a message body holding exactly one option `num` with the value 04 00"""
    def ext(n):
        if n < 13:
            return n, b''
        if n < 269:
            return 13, bytes([n - 13])
        return 14, (n - 269).to_bytes(2, 'big')
    d, de = ext(num)
    return bytes([(d << 4) | 2]) + de + b'\x04\x00'
