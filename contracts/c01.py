"""C01 -- datagram codec"""
from pyvc.values import *   # noqa
from pyvc.registry import MAY
import z3
from contracts.common import OPTNUM


def register(reg, prog):
    reg.python_specs(prog, 'specs.rfc7252')
    P = ['C01']

    reg.contract('aiocoap.options:_write_extended_field_value',
                 params={'value': INT}, result=Tuple(INT, BYTES),
                 ensures={'spec': 'result == ext(value)'},
                 raises={'ValueError': 'not (0 <= value < 65805)'},
                 only_raises=True, properties=P,
                 canaries={'off-by-one': 'result == ext(value + 1)'},
                 replay='pure')

    reg.contract('aiocoap.options:_read_extended_field_value',
                 params={'value': INT, 'rawdata': BYTES}, result=Tuple(INT, BYTES),
                 requires=['0 <= value <= 15'],
                 ensures={'spec': 'result == read_ext(value, rawdata)'},
                 raises={'UnparsableMessage': 'read_ext(value, rawdata) is None'},
                 only_raises=True, properties=P,
                 canaries={'rest': 'result[1] == rawdata[1:]'},
                 replay='pure')

    # ---- option value codecs (decode side)
    def log_decode(ex, st, env, result):
        st.log.append(('decode', env['self'], env['rawdata']))

    reg.contract('aiocoap.optiontypes:StringOption.decode', params={'rawdata': BYTES},
                 modifies=['self.value'], ghost=log_decode, properties=P,
                 raises={'UnicodeDecodeError': 'not valid_utf8(rawdata)'}, only_raises=True,
                 ensures={'value': 'self.value == utf8_decode(rawdata)'})
    reg.contract('aiocoap.optiontypes:OpaqueOption.decode', params={'rawdata': BYTES},
                 modifies=['self.value'], ghost=log_decode, properties=P, only_raises=True,
                 ensures={'value': 'self.value == rawdata'})
    reg.contract('aiocoap.optiontypes:UintOption.decode', params={'rawdata': BYTES},
                 modifies=['self.value'], ghost=log_decode, properties=P, only_raises=True,
                 ensures={'value': 'self.value == be_value(rawdata)'})
    reg.contract('aiocoap.optiontypes:BlockOption.decode', params={'rawdata': BYTES},
                 modifies=['self._value'], ghost=log_decode, properties=P, only_raises=True,
                 ensures={'value': 'self._value == (be_value(rawdata) // 16, (be_value(rawdata) // 8) % 2 == 1, be_value(rawdata) % 8)'})
    reg.contract('aiocoap.optiontypes:ContentFormatOption.decode', params={'rawdata': BYTES},
                 modifies=['self._value'], ghost=log_decode, properties=P, only_raises=True,
                 ensures={'value': 'self._value == be_value(rawdata)'})

    # ---- Options
    def log_add(ex, st, env, result):
        st.log.append(('add_option', env['self'], env['option']))

    reg.contract('aiocoap.options:Options.add_option',
                 params={'option': Ref('OptionType')},
                 modifies=['dict:self._options', '*lists'],
                 ensures={'present': 'option.number in self._options',
                          'last': 'self._options[option.number][len(self._options[option.number]) - 1] is option',
                          'length': 'len(self._options[option.number]) == (old(len(self._options[option.number])) + 1 if old(option.number in self._options) else 1)'},
                 ghost=log_add, properties=P)

    def decode_step(ex, s, snap):
        delta = s.log[len(snap.log):]
        goals = []
        p = ex.spec_val(s, 'parse_one(head(option_number), head(rawdata))')
        if isinstance(p, VOpt):
            goals.append(('wellformed', z3.Not(p.is_none())))
            p = p.some()
        elif isinstance(p, VNone):
            return [('wellformed', z3.BoolVal(False))]
        goals.append(('number', ex.truth(s, ex.spec_val(s, 'option_number == parse_one(head(option_number), head(rawdata))[0]'))))
        goals.append(('rest', ex.truth(s, ex.spec_val(s, 'rawdata == parse_one(head(option_number), head(rawdata))[2]'))))
        adds = [e for e in delta if e[0] == 'add_option']
        decs = [e for e in delta if e[0] == 'decode']
        goals.append(('one-add', z3.BoolVal(len(adds) == 1 and len(decs) == 1)))
        if len(adds) == 1 and len(decs) == 1:
            o = adds[0][2]
            goals.append(('added-is-decoded', o.t == decs[0][1].t))
            num = ex.read_field(s, o, 'number', Enum(OPTNUM))
            goals.append(('added-number', num.t == p.items[0].t))
            goals.append(('decoded-raw', decs[0][2].t == p.items[1].t))
            goals.append(('added-to-self', adds[0][1].t == ex.spec_val(s, 'self').t))
        return goals

    reg.contract('aiocoap.options:Options.decode',
                 params={'rawdata': BYTES}, result=BYTES,
                 raises={'UnparsableMessage': "len(head(rawdata)) > 0 and head(rawdata)[0] != 255 and (parse_one(head(option_number), head(rawdata)) is None or (is_string_option(parse_one(head(option_number), head(rawdata))[0]) and not valid_utf8(parse_one(head(option_number), head(rawdata))[1])))"},
                 only_raises=True,
                 ensures={'end': "implies(len(head(rawdata)) == 0, result == b'')",
                          'marker': "implies(len(head(rawdata)) > 0, head(rawdata)[0] == 255 and result == head(rawdata)[1:])"},
                 loop_steps={0: [decode_step]},
                 replay={'kind': 'call', 'setup': 'from aiocoap.options import Options', 'self': 'Options()',
                         'call': 'self_.decode(rawdata)'},
                 properties=P)
