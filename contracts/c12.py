"""C12 -- OSCORE replay window (aiocoap.oscore cannot be imported here: AST only)"""
import z3
from pyvc.values import *   # noqa
from pyvc.registry import MAY

RW = 'aiocoap.oscore:ReplayWindow'


def register(reg, prog):
    P = ['C12']
    reg.declare_class('ReplayWindow', RW, fields={'_index': Opt(INT), '_bitfield': Opt(BITS), '_size': INT,
                                                  'strike_out_callback': CALLABLE})

    def parts(ex, st, w):
        idx = ex.read_field(st, w, '_index', Opt(INT)).some().t
        size = ex.read_field(st, w, '_size', INT).t
        bits = ex.read_field(st, w, '_bitfield', Opt(BITS)).some()
        return idx, size, bits

    @reg.specfunc('was_seen')
    def seen(ex, st, w, n):
        """abstract view of the window: n was struck out or lies below the window"""
        idx, size, bits = parts(ex, st, w)
        n = ex.as_int(n)
        return VBool(z3.Or(n < idx, z3.And(n < idx + size, bits.at(n - idx))))

    @reg.specfunc('window_wf')
    def wf(ex, st, w):
        idx, size, bits = parts(ex, st, w)
        i = z3.Int(fresh_name('wi'))
        init = z3.And(z3.Not(ex.read_field(st, w, '_index', Opt(INT)).is_none()),
                      z3.Not(ex.read_field(st, w, '_bitfield', Opt(BITS)).is_none()))
        return VBool(z3.And(init, idx >= 0, size > 0, z3.ForAll([i], z3.Implies(z3.Or(i < 0, i >= size), z3.Not(bits.at(i))))))

    @reg.specfunc('window_index')
    def widx(ex, st, w):
        return VInt(parts(ex, st, w)[0])

    reg.contract(RW + '.is_valid', params={'number': INT}, result=BOOL, properties=P,
                 requires=['window_wf(self)', 'number >= 0'],
                 ensures={'view': 'result == (not was_seen(self, number))'}, only_raises=True,
                 canaries={'always-valid': 'result'})

    def cb_once(ex, s, entry, env, result):
        calls = [e for e in s.log if e[0] == 'call']
        return [('callback-exactly-once', z3.BoolVal(len(calls) == 1))]

    reg.contract(RW + '.strike_out', params={'number': INT}, properties=P, modifies=['self._index', 'self._bitfield'],
                 requires=['window_wf(self)', 'number >= 0'],
                 raises={'ValueError': 'old(was_seen(self, number))'}, only_raises=True,
                 raises_post={'ValueError': {'state-unchanged': 'self._index == old(self._index) and forall(m, was_seen(self, m) == old(was_seen(self, m)))'}},
                 ensures={'struck': 'was_seen(self, number)',
                          'monotone': 'forall(m, implies(old(was_seen(self, m)), was_seen(self, m)))',
                          'exact': 'forall(m, implies(was_seen(self, m) and m >= 0, old(was_seen(self, m)) or m == number or m < window_index(self)))',
                          'wf': 'window_wf(self)',
                          'size-kept': 'self._size == old(self._size)',
                          },
                 at_exit=cb_once,
                 canaries={'window-never-moves': 'self._index == old(self._index)'})

    reg.contract(RW + '.initialize_empty', properties=P, requires=['self._size > 0'], modifies=['self._index', 'self._bitfield'],
                 ensures={'wf': 'window_wf(self)', 'nothing-seen': 'forall(m, implies(m >= 0, not was_seen(self, m)))'})
    reg.contract(RW + '.initialize_from_freshlyseen', params={'seen': INT}, properties=P, modifies=['self._index', 'self._bitfield'],
                 requires=['self._size > 0', 'seen >= 0'],
                 ensures={'wf': 'window_wf(self)',
                          'all-up-to-seen': 'forall(m, was_seen(self, m) == (m <= seen))'})
    reg.contract(RW + '.is_initialized', result=BOOL, properties=P,
                 ensures={'def': 'result == (self._index is not None)'})

