"""C12 -- OSCORE replay window (aiocoap.oscore cannot be imported here: AST only)"""
import z3
from pyvc.values import *   # noqa
from pyvc.registry import MAY

RW = 'aiocoap.oscore:ReplayWindow'


def register(reg, prog):
    P = ['C12']
    reg.declare_class('ReplayWindow', RW, fields={'_index': Opt(INT), '_bitfield': Opt(BITS), '_size': INT,
                                                  'strike_out_callback': CALLABLE})

    def parts(ex, st, w):
        idx = ex.read_field(st, w, '_index', Opt(INT)).some().t
        size = ex.read_field(st, w, '_size', INT).t
        bits = ex.read_field(st, w, '_bitfield', Opt(BITS)).some()
        return idx, size, bits

    @reg.specfunc('was_seen')
    def seen(ex, st, w, n):
        """abstract view of the window: n was struck out or lies below the window"""
        idx, size, bits = parts(ex, st, w)
        n = ex.as_int(n)
        return VBool(z3.Or(n < idx, z3.And(n < idx + size, bits.at(n - idx))))

    @reg.specfunc('window_wf')
    def wf(ex, st, w):
        idx, size, bits = parts(ex, st, w)
        i = z3.Int(fresh_name('wi'))
        init = z3.And(z3.Not(ex.read_field(st, w, '_index', Opt(INT)).is_none()),
                      z3.Not(ex.read_field(st, w, '_bitfield', Opt(BITS)).is_none()))
        return VBool(z3.And(init, idx >= 0, size > 0, z3.ForAll([i], z3.Implies(z3.Or(i < 0, i >= size), z3.Not(bits.at(i))))))

    @reg.specfunc('window_index')
    def widx(ex, st, w):
        return VInt(parts(ex, st, w)[0])

    reg.contract(RW + '.is_valid', params={'number': INT}, result=BOOL, properties=P,
                 requires=['window_wf(self)', 'number >= 0'],
                 ensures={'view': 'result == (not was_seen(self, number))'}, only_raises=True,
                 canaries={'always-valid': 'result'})

    def cb_once(ex, s, entry, env, result):
        calls = [e for e in s.log if e[0] == 'call']
        return [('callback-exactly-once', z3.BoolVal(len(calls) == 1))]

    reg.contract(RW + '.strike_out', params={'number': INT}, properties=P, modifies=['self._index', 'self._bitfield'],
                 requires=['window_wf(self)', 'number >= 0'],
                 raises={'ValueError': 'old(was_seen(self, number))'}, only_raises=True,
                 raises_post={'ValueError': {'state-unchanged': 'self._index == old(self._index) and forall(m, was_seen(self, m) == old(was_seen(self, m)))'}},
                 ensures={'struck': 'was_seen(self, number)',
                          'monotone': 'forall(m, implies(old(was_seen(self, m)), was_seen(self, m)))',
                          'exact': 'forall(m, implies(was_seen(self, m) and m >= 0, old(was_seen(self, m)) or m == number or m < window_index(self)))',
                          'wf': 'window_wf(self)',
                          'size-kept': 'self._size == old(self._size)',
                          },
                 at_exit=cb_once,
                 canaries={'window-never-moves': 'self._index == old(self._index)'})

    reg.contract(RW + '.initialize_empty', properties=P, requires=['self._size > 0'], modifies=['self._index', 'self._bitfield'],
                 ensures={'wf': 'window_wf(self)', 'nothing-seen': 'forall(m, implies(m >= 0, not was_seen(self, m)))'})
    reg.contract(RW + '.initialize_from_freshlyseen', params={'seen': INT}, properties=P, modifies=['self._index', 'self._bitfield'],
                 requires=['self._size > 0', 'seen >= 0'],
                 ensures={'wf': 'window_wf(self)',
                          'all-up-to-seen': 'forall(m, was_seen(self, m) == (m <= seen))'})
    reg.contract(RW + '.is_initialized', result=BOOL, properties=P,
                 ensures={'def': 'result == (self._index is not None)'})
    # ---- persistence of the window (C13 relies on it: a window persisted as "uninitialised" must come back uninitialised, so
    # that Echo recovery is still required after the next start)
    PERSISTED = VRec({'index': from_term(Opt(INT), fresh(Opt(INT), 'persisted_index')), 'bitfield': from_term(Opt(BITS), fresh(Opt(BITS), 'persisted_bitfield'))})
    reg.contract(RW + '.initialize_from_persisted', params={'persisted': PERSISTED}, properties=P + ['C13'], only_raises=True,
                 modifies=['self._index', 'self._bitfield'],
                 ensures={'index-as-persisted': 'self._index == persisted["index"]',
                          'bitfield-present-iff-persisted': '(self._bitfield is None) == (persisted["bitfield"] is None)',
                          'an-uninitialised-window-stays-uninitialised': 'implies(persisted["index"] is None, self._index is None)'})
    register_unprotect(reg, prog)



def _late(reg, prog):
    register_unprotect(reg, prog)


def declare_oscore(reg):
    """class declarations shared by the OSCORE contracts (C11, C12)"""
    if 'SecCtx' in reg.classes:
        return
    CU = 'aiocoap.oscore:CanUnprotect'
    reg.declare_class('SecCtx', CU, fields={
        'id_context': Opt(BYTES), 'recipient_id': BYTES, 'recipient_replay_window': Ref('ReplayWindow'), 'echo_recovery': Opt(BYTES),
        'alg_aead': Ref('AlgI'), 'alg_group_enc': Ref('AlgI'), 'alg_signature': Ref('SigAlgI'), 'signature_encryption_key': BYTES,
        'recipient_public_key': ANY, 'recipient_key': BYTES})
    # alg_signature / alg_group_enc are only annotated on the group-context base classes: plain (non-group) contexts
    # do not have them at all
    reg.classes['SecCtx'].maybe_absent = {'alg_signature'}
    reg.assume('A-ATTR: instance attributes that only group contexts define (alg_signature) may be missing on the context under '
               'verification: reading them raises AttributeError there')
    reg.declare_class('AlgI', 'aiocoap.oscore:SymmetricEncryptionAlgorithm', opaque=True, fields={'tag_bytes': INT, 'iv_bytes': INT})
    reg.declare_class('SigAlgI', 'aiocoap.oscore:AlgorithmCountersign', opaque=True, fields={'signature_length': INT})
    reg.declare_class('RequestIdentifiersI', 'aiocoap.oscore:RequestIdentifiers', opaque=True, fields={'partial_iv': BYTES, 'kid': BYTES})


def register_unprotect(reg, prog):
    """call-order (typestate) contract of CanUnprotect.unprotect: cryptography, CBOR and key handling are environment"""
    from contracts.util import lg, lg_result, evs, B, Ev
    P = ['C12', 'C11']
    CU = 'aiocoap.oscore:CanUnprotect'
    MSG = Ref('Message')
    declare_oscore(reg)
    reg.assume('A-AEAD (ideal): decrypt either returns the plaintext (never empty: a key holder only encrypts what protect() builds, code byte first) '
               'or raises; nothing is assumed about WHEN it fails -- the typestate clauses hold for every outcome')
    reg.declare_class('ReplayErrorWithEcho', 'aiocoap.oscore:ReplayErrorWithEcho', fields={'secctx': Ref('SecCtx'), 'request_id': Opt(Ref('RequestIdentifiersI')), 'echo': Opt(BYTES)})
    UNP = Dict(INT, BYTES, 'oscore.unprotected')

    def keystream(ex, st, args, kw, node):
        """HKDF output for the signature keystream: as many bytes as the countersignature has (assumed: the real function
        asks HKDF for alg_signature.signature_length bytes)"""
        k = ex.fresh_val(st, BYTES, 'keystream')
        sig = ex.read_field(st, args[0], 'alg_signature', Ref('SigAlgI'))
        st.assume(k.len == ex.read_field(st, sig, 'signature_length', INT).t)
        return [(st, k)]
    reg.externals['repo:aiocoap.oscore:BaseSecurityContext._kdf_for_keystreams'] = keystream
    reg.externals['attr:SecCtx._kdf_for_keystreams'] = lambda ex, st, base, node: [(st, VFunc('ext', name='SecCtx._kdf_for_keystreams', bound=base))]
    reg.externals['SecCtx._kdf_for_keystreams'] = keystream
    reg.externals['repo:' + CU + '._get_recipient_key'] = lambda ex, st, args, kw, node: [(st, ex.fresh_val(st, BYTES, 'key'))]
    reg.externals.setdefault('cbor2.dumps', lambda ex, st, args, kw, node: [(st, ex.fresh_val(st, BYTES, 'cbor'))])
    reg.externals.setdefault('cbor.dumps', reg.externals['cbor2.dumps'])
    reg.externals.setdefault('new:aiocoap.oscore:RequestIdentifiers', lambda ex, st, args, kw, node: [(st, ex.new_object(st, 'RequestIdentifiersI'))])

    def post_checks(ex, st, args, kw, node):
        st.log.append(('post_decrypt_checks',))
        s2 = st.copy()
        ex.raise_exc(s2, 'aiocoap.oscore:ProtectionInvalid')
        return [(st, VNone()), (s2, None)]
    reg.externals['repo:' + CU + '._post_decrypt_checks'] = post_checks

    def decrypt(ex, st, args, kw, node):
        alg, ciphertext = args[0], args[1]
        s2 = st.copy()
        s2.log.append(('decrypt_failed',))
        ex.raise_exc(s2, 'aiocoap.oscore:ProtectionInvalid')
        s2.exc[1].exact = False
        st.log.append(('decrypt_ok',))
        p = ex.fresh_val(st, BYTES, 'plaintext')
        tag = ex.read_field(st, alg, 'tag_bytes', INT).t
        st.assume(p.len == ciphertext.len - tag)
        st.assume(p.len >= 1)      # ideal AEAD: only what a key holder encrypted decrypts, and protect() always encrypts code + options (C11 _split_message)
        return [(st, p), (s2, None)]
    reg.externals['AlgI.decrypt'] = decrypt

    def verify(ex, st, args, kw, node):
        s2 = st.copy()
        s2.log.append(('decrypt_failed',))
        ex.raise_exc(s2, 'aiocoap.oscore:ProtectionInvalid')
        return [(st, VNone()), (s2, None)]
    reg.externals['SigAlgI.verify'] = verify

    RWK = 'aiocoap.oscore:ReplayWindow'
    reg.contracts[RWK + '.is_initialized'].ghost = lg_result('rw_is_initialized', 'self')
    reg.contracts[RWK + '.is_valid'].ghost = lg_result('rw_is_valid', 'self', 'number')
    reg.contracts[RWK + '.strike_out'].ghost = lg('rw_strike_out', 'self', 'number')
    reg.contracts[RWK + '.initialize_from_freshlyseen'].ghost = lg('rw_init_fresh', 'self', 'seen')

    WINDOW_EVENTS = ('rw_strike_out', 'rw_init_fresh')

    def order_ok(s):
        """every write to the replay window happens after a successful decryption and after the validity checks said yes"""
        kinds = [e[0] for e in s.log]
        g = []
        for i, e in enumerate(s.log):
            if e[0] == 'rw_strike_out':
                before = s.log[:i]
                g.append(('strike-out-only-after-successful-decryption', B('decrypt_ok' in [x[0] for x in before] and 'decrypt_failed' not in kinds)))
                inits = [x for x in before if x[0] == 'rw_is_initialized']
                valids = [x for x in before if x[0] == 'rw_is_valid']
                g.append(('strike-out-only-after-the-window-accepted-the-number',
                          z3.And(B(len(inits) >= 1 and len(valids) == 1), *( [inits[0][-1].t, valids[0][-1].t, valids[0][2].t == e[2].t] if inits and valids else []))))
            if e[0] == 'rw_init_fresh':
                before = s.log[:i]
                g.append(('window-initialised-only-after-successful-decryption', B('decrypt_ok' in [x[0] for x in before] and 'decrypt_failed' not in kinds)))
        g.append(('at-most-one-window-write', B(sum(1 for k in kinds if k in WINDOW_EVENTS) <= 1)))
        return g

    def unp_exit(ex, s, entry, env, result):
        ev = Ev(ex, s, entry, env)
        g = order_ok(s)
        kinds = [e[0] for e in s.log]
        is_req = ev('old(1 <= protected_message.code < 32)')
        inits = [e for e in s.log if e[0] == 'rw_is_initialized']
        g.append(('a-message-is-returned-only-after-successful-decryption', B('decrypt_ok' in kinds and 'decrypt_failed' not in kinds)))
        # accepted request: either the window vouched for it and it is now struck out, or the window was just
        # initialised from this very request because it echoed the value issued by this process
        accepted_by_window = B('rw_strike_out' in kinds)
        accepted_by_echo = B('rw_init_fresh' in kinds)
        g.append(('an-accepted-request-is-recorded-in-the-window', z3.Implies(is_req, z3.Or(accepted_by_window, accepted_by_echo))))
        # C11: whatever the OSCORE option says about key ID and ID context has been compared with this context
        for e in s.log:
            if e[0] == 'extract':
                dom, vals = e[3], e[4]
                ctx_in_option = from_term(BYTES, z3.Select(vals, z3.IntVal(10)))
                kid_in_option = from_term(BYTES, z3.Select(vals, z3.IntVal(4)))
                g.append(('a-kid-context-in-the-option-is-the-id-context-of-this-security-context',
                          z3.Implies(z3.Select(dom, z3.IntVal(10)), ev('old(self.id_context) is not None and c == old(self.id_context)', c=ctx_in_option))))
                g.append(('a-kid-in-the-option-is-the-recipient-id-of-this-security-context',
                          z3.Implies(z3.Select(dom, z3.IntVal(4)), ev('k == old(self.recipient_id)', k=kid_in_option))))
                g.append(('a-request-carries-a-partial-iv', z3.Implies(is_req, z3.Select(dom, z3.IntVal(6)))))
        # C13 / RFC 8613 B.1.2: the request identifiers permit the response to reuse the request's nonce only if the replay window
        # vouched for the request; a request let in through the Echo exchange (or answered with the challenge) was possibly answered
        # under that nonce in an earlier lifetime
        g.append(('nonce-reuse-only-for-a-request-the-window-vouched-for',
                  z3.Implies(z3.And(is_req, ev('res_[1] is not None and res_[1].can_reuse_nonce is True', res_=result)), accepted_by_window)))
        g.append(('option-was-extracted', B('extract' in kinds)))
        for e in s.log:
            if e[0] == 'rw_init_fresh':
                g.append(('echo-recovery-only-while-uninitialised-and-with-the-issued-value',
                          z3.And(z3.Not(inits[0][-1].t) if inits else B(False),
                                 ev('old(self.echo_recovery) is not None'),
                                 ev('implies(old(1 <= protected_message.code < 32), res_[0].opt.echo == old(self.echo_recovery))', res_=result))))
        return g

    def unp_raise(ctx):
        return z3.And(B(True), *[g for _, g in order_ok(ctx.st)])

    def echo_challenge_fresh_nonce(ctx):
        """the 4.01 carrying the Echo challenge is protected with the request identifiers in the exception: they must not allow the
        request's nonce to be used again (the request may be a replay whose response already went out under that nonce)"""
        exc = ctx.st.ghost.get('$raised')
        if exc is None:
            from pyvc.values import Unsupported
            raise Unsupported('no exception object at a call site')
        rid = ctx.ex.read_field(ctx.st, exc, 'request_id', Opt(Ref('RequestIdentifiersI')))
        return ctx.ex.truth(ctx.st, ctx.ex.spec_val(ctx.st, 'rid is not None and rid.can_reuse_nonce is False', env=dict(ctx.env, rid=rid)))

    RAISES = ['ProtectionInvalid', 'DecodeError', 'ReplayError', 'ReplayErrorWithEcho', 'NotAProtectedMessage', 'UnparsableMessage']
    reg.contract(CU + '.unprotect', self_class='SecCtx', params={'protected_message': MSG, 'request_id': Opt(Ref('RequestIdentifiersI'))},
                 result=Tuple(MSG, Opt(Ref('RequestIdentifiersI'))), properties=P,
                 requires=['protected_message.code is not None', '0 <= protected_message.code <= 255',
                           # callers hand over requests (1..31) or responses (64..191) only: the message and token managers
                           # drop every other code class before a security context sees it
                           '1 <= protected_message.code < 32 or 64 <= protected_message.code < 192',
                           'implies(self.recipient_replay_window._index is not None, window_wf(self.recipient_replay_window))',
                           'self.alg_aead.tag_bytes >= 0', 'self.alg_group_enc.tag_bytes >= 0', 'self.recipient_replay_window._size > 0',
                           # caller obligations asserted at the top of the function
                           '(request_id is not None) == (64 <= protected_message.code < 192)', 'protected_message.direction is Direction.INCOMING',
                           # the OSCORE site wrapper answers 4.05 to protected requests whose outer code is not POST / FETCH
                           'implies(protected_message.code < 32, protected_message.code == 2 or protected_message.code == 5)',
                           # context well-formedness: IDs fit the nonce of the algorithms, the Common IV has the nonce length
                           'len(self.recipient_id) <= self.alg_aead.iv_bytes - 6', 'len(self.recipient_id) <= self.alg_group_enc.iv_bytes - 6',
                           'len(self.recipient_id) <= 255', 'len(self.common_iv) >= self.alg_aead.iv_bytes',
                           'len(self.common_iv) >= self.alg_group_enc.iv_bytes', 'self.alg_signature.signature_length > 0',
                           'implies(request_id is not None, request_id.request_hash is None and len(request_id.kid) <= 255 and len(request_id.kid) <= self.alg_aead.iv_bytes - 6 '
                           'and len(request_id.kid) <= self.alg_group_enc.iv_bytes - 6 and len(request_id.partial_iv) <= 5)'],
                 raises={k: MAY for k in RAISES}, only_raises=True, modifies=['*'], at_exit=unp_exit,
                 raises_post={k: dict({'window-untouched-unless-decryption-succeeded': unp_raise},
                                      **({'echo-challenge-does-not-reuse-the-request-nonce': echo_challenge_fresh_nonce} if k == 'ReplayErrorWithEcho' else {})) for k in RAISES})
