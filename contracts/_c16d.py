"""C16, deductive part: the control skeleton of the URI <-> option conversion under contract, with the string library
(urllib.parse, str methods, ipaddress) as ASSUMED contracts over uninterpreted functions (A-URLLIB).

What is proved for ALL inputs, modulo those assumed library contracts:
 * Message.set_request_uri: no exception other than MalformedUrlError / IncompleteUrlError can leave it, and which of the two is
   raised is exactly the condition the property names (fragment, no scheme, no host, user info, non-UTF-8 escapes, non-numeric
   port, unusable IP literal); a non-CoAP scheme becomes Proxy-Uri and touches nothing else; on success Uri-Path / Uri-Query are
   the percent-decoded "/"- and "&"-separated components (element-wise, same length), Uri-Host is the lower-cased decoded host
   name unless the host is an IP literal (then it is cleared), the remote is built from the scheme and the whole authority (the
   port stays with the destination).
 * Message.get_request_uri (requests without Proxy-Uri / Uri-Path-Abbrev): the result is urlunparse of the scheme, the
   authority selected per RFC 7252 6.5 (Uri-Host / Uri-Port override the destination's), "/"-prefixed quoted path segments
   (or "/" for none) and "&"-joined quoted query segments.
 * hostportjoin / hostportsplit: bracket exactly unbracketed hosts containing ":", port appended exactly when given; split
   raises ValueError only.
What the library functions themselves compute (splitting, quoting, percent-decoding) is NOT proved here: that is what the
bounded stand-ins of contracts/c16.py enumerate.
"""
import z3
from pyvc.values import *   # noqa
from pyvc.registry import MAY
from contracts.util import lg, lg_result, evs, count, B, Ev

MSGK = 'aiocoap.message:Message'
OSTR = Opt(STR)


def UF(name, *sorts):
    return z3.Function(name, *sorts)


def S(v):
    """the string inside an optional string (spec functions are applied where the option is known to be set)"""
    return v.some() if isinstance(v, VOpt) else v


def register(reg, prog):
    P = ['C16']
    MSG = Ref('Message')
    reg.assume('A-URLLIB: urllib.parse.urlparse / SplitResult / unquote / urlunparse, str.split / count / translate / startswith / '
               'endswith / "%" formatting and ipaddress.ip_address are deterministic functions of their arguments that raise at most the '
               'exception classes their documentation names (ValueError; UnicodeError for unquote(errors="strict")); what they compute is '
               'uninterpreted (enumerated by the bounded stand-ins of C16)')
    reg.declare_class('ParsedI', 'urllib.parse:ParseResult', opaque=True, fields={
        'scheme': STR, 'netloc': STR, 'path': STR, 'query': STR, 'fragment': STR,
        'hostname': OSTR, 'username': OSTR, 'password': OSTR, 'gh_src': STR, 'gh_kind': INT})
    SOPT = sort_of(OSTR)
    if not hasattr(reg, 'global_values'):
        reg.global_values = {}

    def schemes(ex, st):
        import aiocoap.message
        reg.assume('T-EXT: aiocoap.message.coap_schemes as defined at import time (read from the live module; a module-level list nobody mutates)')
        return VTuple([str_lit(x) for x in aiocoap.message.coap_schemes])
    reg.global_values['aiocoap.message:coap_schemes'] = schemes

    def parsed_obj(ex, st, src, kind):
        p = ex.new_object(st, 'ParsedI')
        pre = 'up_' if kind == 0 else 'sr_'
        for f in ('scheme', 'netloc', 'path', 'query', 'fragment'):
            ex.write_field(st, p, f, STR, VStr(UF(pre + f, StrS, StrS)(src.t)))
        for f in ('hostname', 'username', 'password'):
            ex.write_field(st, p, f, OSTR, from_term(OSTR, UF(pre + f, StrS, SOPT)(src.t)))
        ex.write_field(st, p, 'gh_src', STR, src)
        ex.write_field(st, p, 'gh_kind', INT, VInt(kind))
        return p

    def urlparse(ex, st, args, kw, node):
        uri = args[0]
        if not isinstance(uri, VStr):
            ex.unsupported(node, 'urlparse of a non-string')
        ok, bad = ex.guard(st, UF('up_ok', StrS, Bo)(uri.t), 'builtins:ValueError')
        out = []
        if ok is not None:
            out.append((ok, parsed_obj(ex, ok, uri, 0)))
        if bad is not None:
            out.append((bad, None))
        return out
    reg.externals['urllib.parse.urlparse'] = urlparse

    def port_attr(ex, st, base, node):
        src = ex.read_field(st, base, 'gh_src', STR)
        ok, bad = ex.guard(st, UF('port_ok', StrS, Bo)(src.t), 'builtins:ValueError')
        out = []
        if ok is not None:
            out.append((ok, from_term(Opt(INT), UF('port_of', StrS, sort_of(Opt(INT)))(src.t))))
        if bad is not None:
            out.append((bad, None))
        return out
    reg.externals['attr:ParsedI.port'] = port_attr

    for nm in ('up_scheme', 'up_netloc', 'up_path', 'up_query', 'up_fragment'):
        reg.specfuncs[nm] = (lambda nm: lambda ex, st, s: VStr(UF(nm, StrS, StrS)(s.t)))(nm)
    for nm in ('up_hostname', 'up_username', 'up_password'):
        reg.specfuncs[nm] = (lambda nm: lambda ex, st, s: from_term(OSTR, UF(nm, StrS, SOPT)(s.t)))(nm)
    reg.specfuncs['up_ok'] = lambda ex, st, s: VBool(UF('up_ok', StrS, Bo)(s.t))
    reg.specfuncs['port_ok'] = lambda ex, st, s: VBool(UF('port_ok', StrS, Bo)(s.t))

    def unquote(ex, st, args, kw, node):
        s = args[0]
        if isinstance(s, VOpt):
            out = []
            for s2, inner in ex.force(st, s, node, 'builtins:TypeError'):
                out.extend([(s2, None)] if s2.exc is not None else unquote(ex, s2, [inner], kw, node))
            return out
        strict = isinstance(kw.get('errors'), VStr) and kw['errors'].lit == 'strict'
        val = VStr(UF('pct_decode', StrS, StrS)(s.t))
        if not strict:
            return [(st, val)]
        ok, bad = ex.guard(st, UF('pct_utf8_ok', StrS, Bo)(s.t), 'builtins:UnicodeDecodeError')
        out = []
        if ok is not None:
            out.append((ok, val))
        if bad is not None:
            out.append((bad, None))
        return out
    reg.externals['urllib.parse.unquote'] = unquote
    reg.specfuncs['pct_decode'] = lambda ex, st, s: VStr(UF('pct_decode', StrS, StrS)(S(s).t))
    reg.specfuncs['pct_utf8_ok'] = lambda ex, st, s: VBool(UF('pct_utf8_ok', StrS, Bo)(S(s).t))

    SEQS = sort_of(Seq(STR))

    def split(ex, st, args, kw, node):
        s, sep = args[0], args[1]
        r = VSeq.from_term(Seq(STR), UF('str_split', StrS, StrS, SEQS)(s.t, sep.t))
        st.fact(r.len >= 1)
        return [(st, r)]
    reg.externals['str.split'] = split
    reg.specfuncs['str_split'] = lambda ex, st, s, sep: VSeq.from_term(Seq(STR), UF('str_split', StrS, StrS, SEQS)(s.t, sep.t))

    # ------------------------------------------------------------------ Message.set_request_uri (RFC 7252 6.4)
    def new_undecided(ex, st, args, kw, node):
        scheme, hostinfo = args[0], args[1]
        for k, a in enumerate((scheme, hostinfo)):
            if isinstance(a, VOpt):
                # UndecidedRemote(scheme, None) is the one-argument URI form; not used by the code under contract
                out = []
                for s2, inner in ex.force(st, a, node, 'builtins:ValueError'):
                    out.extend([(s2, None)] if s2.exc is not None else new_undecided(ex, s2, [inner if k == 0 else scheme, inner if k == 1 else hostinfo], kw, node))
                return out
        ok, bad = ex.guard(st, UF('remote_ok', StrS, StrS, Bo)(scheme.t, hostinfo.t), 'builtins:ValueError')
        out = []
        if ok is not None:
            r = ex.new_object(ok, 'Remote')
            ok.log.append(('undecided_remote', r, scheme, hostinfo))
            out.append((ok, r))
        if bad is not None:
            out.append((bad, None))
        return out
    reg.externals['new:aiocoap.message:UndecidedRemote'] = new_undecided
    reg.specfuncs['remote_ok'] = lambda ex, st, a, b: VBool(UF('remote_ok', StrS, StrS, Bo)(a.t, b.t))

    def sru_exit(ex, s, entry, env, result):
        ev = Ev(ex, s, entry, env)
        rem = evs(s, 'undecided_remote')
        coap = ev('up_scheme(uri) in coap_schemes')
        g = [('a-coap-uri-sets-the-remote-exactly-once', z3.Implies(coap, B(len(rem) == 1))),
             ('another-scheme-sets-no-remote', z3.Implies(z3.Not(coap), B(len(rem) == 0)))]
        for r in rem:
            g.append(('the-remote-is-built-from-the-scheme-and-the-whole-authority-so-the-port-stays-with-the-destination',
                      ev('self.remote is r and sch == up_scheme(uri) and hi == up_netloc(uri)', r=r[1], sch=r[2], hi=r[3])))
        return g

    PATHSEGS = 'str_split(up_path(uri), "/")'
    QSEGS = 'str_split(up_query(uri), "&")'
    COAP = '(up_ok(uri) and up_fragment(uri) == "" and up_scheme(uri) != "" and up_scheme(uri) in coap_schemes)'
    reg.contract(MSGK + '.set_request_uri', self_class='Message', params={'uri': STR, 'set_uri_host': BOOL}, properties=P, only_raises=True,
                 raises={'IncompleteUrlError': 'up_ok(uri) and up_fragment(uri) == "" and up_scheme(uri) == ""',
                         'MalformedUrlError': MAY},
                 ensures={
                     'accepted-text-parses-has-a-scheme-and-no-fragment': 'up_ok(uri) and up_fragment(uri) == "" and up_scheme(uri) != ""',
                     'another-scheme-becomes-proxy-uri': 'implies(up_scheme(uri) not in coap_schemes, self.opt.proxy_uri == uri)',
                     'another-scheme-touches-no-uri-option': 'implies(up_scheme(uri) not in coap_schemes, self.opt.uri_path == old(self.opt.uri_path) and self.opt.uri_query == old(self.opt.uri_query) '
                                                             'and self.opt.uri_host == old(self.opt.uri_host) and self.opt.uri_port == old(self.opt.uri_port) and self.remote is old(self.remote))',
                     'a-coap-uri-has-a-host-and-no-user-info': 'implies(%s, up_hostname(uri) is not None and up_hostname(uri) != "" and not up_username(uri) and not up_password(uri))' % COAP,
                     'a-coap-uri-has-a-numeric-port-and-a-usable-authority': 'implies(%s, port_ok(uri) and remote_ok(up_scheme(uri), up_netloc(uri)))' % COAP,
                     'a-coap-uri-leaves-proxy-uri-alone': 'implies(%s, self.opt.proxy_uri == old(self.opt.proxy_uri))' % COAP,
                     'uri-path-is-the-decoded-segments-after-the-leading-slash': 'implies(%s and up_path(uri) != "" and up_path(uri) != "/", len(self.opt.uri_path) == len(%s) - 1 and '
                                                                                 'forall(i, 0, len(self.opt.uri_path), pct_utf8_ok(%s[i + 1]) and self.opt.uri_path[i] == pct_decode(%s[i + 1])))' % (COAP, PATHSEGS, PATHSEGS, PATHSEGS),
                     'no-path-no-uri-path': 'implies(%s and (up_path(uri) == "" or up_path(uri) == "/"), len(self.opt.uri_path) == 0)' % COAP,
                     'uri-query-is-the-decoded-ampersand-separated-arguments': 'implies(%s and up_query(uri) != "", len(self.opt.uri_query) == len(%s) and '
                                                                               'forall(i, 0, len(self.opt.uri_query), pct_utf8_ok(%s[i]) and self.opt.uri_query[i] == pct_decode(%s[i])))' % (COAP, QSEGS, QSEGS, QSEGS),
                     'no-query-no-uri-query': 'implies(%s and up_query(uri) == "", len(self.opt.uri_query) == 0)' % COAP,
                     'uri-port-is-not-set-by-the-uri': 'self.opt.uri_port == old(self.opt.uri_port)',
                     'a-bracketed-ip-literal-clears-uri-host': 'implies(%s and set_uri_host and str_startswith(up_netloc(uri), "["), self.opt.uri_host is None)' % COAP,
                     'uri-host-is-absent-or-the-lower-cased-decoded-host': 'implies(%s and set_uri_host, self.opt.uri_host is None or (pct_utf8_ok(up_hostname(uri)) and '
                                                                           'self.opt.uri_host == ascii_lower(pct_decode(up_hostname(uri)))))' % COAP,
                     'a-host-that-is-no-dotted-quad-and-not-bracketed-is-a-name': 'implies(%s and set_uri_host and not str_startswith(up_netloc(uri), "[") and str_count(up_hostname(uri), ".") != 3, '
                                                                                  'self.opt.uri_host == ascii_lower(pct_decode(up_hostname(uri))))' % COAP,
                     'without-set-uri-host-the-option-is-left-alone': 'implies(%s and not set_uri_host, self.opt.uri_host == old(self.opt.uri_host))' % COAP,
                 },
                 at_exit=sru_exit,
                 modifies=['self.remote', 'self.opt.uri_path', 'self.opt.uri_query', 'self.opt.uri_host', 'self.opt.proxy_uri'],
                 hints={'exact_map': True})

    # ------------------------------------------------------------------ str methods the conversion uses (A-URLLIB: uninterpreted)
    def strfun(name, res, nargs):
        def h(ex, st, args, kw, node):
            if len(args) != nargs or kw or not all(isinstance(a, VStr) for a in args):
                ex.unsupported(node, 'str method %s with these arguments' % name)
            sorts = [StrS] * nargs + [Bo if res == 'bool' else I if res == 'int' else StrS]
            t = UF(name, *sorts)(*[a.t for a in args])
            if res == 'bool':
                return [(st, VBool(t))]
            if res == 'int':
                st.fact(t >= 0)
                return [(st, VInt(t))]
            return [(st, VStr(t))]
        return h
    reg.externals['str.count'] = strfun('str_count', 'int', 2)
    reg.externals['str.startswith'] = strfun('str_startswith', 'bool', 2)
    reg.externals['str.endswith'] = strfun('str_endswith', 'bool', 2)
    reg.specfuncs['str_startswith'] = lambda ex, st, a, b: VBool(UF('str_startswith', StrS, StrS, Bo)(S(a).t, b.t))
    reg.specfuncs['str_count'] = lambda ex, st, a, b: VInt(UF('str_count', StrS, StrS, I)(S(a).t, b.t))
    reg.specfuncs['str_endswith'] = lambda ex, st, a, b: VBool(UF('str_endswith', StrS, StrS, Bo)(a.t, b.t))
    reg.specfuncs['str_has'] = lambda ex, st, a, b: VBool(UF('str_contains', StrS, StrS, Bo)(a.t, b.t))

    def translate(ex, st, args, kw, node):
        import string
        import aiocoap.message
        if aiocoap.message._ascii_lowercase != str.maketrans(string.ascii_uppercase, string.ascii_lowercase):
            ex.unsupported(node, 'aiocoap.message._ascii_lowercase is not the A-Z -> a-z table')
        reg.assume('T-EXT: aiocoap.message._ascii_lowercase is the translation table A-Z -> a-z (compared with str.maketrans on the live module at every run)')
        return [(st, VStr(UF('ascii_lower', StrS, StrS)(args[0].t)))]
    reg.externals['str.translate'] = translate
    reg.global_values['aiocoap.message:_ascii_lowercase'] = lambda ex, st: VNone()
    reg.specfuncs['ascii_lower'] = lambda ex, st, a: VStr(UF('ascii_lower', StrS, StrS)(a.t))

    # ------------------------------------------------------------------ hostportjoin / hostportsplit (aiocoap/util/__init__.py)
    def fmt_mod(ex, st, args, kw, node):
        """text % args for a literal format: an uninterpreted function per format text (deterministic in its arguments)"""
        return None
    HPJ = 'aiocoap.util:hostportjoin'
    reg.specfuncs['fmt_bracket'] = lambda ex, st, h: VStr(UF('fmt:[%s]', StrS, StrS)(S(h).t))
    reg.specfuncs['fmt_hostport'] = lambda ex, st, h, p: VStr(UF('fmt:%s:%d', StrS, I, StrS)(S(h).t, (p.some() if isinstance(p, VOpt) else p).t))
    reg.contract(HPJ, params={'host': STR, 'port': Opt(INT)}, result=STR, properties=P, only_raises=True, modifies=[],
                 ensures={
                     'a-name-ipv4-or-bracketed-literal-is-kept-as-it-is': 'implies((not str_has(host, ":") or (str_startswith(host, "[") and str_endswith(host, "]"))) and port is None, result == host)',
                     'an-unbracketed-host-with-a-colon-is-bracketed': 'implies(str_has(host, ":") and not (str_startswith(host, "[") and str_endswith(host, "]")) and port is None, result == fmt_bracket(host))',
                     'the-port-is-appended-exactly-when-given': 'implies(port is not None, result == fmt_hostport(host if (not str_has(host, ":") or (str_startswith(host, "[") and str_endswith(host, "]"))) else fmt_bracket(host), port))',
                 })

    def split_result(ex, st, args, kw, node):
        """urllib.parse.SplitResult(None, hostport, None, None, None): only hostname and port are read from it"""
        if len(args) != 5 or not isinstance(args[1], VStr):
            ex.unsupported(node, 'SplitResult(...) in another shape')
        return [(st, parsed_obj(ex, st, args[1], 1))]
    reg.externals['urllib.parse.SplitResult'] = split_result
    reg.externals['new:urllib.parse:SplitResult'] = split_result
    reg.specfuncs['sr_hostname'] = lambda ex, st, s: from_term(OSTR, UF('sr_hostname', StrS, SOPT)(s.t))
    reg.specfuncs['port_of'] = lambda ex, st, s: from_term(Opt(INT), UF('port_of', StrS, sort_of(Opt(INT)))(s.t))
    reg.contract('aiocoap.util:hostportsplit', params={'hostport': STR}, result=Tuple(OSTR, Opt(INT)), properties=P, only_raises=True, modifies=[],
                 raises={'ValueError': 'not port_ok(hostport)'},
                 ensures={'host-and-port-of-the-authority': 'result[0] == sr_hostname(hostport) and result[1] == port_of(hostport)'})

    # ------------------------------------------------------------------ Message.get_request_uri (RFC 7252 6.5), requests
    reg.absent_as_none = set(getattr(reg, 'absent_as_none', ())) | {'_original_request_path'}

    def remote_str_attr(name, opt=False):
        def h(ex, st, base, node):
            f = UF('remote_' + name, I, StrS)
            return [(st, VStr(f(base.t)))]
        return h
    for nm in ('scheme', 'hostinfo', 'hostinfo_local'):
        reg.externals['attr:Remote.' + nm] = remote_str_attr(nm)
        reg.specfuncs['remote_' + nm] = (lambda nm: lambda ex, st, r: VStr(UF('remote_' + nm, I, StrS)((r.some() if isinstance(r, VOpt) else r).t)))(nm)
    reg.assume('A-REMOTEATTR: scheme, hostinfo and hostinfo_local of an endpoint address are strings determined by the address (an '
               'UndecidedRemote raises RuntimeError for hostinfo_local: requests that were received have a transport address)')

    def quoter(name):
        def h(ex, st, args, kw, node):
            if len(args) != 1 or not isinstance(args[0], VStr):
                ex.unsupported(node, '%s of a non-string' % name)
            return [(st, VStr(UF(name, StrS, StrS)(args[0].t)))]
        return h
    for g, nm in (('_quote_for_path', 'quote_path'), ('_quote_for_query', 'quote_query')):
        reg.externals['c16.' + nm] = quoter(nm)
        reg.global_values['aiocoap.message:' + g] = (lambda nm: lambda ex, st: VFunc('ext', name='c16.' + nm, bound=None))(nm)
        reg.specfuncs[nm] = (lambda nm: lambda ex, st, s: VStr(UF(nm, StrS, StrS)(S(s).t)))(nm)
    reg.externals['repo:aiocoap.util:quote_nonascii'] = quoter('quote_nonascii')
    reg.specfuncs['quote_nonascii'] = lambda ex, st, s: VStr(UF('quote_nonascii', StrS, StrS)(S(s).t))
    reg.assume('A-QUOTE: the module-level quoting functions _quote_for_path / _quote_for_query (closures made by quote_factory at import time) and '
               'quote_nonascii are functions of their argument; what they compute per character is enumerated exhaustively by C16/per-character-quoting')

    def urlunparse(ex, st, args, kw, node):
        t = args[0]
        if not (isinstance(t, VTuple) and len(t.items) == 6):
            ex.unsupported(node, 'urlunparse of something other than a 6-tuple')
        st.log.append(('urlunparse',) + tuple(t.items))
        sc, nl, pa, pr, qu, fr = t.items
        if not (isinstance(pr, VStr) and pr.lit == '' and isinstance(fr, VNone)):
            ex.unsupported(node, 'urlunparse with params or a fragment')
        return [(st, VStr(UF('urlunparse', StrS, StrS, StrS, StrS, StrS)(S(sc).t, S(nl).t, pa.t, qu.t)))]
    reg.externals['urllib.parse.urlunparse'] = urlunparse

    def gru_exit(ex, s, entry, env, result):
        ev = Ev(ex, s, entry, env)
        if isinstance(result, VOpt):
            result = result.some()
        un = evs(s, 'urlunparse')
        joins = evs(s, 'join')
        proxy = ev('old(self.opt.proxy_uri) is not None')
        g = [('composed-once', z3.Implies(z3.Not(proxy), B(len(un) == 1 and len(joins) == 2)))]
        if len(un) == 1 and len(joins) == 2:
            (_, sc, nl, pa, pr, qu, fr), (_, qsep, qseq, qres), (_, psep, pseq, pres) = un[0], joins[0], joins[1]
            PATH = '(self._original_request_path if self._original_request_path is not None else self.opt.uri_path)'
            g += [
                ('scheme-is-proxy-scheme-or-the-remote-scheme', ev('sc == (self.opt.proxy_scheme if self.opt.proxy_scheme else remote_scheme(self.remote))', sc=sc)),
                ('query-arguments-are-quoted-one-by-one-and-joined-with-ampersands', ev('qsep == "&" and len(qseq) == len(self.opt.uri_query) and forall(i, 0, len(qseq), qseq[i] == quote_query(self.opt.uri_query[i])) and qu == qres', qsep=qsep, qseq=qseq, qu=qu, qres=qres)),
                ('every-path-segment-is-quoted-and-prefixed-with-a-slash', ev('psep == "" and len(pseq) == len(%s) and forall(i, 0, len(pseq), pseq[i] == "/" + quote_path(%s[i]))' % (PATH, PATH), psep=psep, pseq=pseq)),
                ('an-empty-path-is-a-single-slash', ev('pa == (pres if pres != "" else "/")', pa=pa, pres=pres)),
                ('without-uri-host-and-uri-port-the-authority-is-the-destination', ev('implies(self.opt.uri_host is None and self.opt.uri_port is None, nl == (remote_hostinfo_local(self.remote) if incoming else remote_hostinfo(self.remote)))', nl=nl, incoming=VBool(ev('self.direction == Direction.INCOMING')))),
            ]
        sp, jo = evs(s, 'hostportsplit'), evs(s, 'hostportjoin')
        over = ev('old(self.opt.proxy_uri) is None and (self.opt.uri_host is not None or self.opt.uri_port is not None)')
        g.append(('uri-host-or-uri-port-recompose-the-authority-once', z3.Implies(over, B(len(sp) == 1 and len(jo) == 1))))
        g.append(('the-authority-is-only-recomposed-for-uri-host-or-uri-port', z3.Implies(z3.Not(over), B(len(sp) == 0 and len(jo) == 0))))
        if len(sp) == 1 and len(jo) == 1 and len(un) == 1:
            (_, hp, spres), (_, jh, jp, jres) = sp[0], jo[0]
            g += [
                ('the-destination-authority-is-what-is-split', ev('hp == (remote_hostinfo_local(self.remote) if incoming else remote_hostinfo(self.remote))', hp=hp, incoming=VBool(ev('self.direction == Direction.INCOMING')))),
                ('uri-host-overrides-the-destination-host', ev('jh == quote_nonascii(self.opt.uri_host if self.opt.uri_host else sres[0])', jh=jh, sres=spres)),
                ('uri-port-overrides-the-destination-port', ev('jp == (self.opt.uri_port if self.opt.uri_port else sres[1])', jp=jp, sres=spres)),
                ('the-recomposed-authority-is-used', ev('nl == jres', nl=un[0][2], jres=jres)),
            ]
        return g

    reg.contracts[HPJ].ghost = lg_result('hostportjoin', 'host', 'port')
    reg.contracts['aiocoap.util:hostportsplit'].ghost = lg_result('hostportsplit', 'hostport')
    reg.contract(MSGK + '.get_request_uri', self_class='Message', params={'local_is_server': Opt(BOOL)}, result=STR, properties=P,
                 requires=['local_is_server is None', 'self.code is not None and 1 <= self.code and self.code < 32', 'self.remote is not None',
                           'self.opt.uri_path_abbrev is None'],
                 raises={'ValueError': MAY, 'AttributeError': MAY, 'TypeError': MAY},
                 ensures={'proxy-uri-is-the-uri': 'implies(self.opt.proxy_uri is not None, result == self.opt.proxy_uri)'},
                 at_exit=gru_exit, modifies=[], hints={'exact_map': True})
