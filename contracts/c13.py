"""C13 -- OSCORE sender sequence numbers across restarts and crashes (aiocoap/oscore.py, AST only)"""
import z3
from pyvc.values import *   # noqa
from pyvc.registry import MAY
from contracts.util import lg, lg_result, evs, count, B, Ev

FSC = 'aiocoap.oscore:FilesystemSecurityContext'
CP = 'aiocoap.oscore:CanProtect'


def register(reg, prog):
    P = ['C13']
    reg.declare_class('FSContext', FSC, fields={
        'sender_sequence_number': INT, 'sequence_number_persisted': INT, 'sequence_number_chunksize': INT,
        'sequence_number_chunksize_limit': INT, 'replay_window_persisted': BOOL, 'recipient_replay_window': Ref('ReplayWindow'),
        'basedir': STR,
        # ghost: content of sequence.json on disk, and the largest number handed out so far (-1: none)
        'gh_disk_next': INT, 'gh_disk_unknown': BOOL, 'gh_issued_max': INT})
    reg.assume('A-FS: process-crash model: mkstemp/write/flush/fsync touch only the temporary file; os.replace(tmp, target) '
               'atomically switches the target to the temporary file\'s content; a crash may happen after any statement')
    INV = ('self.gh_issued_max < self.sender_sequence_number and self.sender_sequence_number <= self.sequence_number_persisted '
           'and self.sequence_number_persisted == self.gh_disk_next and self.sequence_number_chunksize >= 1 '
           'and self.sequence_number_chunksize_limit >= 1 and self.gh_issued_max >= -1')
    CRASH = 'self.gh_issued_max < self.gh_disk_next'      # every number handed out so far is below the persisted next-to-send

    # ---- file system (ghost disk)
    def crash_point(ex, st, what):
        """after every statement with an external effect the crash invariant must hold"""
        selfv, _ = st.lookup('self')
        if selfv is None or getattr(selfv, 'cls', None) != 'FSContext':
            return
        issued = ex.read_field(st, selfv, 'gh_issued_max', INT).t
        disk = ex.read_field(st, selfv, 'gh_disk_next', INT).t
        ex.check(st, issued < disk, '%s/crash-invariant-after[%s]' % (ex.cur_contract.target, what), note=CRASH)

    def mkstemp(ex, st, args, kw, node):
        h = VInt(z3.Int(fresh_name('fd')))
        nm = VStr(fresh(STR, 'tmpname'))
        st.log.append(('fs', 'mkstemp', nm))
        crash_point(ex, st, 'mkstemp')
        return [(st, VTuple([h, nm]))]
    reg.externals['tempfile.mkstemp'] = mkstemp

    reg.declare_class('TmpFileI', 'io:BufferedWriter', opaque=True, fields={'gh_content': ANY})

    def io_open(ex, st, args, kw, node):
        f = ex.new_object(st, 'TmpFileI')
        return [(st, f)]
    reg.externals['io.open'] = io_open
    reg.externals['_io.open'] = io_open

    def f_write(ex, st, args, kw, node):
        f, data = args
        rec = getattr(data, 'rec', None)
        st.ghost['$tmp_content'] = rec
        st.log.append(('fs', 'write', rec))
        crash_point(ex, st, 'write')
        return [(st, VNone())]
    reg.externals['TmpFileI.write'] = f_write
    reg.externals['TmpFileI.flush'] = lambda ex, st, args, kw, node: (crash_point(ex, st, 'flush'), [(st, VNone())])[1]
    reg.externals['TmpFileI.fileno'] = lambda ex, st, args, kw, node: [(st, VInt(z3.Int(fresh_name('fd'))))]
    reg.externals['os.fsync'] = lambda ex, st, args, kw, node: (crash_point(ex, st, 'fsync'), [(st, VNone())])[1]
    reg.externals['posix.fsync'] = reg.externals['os.fsync']
    reg.externals['os.path.join'] = lambda ex, st, args, kw, node: [(st, VStr(fresh(STR, 'joined')))]
    reg.externals['posixpath.join'] = reg.externals['os.path.join']

    def json_dumps(ex, st, args, kw, node):
        r = VStr(fresh(STR, 'json'))
        r.rec = args[0] if isinstance(args[0], VRec) else None
        return [(st, r)]
    reg.externals['json.dumps'] = json_dumps
    enc0 = reg.externals['str.encode']

    def encode(ex, st, args, kw, node):
        res = enc0(ex, st, args, kw, node)
        for s, v in res:
            if v is not None and hasattr(args[0], 'rec'):
                v.rec = args[0].rec
        return res
    reg.externals['str.encode'] = encode

    def os_replace(ex, st, args, kw, node):
        """atomic switch of sequence.json to what was written to the temporary file"""
        rec = st.ghost.get('$tmp_content')
        selfv, _ = st.lookup('self')
        if rec is None or selfv is None:
            ex.unsupported(node, 'os.replace of a file whose content is not known')
        nxt = rec.fields.get('next-to-send')
        recv = rec.fields.get('received')
        ex.write_field(st, selfv, 'gh_disk_next', INT, nxt)
        unknown = isinstance(recv, VStr) and recv.lit == 'unknown'
        ex.write_field(st, selfv, 'gh_disk_unknown', BOOL, VBool(unknown))
        st.log.append(('fs', 'replace', nxt, recv))
        crash_point(ex, st, 'replace')
        return [(st, VNone())]
    reg.externals['os.replace'] = os_replace
    reg.externals['posix.replace'] = os_replace
    reg.externals['ReplayWindow.persist'] = None
    reg.contract('aiocoap.oscore:ReplayWindow.persist', result=ANY, verify=False, properties=P,
                 trusted_reason='returns a dict of the two integer fields (JSON round trip of ints assumed)')

    # ---- _store
    def store_exit(ex, s, entry, env, result):
        reps = [e for e in evs(s, 'fs') if e[1] == 'replace']
        g = [('exactly-one-atomic-replace', B(len(reps) == 1)),
             ('replace-is-the-last-file-system-effect', B(bool(reps) and s.log and [e for e in s.log if e[0] == 'fs'][-1] is reps[-1]))]
        return g

    reg.contract(FSC + '._store', self_class='FSContext', properties=P, only_raises=True,
                 requires=[CRASH, 'self.gh_issued_max < self.sequence_number_persisted'],
                 modifies=['self.gh_disk_next', 'self.gh_disk_unknown'], at_exit=store_exit,
                 ensures={'disk-holds-the-persisted-bound': 'self.gh_disk_next == self.sequence_number_persisted',
                          'received-unknown-iff-window-not-persisted': 'self.gh_disk_unknown == (not self.replay_window_persisted)'},
                 ghost=lg('store', 'self'))

    # ---- post_seqnoincrease
    reg.contract(FSC + '.post_seqnoincrease', self_class='FSContext', properties=P, raises={'AssertionError': MAY}, only_raises=True,
                 requires=['self.gh_issued_max < self.sender_sequence_number - 1 or self.gh_issued_max < self.sequence_number_persisted',
                           'self.gh_issued_max < self.gh_disk_next', 'self.gh_issued_max >= -1',
                           'self.sender_sequence_number <= self.sequence_number_persisted + 1', 'self.sequence_number_persisted == self.gh_disk_next',
                           'self.sequence_number_chunksize >= 1', 'self.sequence_number_chunksize_limit >= 1'],
                 modifies=['self.sequence_number_persisted', 'self.sequence_number_chunksize', 'self.gh_disk_next', 'self.gh_disk_unknown'],
                 raises_post={'AssertionError': {'unreachable': 'False'}},
                 ensures={'number-is-covered': 'self.sender_sequence_number <= self.sequence_number_persisted',
                          'disk-in-step': 'self.sequence_number_persisted == self.gh_disk_next',
                          'bound-only-grows': 'self.sequence_number_persisted >= old(self.sequence_number_persisted)',
                          'chunk-doubles-up-to-limit': 'self.sequence_number_chunksize == old(self.sequence_number_chunksize) or self.sequence_number_chunksize == min(2 * old(self.sequence_number_chunksize), self.sequence_number_chunksize_limit)',
                          'chunk-positive': 'self.sequence_number_chunksize >= 1'},
                 at_exit=lambda ex, s, entry, env, result: [
                     ('stored-iff-bound-grew', B(len(evs(s, 'store')) == 1) == ex.truth(s, ex.spec_val(s, 'self.sequence_number_persisted > old(self.sequence_number_persisted)', env=env, old_st=entry)))])

    # ---- new_sequence_number (CanProtect, with self a file-backed context)
    reg.contract(CP + '.new_sequence_number', self_class='FSContext', result=INT, properties=P,
                 requires=[INV],
                 raises={'ContextUnavailable': 'self.sender_sequence_number >= 2**40 - 1', 'AssertionError': MAY}, only_raises=True,
                 raises_post={'ContextUnavailable': {'nothing-issued-state-unchanged': 'self.sender_sequence_number == old(self.sender_sequence_number) and self.gh_disk_next == old(self.gh_disk_next)'},
                              'AssertionError': {'unreachable': 'False'}},
                 modifies=['self.sender_sequence_number', 'self.sequence_number_persisted', 'self.sequence_number_chunksize', 'self.gh_disk_next', 'self.gh_disk_unknown'],
                 ensures={'returns-the-old-counter': 'result == old(self.sender_sequence_number)',
                          'strictly-increasing': 'result > self.gh_issued_max and self.sender_sequence_number == result + 1',
                          'persisted-before-use': 'result < self.gh_disk_next',
                          'never-wraps': 'result < 2**40 - 1',
                          'invariant-with-this-number-issued': 'result < self.sender_sequence_number and self.sender_sequence_number <= self.sequence_number_persisted and self.sequence_number_persisted == self.gh_disk_next'},
                 ghost=lg_result('new_seqno', 'self'))

    # ---- replay state: first strike-out after loading marks the persisted window unknown before returning
    reg.contract(FSC + '._replay_window_changed', self_class='FSContext', properties=P + ['C12'], only_raises=True,     # C12: 'state lost' is what the disk says after a crash
                 requires=[CRASH, 'self.gh_issued_max < self.sequence_number_persisted',
                           'implies(not self.replay_window_persisted, self.gh_disk_unknown)'],
                 modifies=['self.replay_window_persisted', 'self.gh_disk_next', 'self.gh_disk_unknown'],
                 ensures={'disk-says-unknown-before-any-acceptance-is-reported': 'self.gh_disk_unknown and not self.replay_window_persisted'})


def bounded(tier, seed):
    # the driver runs under python3-vt, where aiocoap.oscore imports with the functional stand-ins of specs/oscore_standins.py
    from specs.c13_history import bounded as b
    return b(tier, seed)
