"""C05 -- block-wise client: block arithmetic, message block helpers, the BlockwiseRequest loops"""
import z3
from pyvc.values import *   # noqa
from pyvc.registry import MAY
from contracts.util import lg, lg_result, evs, count, B, Ev
from contracts.common import BLOCKTUPLE

BT = 'aiocoap.optiontypes:BlockOption.BlockwiseTuple'
MSGK = 'aiocoap.message:Message'


def register(reg, prog):
    reg.python_specs(prog, 'specs.rfc7959')
    P = ['C05']
    MSG = Ref('Message')
    TUP = {'self': BLOCKTUPLE}
    WF = ['self[0] >= 0', '0 <= self[2] <= 7']

    reg.contract(BT + '.size', params=TUP, result=INT, properties=P + ['C06'], requires=WF, only_raises=True,
                 ensures={'rfc7959': 'result == bsize(self[2])'})
    reg.contract(BT + '.start', params=TUP, result=INT, properties=P + ['C06'], requires=WF, only_raises=True,
                 ensures={'offset': 'result == self[0] * bsize(self[2])'})
    reg.contract(BT + '.is_valid_for_payload_size', params=dict(TUP, payloadsize=INT), result=BOOL, properties=P, requires=WF + ['payloadsize >= 0'],
                 only_raises=True, ensures={'rfc7959-2.2': 'result == valid_block_payload(self[1], self[2], payloadsize)'})
    reg.contract(BT + '.reduced_to', params=dict(TUP, maximum_exponent=INT), result=BLOCKTUPLE, properties=P,
                 requires=WF + ['0 <= maximum_exponent <= 7'], only_raises=True,
                 ensures={'exponent-never-grows': 'result[2] == (self[2] if maximum_exponent >= self[2] else maximum_exponent)',
                          'offset-kept': 'result[0] * bsize(result[2]) == self[0] * bsize(self[2])',
                          'more-kept': 'result[1] == self[1]'})

    # ------------------------------------------------ Message block helpers
    XB_ENS = {
        'exact-slice': 'result.payload == self.payload[(number * bsize(size_exp)):(number * bsize(size_exp)) + (bsize(size_exp) if size_exp != 7 else 1024 * (max_bert_size // 1024))]',
        'more-iff-bytes-remain': '(result.opt.block1 if 1 <= self.code < 32 else result.opt.block2)[1] == ((number * bsize(size_exp)) + (bsize(size_exp) if size_exp != 7 else 1024 * (max_bert_size // 1024)) < len(self.payload))',
        'number-and-exponent': '(result.opt.block1 if 1 <= self.code < 32 else result.opt.block2) is not None and (result.opt.block1 if 1 <= self.code < 32 else result.opt.block2)[0] == number and (result.opt.block1 if 1 <= self.code < 32 else result.opt.block2)[2] == size_exp',
        'block1-on-requests-block2-otherwise': '(result.opt.block1 is not None) == (1 <= self.code < 32 or self.opt.block1 is not None) and (result.opt.block2 is not None) == (not (1 <= self.code < 32) or self.opt.block2 is not None)',
        'mid-cleared': 'result.mid is None',
        'is-a-copy': 'result is not self and result.opt is not self.opt and result.code == self.code and result.token == self.token and result.remote is self.remote',
        'other-options-copied': 'result.opt.size1 == self.opt.size1 and result.opt.observe == self.opt.observe and result.opt.etag == self.opt.etag',
        'source-untouched': 'self.payload == old(self.payload)'}
    XB_ENS = {k: v % {'start': '(number * bsize(size_exp))', 'size': '(bsize(size_exp) if size_exp != 7 else 1024 * (max_bert_size // 1024))', 'opt': '(result.opt.block1 if 1 <= self.code < 32 else result.opt.block2)'} for k, v in XB_ENS.items()}

    reg.contract(MSGK + '._extract_block', params={'number': INT, 'size_exp': INT, 'max_bert_size': INT}, result=MSG, properties=P + ['C06', 'C19'],
                 requires=['number >= 0', '0 <= size_exp <= 7', 'max_bert_size >= 1024', 'self.code is not None'],
                 raises={'BadRequest': 'number * bsize(size_exp) >= len(self.payload)'}, only_raises=True, ensures=XB_ENS,
                 ghost=lg_result('extract_block', 'self', 'number', 'size_exp'))

    def arb_exit(ex, s, entry, env, result):
        ev = Ev(ex, s, entry, env)
        return [('appends-exactly-the-block', ev('self.payload == old(self.payload) + next_block.payload')),
                ('remembers-last-block-option', ev('self.opt.block2 == next_block.opt.block2'))]

    def arb_raise(cls):
        return {'body-unchanged': 'self.payload == old(self.payload)'}

    reg.contract(MSGK + '._append_response_block', params={'next_block': MSG}, properties=P, only_raises=True,
                 requires=['self.code is not None', 'next_block.opt.block2 is not None', 'next_block.opt.block2[0] >= 0', '0 <= next_block.opt.block2[2] <= 7',
                           'self is not next_block', 'self.opt is not next_block.opt'],
                 modifies=['self.payload', 'self.token', 'self.mid', 'self.opt.block2'],
                 raises={'ValueError': 'not (64 <= self.code < 192)',
                         'UnexpectedBlock2': '64 <= self.code < 192 and not valid_block_payload(next_block.opt.block2[1], next_block.opt.block2[2], len(next_block.payload))',
                         'NotImplemented': '64 <= self.code < 192 and valid_block_payload(next_block.opt.block2[1], next_block.opt.block2[2], len(next_block.payload)) and next_block.opt.block2[0] * bsize(next_block.opt.block2[2]) != len(self.payload)',
                         'ResourceChanged': '64 <= self.code < 192 and valid_block_payload(next_block.opt.block2[1], next_block.opt.block2[2], len(next_block.payload)) and next_block.opt.block2[0] * bsize(next_block.opt.block2[2]) == len(self.payload) and next_block.opt.etag != self.opt.etag'},
                 raises_post={k: arb_raise(k) for k in ('ValueError', 'UnexpectedBlock2', 'NotImplemented', 'ResourceChanged')},
                 ensures={'appends-exactly-the-block': 'self.payload == old(self.payload) + next_block.payload',
                          'remembers-last-block-option': 'self.opt.block2 == next_block.opt.block2'},
                 ghost=lg('append_response_block', 'self', 'next_block'))

    reg.contract(MSGK + '._generate_next_block2_request', params={'response': MSG}, result=MSG, properties=P,
                 requires=['response.opt.block2 is not None', 'response.remote is not None', '0 <= response.opt.block2[2] <= 7', 'response.opt.block2[0] >= 0',
                           '0 <= response.remote.maximum_block_size_exp <= 7',
                           'len(response.payload) % bsize(response.opt.block2[2]) == 0'],
                 raises={'AssertionError': MAY}, only_raises=True,
                 ensures={'asks-for-the-next-unreceived-block': 'result.opt.block2 is not None and result.opt.block2[0] * bsize(result.opt.block2[2]) == len(response.payload)',
                          'exponent-never-grows': 'result.opt.block2[2] <= response.opt.block2[2] and result.opt.block2[2] <= response.remote.maximum_block_size_exp',
                          'no-more-flag-no-payload': 'result.opt.block2[1] == False and len(result.payload) == 0',
                          'no-block1-no-observe': 'result.opt.block1 is None and result.opt.observe is None and result.mid is None',
                          'fresh-object': 'result is not self and result is not response and result.opt is not response.opt'},
                 ghost=lg_result('next_block2_request', 'self', 'response'))

    # ------------------------------------------------ BlockwiseRequest._run
    BR = 'aiocoap.protocol:BlockwiseRequest'
    reg.declare_class('ProtocolI', 'aiocoap.protocol:Context', opaque=True, fields={'loop': Ref('Loop')})
    reg.declare_class('RequestI', 'aiocoap.interfaces:Request', opaque=True,
                      fields={'response': Ref('FutureI'), 'observation': Opt(Ref('ObservationI')), 'observe': Opt(Ref('ObservationI'))})
    reg.declare_class('FutureI', 'asyncio:Future', opaque=True)
    reg.declare_class('ObservationI', 'aiocoap.protocol:ClientObservation', opaque=True, fields={'cancelled': BOOL})
    reg.declare_class('TaskI', 'asyncio:Task', opaque=True)

    def logger(kind, mk=None):
        def h(ex, st, args, kw, node):
            st.log.append((kind,) + tuple(args))
            return [(st, mk(ex, st) if mk else VNone())]
        return h
    reg.externals['ProtocolI.find_remote_and_interface'] = logger('find_remote')
    reg.externals['ProtocolI.request'] = logger('protocol_request', lambda ex, st: ex.new_object(st, 'RequestI'))
    reg.externals['FutureI.set_result'] = logger('set_result')
    reg.externals['FutureI.set_exception'] = logger('set_exception')
    reg.externals['FutureI.done'] = lambda ex, st, args, kw, node: [(st, VBool(z3.Bool(fresh_name('done'))))]
    reg.externals['ObservationI.cancel'] = logger('obs_cancel')
    reg.externals['ObservationI.error'] = logger('obs_error')
    reg.externals['ObservationI.callback'] = logger('obs_callback')
    reg.externals['ObservationI.on_cancel'] = logger('obs_on_cancel')
    reg.externals['Loop.create_future'] = logger('create_future', lambda ex, st: ex.new_object(st, 'FutureI'))
    reg.externals['asyncio.create_task'] = logger('create_task', lambda ex, st: ex.new_object(st, 'TaskI'))
    reg.externals['asyncio.tasks.create_task'] = reg.externals['asyncio.create_task']
    reg.externals['weakref.ref'] = logger('weakref', lambda ex, st: VFunc('opaque'))
    reg.externals['new:_weakref:ReferenceType'] = reg.externals['weakref.ref']
    reg.externals['new:weakref:ReferenceType'] = reg.externals['weakref.ref']

    RESP_WF = ['result.code is not None', '0 <= result.code <= 255', 'result.remote is not None',
               'implies(result.opt.block1 is not None, result.opt.block1[0] >= 0 and 0 <= result.opt.block1[2] <= 7)',
               'implies(result.opt.block2 is not None, result.opt.block2[0] >= 0 and 0 <= result.opt.block2[2] <= 7)',
               '0 <= result.remote.maximum_block_size_exp <= 7', 'result.remote.maximum_payload_size >= 1024',
               'result is not app_request', 'result.opt is not app_request.opt']

    def run_step(ex, s, snap):
        """an iteration of the Block1 loop that goes round again: the acknowledged block was the one sent, the cursor now
        points at the first byte not yet sent, and the size exponent did not grow"""
        new = s.log[len(snap.log):]
        sent = [e for e in new if e[0] == 'protocol_request']
        g = [('one-exchange-per-iteration', B(len(sent) == 1))]
        ev = lambda t, **kw: ex.truth(s, ex.spec_val(s, t, env=dict(ex.visible_env(s), **kw)))
        for e in sent:
            g.append(('sent-the-block-at-the-cursor', ev('m is current_block1', m=e[2])))
        g.append(('acknowledged-number-is-the-sent-one', ev('block1[0] == current_block1.opt.block1[0]')))
        g.append(('exponent-never-grows', ev('size_exp <= head(size_exp, 0)')))
        g.append(('exponent-follows-the-server', ev('size_exp == (block1[2] if block1[2] < head(size_exp, 0) else head(size_exp, 0))')))
        g.append(('offsets-contiguous(non-BERT)', ev('implies(head(size_exp, 0) <= 6, block_cursor * bsize(size_exp) == (head(block_cursor, 0) + 1) * bsize(head(size_exp, 0)))')))
        g.append(('offsets-contiguous(BERT)', ev('implies(head(size_exp, 0) == 7 and len(current_block1.payload) % 1024 == 0, block_cursor * bsize(size_exp) == (head(block_cursor, 0) + len(current_block1.payload) // 1024) * 1024)')))
        g.append(('not-after-the-last-block', ev('current_block1.opt.block1[1]')))
        return g

    def run_at_request(ex, s, entry, env):
        """at the await of a block exchange: what went on the wire for this iteration"""
        ev = lambda t, **kw: ex.truth(s, ex.spec_val(s, t, env=dict(ex.visible_env(s), **kw)))
        frag = ev('current_block1 is not app_request')
        return [('block-option-matches-cursor', z3.Implies(frag, ev('current_block1.opt.block1[0] == block_cursor and current_block1.opt.block1[2] == size_exp'))),
                ('payload-is-the-slice-at-the-cursor', z3.Implies(z3.And(frag, ev('size_exp <= 6')), ev('current_block1.payload == block_of(app_request.payload, block_cursor, size_exp) and current_block1.opt.block1[1] == block_more(app_request.payload, block_cursor, size_exp)'))),
                ('size1-only-on-first-block', z3.Implies(frag, ev('(current_block1.opt.size1 is not None) == (block_cursor == 0) or app_request.opt.size1 is not None'))),
                ('whole-body-in-one-message-only-if-it-fits', z3.Implies(z3.Not(frag), ev('len(app_request.payload) <= (app_request.remote.maximum_payload_size if size_exp >= 6 else bsize(size_exp))')))]

    def log_exchange(ex, s, rv):
        # ghost: the Block1 option sent with this exchange and the one in its answer, as they are at this moment
        s.log.append(('block_exchange', ex.spec_val(s, 'current_block1.opt.block1'), ex.spec_val(s, 'r.opt.block1', env=dict(ex.visible_env(s), r=rv))))

    def run_exit(ex, s, entry, env, result):
        sets = evs(s, 'set_result')
        b2 = evs(s, 'complete_block2')
        g = [('result-set-once-and-only-after-both-phases', B(len(sets) == 1 and len(b2) == 1 and s.log.index(b2[0]) < s.log.index(sets[0])))]
        # the Block1 phase is only left for the Block2 phase when the LAST acknowledgement, too, names the block that was sent
        xs = evs(s, 'block_exchange')
        if xs:
            sent, got = xs[-1][1], xs[-1][2]
            both = z3.And(z3.Not(sent.is_none()), z3.Not(got.is_none())) if isinstance(sent, VOpt) and isinstance(got, VOpt) else B(False)
            g.append(('final-acknowledgement-names-the-block-that-was-sent',
                      z3.Implies(both, got.some().items[0].t == sent.some().items[0].t) if isinstance(sent, VOpt) and isinstance(got, VOpt) else B(True)))
        for e in sets:
            g.append(('result-is-the-assembled-response', e[2].t == b2[0][-1].t if b2 else B(False)))
            g.append(('result-goes-to-the-callers-future', e[1].t == env['response'].t))
        return g

    def run_raise_post(ctx):
        return B(not evs(ctx.st, 'set_result'))

    reg.contract(BR + '._complete_by_requesting_block2', params={'protocol': Ref('ProtocolI'), 'request_to_repeat': MSG, 'initial_response': MSG, 'log': ANY},
                 result=MSG, verify=False, properties=P, modifies=['*'], raises={'Error': MAY, 'CancelledError': MAY, 'Exception': MAY},
                 ghost=lg_result('complete_block2', 'request_to_repeat', 'initial_response'),
                 trusted_reason='call-site summary; the body is verified below (#body)')

    reg.contract(BR + '._run', params={'app_request': MSG, 'response': Ref('FutureI'), 'weak_observation': CALLABLE, 'protocol': Ref('ProtocolI'), 'log': ANY},
                 properties=P,
                 requires=['app_request.code is not None', '1 <= app_request.code < 32', 'app_request.remote is not None',
                           '0 <= app_request.remote.maximum_block_size_exp <= 7', 'app_request.remote.maximum_payload_size >= 1024',
                           'app_request.opt.block1 is None'],
                 raises={'UnexpectedBlock1Option': MAY, 'CancelledError': MAY, 'BadRequest': MAY, 'Exception': MAY, 'AssertionError': MAY},
                 raises_post={k: {'no-result-on-failure': run_raise_post} for k in ('UnexpectedBlock1Option', 'CancelledError', 'BadRequest', 'Exception')},
                 modifies=['*'],
                 invariants={0: ['block_cursor >= 0', '0 <= size_exp <= 7', 'app_request.code is not None', '1 <= app_request.code < 32',
                                 'app_request.remote is not None', 'app_request.opt.block1 is None',
                                 '0 <= app_request.remote.maximum_block_size_exp <= 7', 'app_request.remote.maximum_payload_size >= 1024'],
                             1: ['block_cursor >= 0', '0 <= size_exp <= 7', 'size_exp <= head(size_exp, 0)', 'size_exp >= block1[2] or size_exp == head(size_exp, 0)',
                                 'implies(head(size_exp, 0) <= 6, block_cursor * bsize(size_exp) == (head(block_cursor, 0) + 1) * bsize(head(size_exp, 0)))',
                                 'implies(head(size_exp, 0) == 7 and len(current_block1.payload) % 1024 == 0, block_cursor * bsize(size_exp) == (head(block_cursor, 0) + len(current_block1.payload) // 1024) * 1024)',
                                 'app_request.code is not None', '1 <= app_request.code < 32', 'app_request.remote is not None', 'app_request.opt.block1 is None',
                                 '0 <= app_request.remote.maximum_block_size_exp <= 7', 'app_request.remote.maximum_payload_size >= 1024']},
                 loop_steps={0: [run_step]},
                 awaits={0: {'havoc': True, 'owned': ['app_request', 'app_request.opt'],
                             'assume': ['app_request.remote is not None', '0 <= app_request.remote.maximum_block_size_exp <= 7',
                                        'app_request.remote.maximum_payload_size >= 1024']},
                         1: {'havoc': True, 'check': run_at_request, 'owned': ['app_request', 'app_request.opt', 'current_block1', 'current_block1.opt'],
                             'result': MSG, 'result_assume': RESP_WF, 'after': log_exchange,
                             'assume': ['app_request.remote is not None', '0 <= app_request.remote.maximum_block_size_exp <= 7',
                                        'app_request.remote.maximum_payload_size >= 1024']},
                         2: {'havoc': False},
                         3: {'havoc': True}},
                 at_exit=run_exit, local_types={'blockresponse': MSG, 'blockrequest': Ref('RequestI'), 'current_block1': MSG, 'block1': BLOCKTUPLE})

    # ------------------------------------------------ _complete_by_requesting_block2
    def b2_at_request(ex, s, entry, env):
        ev = lambda t, **kw: ex.truth(s, ex.spec_val(s, t, env=dict(ex.visible_env(s), **kw)))
        sent = [e for e in s.log if e[0] == 'protocol_request']
        g = [('asks-for-the-first-byte-not-yet-received', ev('current_block2.opt.block2[0] * bsize(current_block2.opt.block2[2]) == len(assembled_response.payload)')),
             ('to-the-server-of-the-first-block', ev('current_block2.remote is initial_response.remote'))]
        if sent:
            g.append(('that-request-is-sent', ev('m is current_block2', m=sent[-1][2])))
        return g

    def b2_step(ex, s, snap):
        ev = lambda t, **kw: ex.truth(s, ex.spec_val(s, t, env=dict(ex.visible_env(s), **kw)))
        new = s.log[len(snap.log):]
        return [('one-exchange-per-iteration', B(sum(1 for e in new if e[0] == 'protocol_request') == 1)),
                ('body-grows-by-exactly-this-block', ev('assembled_response.payload == head(assembled_response.payload) + last_response.payload')),
                ('block-size-was-valid', ev('valid_block_payload(block2[1], block2[2], len(last_response.payload))')),
                ('block-was-in-place', ev('block2[0] * bsize(block2[2]) == len(head(assembled_response.payload))')),
                ('same-representation', ev('last_response.opt.etag == head(assembled_response.opt.etag)')),
                ('continues-only-while-more', ev('block2[1] != False'))]

    def b2_exit(ex, s, entry, env, result):
        ev = Ev(ex, s, entry, env)
        if s.ghost.get('$head') is None:
            return [('single-message-response-returned-as-is', ev('result is initial_response and (old(initial_response.opt.block2) is None or old(initial_response.opt.block2[1]) == False)', result=result))]
        hv = lambda t, **kw: ex.truth(s, ex.spec_val(s, t, env=dict(ex.visible_env(s), **kw), result=result))
        return [('returns-the-assembly-only-after-the-final-block', z3.Or(hv('result is assembled_response and last_response.opt.block2 is not None and last_response.opt.block2[1] == False'),
                                                                          hv('result is last_response and last_response.opt.block2 is None')))]

    reg.contract(BR + '._complete_by_requesting_block2#body', params={'protocol': Ref('ProtocolI'), 'request_to_repeat': MSG, 'initial_response': MSG, 'log': ANY},
                 result=MSG, properties=P,
                 requires=['initial_response.code is not None', 'initial_response.remote is not None', '0 <= initial_response.remote.maximum_block_size_exp <= 7',
                           'implies(initial_response.opt.block2 is not None, initial_response.opt.block2[0] >= 0 and 0 <= initial_response.opt.block2[2] <= 7 and valid_block_payload(initial_response.opt.block2[1], initial_response.opt.block2[2], len(initial_response.payload)))',
                           'request_to_repeat is not initial_response', 'request_to_repeat.opt is not initial_response.opt', '64 <= initial_response.code < 192'],
                 raises={'UnexpectedBlock2': MAY, 'NotImplemented': MAY, 'ResourceChanged': MAY, 'CancelledError': MAY, 'Exception': MAY, 'AssertionError': MAY},
                 invariants={0: ['assembled_response is initial_response', 'assembled_response.opt.block2 is not None', '0 <= assembled_response.opt.block2[2] <= 7',
                                 'assembled_response.opt.block2[0] >= 0', 'len(assembled_response.payload) % bsize(assembled_response.opt.block2[2]) == 0',
                                 'assembled_response.remote is not None', '0 <= assembled_response.remote.maximum_block_size_exp <= 7',
                                 '64 <= assembled_response.code < 192', 'request_to_repeat is not initial_response', 'request_to_repeat.opt is not initial_response.opt']},
                 loop_steps={0: [b2_step]},
                 awaits={0: {'havoc': True, 'check': b2_at_request, 'result': MSG,
                             'owned': ['initial_response', 'initial_response.opt', 'initial_response.remote', 'request_to_repeat', 'request_to_repeat.opt'],
                             'result_assume': ['result.code is not None', 'result.remote is not None', 'result is not initial_response', 'result.opt is not initial_response.opt',
                                               'implies(result.opt.block2 is not None, result.opt.block2[0] >= 0 and 0 <= result.opt.block2[2] <= 7)']}},
                 at_exit=b2_exit, local_types={'last_response': MSG, 'blockrequest': Ref('RequestI'), 'current_block2': MSG, 'block2': BLOCKTUPLE})
