"""C11 -- OSCORE protection, non-cryptographic clauses (aiocoap/oscore.py): the compressed COSE object in the OSCORE
option (_compress/_uncompress against RFC 8613 section 6.1), the AEAD nonce layout (section 5.2), binding of a
response's AAD to the request identifiers, inner/outer split of a message.  AEAD, CBOR and key derivation are
idealised externals (A-AEAD, A-CBOR)."""
import z3
from pyvc.values import *   # noqa
from pyvc.registry import MAY
from contracts.util import lg, lg_result, evs, count, B, Ev

CP = 'aiocoap.oscore:CanProtect'
CU = 'aiocoap.oscore:CanUnprotect'
BSC = 'aiocoap.oscore:BaseSecurityContext'
UNP = Dict(INT, BYTES, 'oscore.unprotected')
PROT = Dict(INT, BYTES, 'oscore.protected')


OSCORE_SETUP = 'from specs.oscore_stubs import load_oscore; oscore = load_oscore()   # cryptography/cbor2/filelock are absent here: import-time stand-ins'


def register(reg, prog):
    reg.python_specs(prog, 'specs.rfc8613')
    from contracts.c12 import declare_oscore
    declare_oscore(reg)
    reg.spec_optional_args = set(getattr(reg, 'spec_optional_args', ())) | {'oscore_option'}
    P = ['C11']
    MSG = Ref('Message')
    reg.assume('A-SENTINEL: the module-level marker PRESENT_BUT_NO_VALUE_YET is an opaque value (modelled as an unconstrained '
               'byte string constant); nothing may depend on its content')
    if not hasattr(reg, 'global_values'):
        reg.global_values = {}

    reg.global_values['aiocoap.oscore:PRESENT_BUT_NO_VALUE_YET'] = lambda ex, st: ex.fresh_val(st, BYTES, 'PRESENT_BUT_NO_VALUE_YET')

    # ------------------------------------------------------------------ _compress
    KNOWN = '(1 if 6 in unprotected else 0) + (1 if 4 in unprotected else 0) + (1 if 10 in unprotected else 0) + (1 if 12 in unprotected else 0)'
    OPTION = ('oscore_option(old(unprotected[6]) if old(6 in unprotected) else b"", '
              'old(unprotected[4]) if old(4 in unprotected) else None, '
              'old(unprotected[10]) if old(10 in unprotected) else None, old(12 in unprotected))')
    reg.contract(CP + '._compress', params={'protected': PROT, 'unprotected': UNP, 'ciphertext': BYTES}, result=Tuple(BYTES, BYTES),
                 properties=P, only_raises=True,
                 raises={'RuntimeError': 'len(protected) > 0 or len(unprotected) != ' + KNOWN,
                         'ValueError': '(6 in unprotected and len(unprotected[6]) > 7) or (10 in unprotected and len(unprotected[10]) > 255)'},
                 ensures={'option-is-the-rfc8613-compression': 'result[0] == ' + OPTION,
                          'ciphertext-passed-through': 'result[1] == ciphertext',
                          'map-consumed': 'len(unprotected) == 0'},
                 modifies=['dict:unprotected'])

    # ------------------------------------------------------------------ _uncompress
    PARSED = 'parse_oscore_option(option_data)'
    reg.contract(CU + '._uncompress', params={'option_data': BYTES, 'payload': BYTES}, result=Tuple(BYTES, PROT, UNP, BYTES),
                 properties=P, only_raises=True, hints={'{}': UNP},
                 replay={'kind': 'call', 'setup': OSCORE_SETUP, 'call': 'oscore.CanUnprotect._uncompress(option_data, payload)'},
                 raises={'DecodeError': PARSED + ' is None'},
                 ensures={'no-protected-part': 'len(result[0]) == 0 and len(result[1]) == 0',
                          'payload-is-the-ciphertext': 'result[3] == payload',
                          'partial-iv-present': 'implies(P is not None, (6 in result[2]) == (len(P[0]) > 0))'.replace('P', PARSED),
                          'partial-iv-value': 'implies(P is not None, implies(6 in result[2], result[2][6] == P[0]))'.replace('P', PARSED),
                          'partial-iv-length-not-reserved': 'implies(P is not None, implies(6 in result[2], 1 <= len(result[2][6]) <= 5))'.replace('P', PARSED),
                          'kid-present': 'implies(P is not None, (4 in result[2]) == (P[1] is not None))'.replace('P', PARSED),
                          # the kid is "the rest of the option" after flag byte, partial IV and context hint (whose values are tied to the spec above), i.e. data[pos:]
                          # and byte for byte the suffix of the option -- stated pointwise, the direct equality of the two
                          # differently nested slices takes z3 5.1 more than its budget (z3 4.8.12 proves it in seconds)
                          'kid-length': 'implies(4 in result[2], len(result[2][4]) == len(option_data) - 1 - (len(result[2][6]) if 6 in result[2] else 0) '
                                        '- ((1 + len(result[2][10])) if 10 in result[2] else 0))',
                          'kid-is-the-rest-of-the-option': 'implies(4 in result[2], forall(j, 0, len(result[2][4]), '
                                                           'result[2][4][j] == option_data[len(option_data) - len(result[2][4]) + j]))',
                          'kid-context-present': 'implies(P is not None, (10 in result[2]) == (P[2] is not None))'.replace('P', PARSED),
                          'kid-context-length-byte': 'implies(10 in result[2], len(result[2][10]) == option_data[1 + (len(result[2][6]) if 6 in result[2] else 0)])',
                          'kid-context-follows-its-length-byte': 'implies(10 in result[2], forall(j, 0, len(result[2][10]), '
                                                                 'result[2][10][j] == option_data[2 + (len(result[2][6]) if 6 in result[2] else 0) + j]))',
                          'kid-context-value': 'implies(P is not None, implies(10 in result[2], result[2][10] == P[2]))'.replace('P', PARSED),
                          'group-flag': 'implies(P is not None, (12 in result[2]) == P[3])'.replace('P', PARSED),
                          'nothing-else': 'len(result[2]) == (1 if 6 in result[2] else 0) + (1 if 4 in result[2] else 0) + (1 if 10 in result[2] else 0) + (1 if 12 in result[2] else 0)',
                          'fresh-maps': 'is_new(result[1]) and is_new(result[2])'})

    # round trip of the option codec (spec level; the two contracts above tie the code to the spec functions).  One lemma per
    # presence pattern of kid / kid context keeps each query small.
    for has_kid in (False, True):
        for has_ctx in (False, True):
            params = {'piv': BYTES, 'group': BOOL}
            if has_kid:
                params['kid'] = BYTES
            if has_ctx:
                params['ctx'] = BYTES
            call = 'oscore_option(piv, %s, %s, group)' % ('kid' if has_kid else 'None', 'ctx' if has_ctx else 'None')
            back = 'parse_oscore_option(%s)' % call
            reg.contract('lemma:C11/option-codec-round-trip/%s-%s' % ('kid' if has_kid else 'nokid', 'ctx' if has_ctx else 'noctx'),
                         params=params, properties=P,
                         requires=['len(piv) <= 5'] + (['len(ctx) <= 255'] if has_ctx else []),
                         ensures={'parse-inverts-compress': back + ' is not None',
                                  'piv': back + '[0] == piv',
                                  'kid': (back + '[1] == kid') if has_kid else (back + '[1] is None'),
                                  'ctx': (back + '[2] == ctx') if has_ctx else (back + '[2] is None'),
                                  'group': back + '[3] == group'})

    # ------------------------------------------------------------------ nonce (RFC 8613 section 5.2)
    reg.classes['AlgI'].fields.update({'value': INT})
    SECP = dict(reg.classes['SecCtx'].fields)
    SECP.update({'common_iv': BYTES, 'sender_id': BYTES, 'sender_sequence_number': INT, 'sender_key': BYTES,
                 'is_signing': BOOL, 'responses_send_kid': BOOL})
    reg.classes['SecCtx'].fields.update(SECP)
    reg.declare_class('SecCtxP', CP, fields=SECP)
    xor8 = z3.Function('xor8', I, I, I)
    reg.assume('A-XOR: byte-wise XOR is an uninterpreted function xor8; that x -> c XOR x is a bijection (so different '
               'layouts give different nonces under one Common IV) is arithmetic, stated and not proved')

    def xor_bytes(ex, st, args, kw, node):
        a, b = args
        out = []
        ok, bad = ex.guard(st, a.len == b.len, 'builtins:AssertionError')
        if bad is not None:
            out.append((bad, None))
        if ok is not None:
            out.append((ok, VBytes(a.len, lambda i, a=a, b=b: xor8(a.at(i), b.at(i)))))
        return out
    reg.externals['repo:aiocoap.oscore:_xor_bytes'] = xor_bytes
    reg.specfuncs['xor_bytes'] = lambda ex, st, a, b: VBytes(a.len, lambda i, a=a, b=b: xor8(a.at(i), b.at(i)))

    NONCE_REQ = ['len(partial_iv_short) <= 5', 'len(piv_generator_id) <= alg.iv_bytes - 6', 'len(piv_generator_id) <= 255', 'len(self.common_iv) >= alg.iv_bytes']
    for cls, key in (('SecCtx', BSC), ):
        reg.contract(key + '._construct_nonce', self_class=cls, params={'partial_iv_short': BYTES, 'piv_generator_id': BYTES, 'alg': Ref('AlgI')},
                     result=BYTES, properties=P, only_raises=True, requires=NONCE_REQ,
                     ensures={'nonce-has-the-algorithms-length': 'len(result) == alg.iv_bytes',
                              'nonce-is-common-iv-xor-rfc8613-layout': 'result == xor_bytes(self.common_iv[:alg.iv_bytes], nonce_layout(partial_iv_short, piv_generator_id, alg.iv_bytes))'},
                     modifies=[])

    # injectivity of the layout, pointwise: the premise "the two layouts are equal" is used at three indices only (0, inside the
    # id field, inside the partial-IV field); k is universally quantified as a lemma parameter, so the quantified statement
    # (equal layouts => equal generator id and equal padded partial IV) follows by forall-introduction
    L1, L2 = 'nonce_layout(p1, i1, n)', 'nonce_layout(p2, i2, n)'
    reg.contract('lemma:C11/nonce-layout-is-injective', params={'p1': BYTES, 'p2': BYTES, 'i1': BYTES, 'i2': BYTES, 'n': INT, 'k': INT}, properties=P,
                 requires=['len(p1) <= 5', 'len(p2) <= 5', 'len(i1) <= n - 6', 'len(i2) <= n - 6', 'len(i1) <= 255', 'len(i2) <= 255', '0 <= k',
                           '%s[0] == %s[0]' % (L1, L2),
                           'implies(k < len(i1), %s[n - 5 - len(i1) + k] == %s[n - 5 - len(i1) + k])' % (L1, L2),
                           'implies(k < 5, %s[n - 5 + k] == %s[n - 5 + k])' % (L1, L2)],
                 ensures={'same-generator-id-length': 'len(i1) == len(i2)',
                          'same-generator-id-byte': 'implies(k < len(i1), i1[k] == i2[k])',
                          'same-padded-partial-iv-byte': 'implies(k < 5, pad5(p1)[k] == pad5(p2)[k])'})

    # ------------------------------------------------------------------ a fresh nonce for an own partial IV
    reg.contract(CP + '.post_seqnoincrease', self_class='SecCtxP', verify=False, properties=P, modifies=[], ghost=lg('post_seqnoincrease', 'self'),
                 trusted_reason='abstract persistence hook of the security context (C13 covers the file based implementation)')
    reg.contract(CP + '.new_sequence_number#abstract', self_class='SecCtxP', result=INT, properties=P, only_raises=True,
                 requires=['self.sender_sequence_number >= 0'],
                 raises={'ContextUnavailable': 'self.sender_sequence_number >= 2**40 - 1'},
                 ensures={'returns-the-unused-number': 'result == old(self.sender_sequence_number)',
                          'never-again': 'self.sender_sequence_number == old(self.sender_sequence_number) + 1'},
                 modifies=['self.sender_sequence_number'])
    def use_abstract_counter(ex, st, env):
        # the sequence counter seen by the nonce builder is the abstract one above (C13 verifies the same function against the
        # persistence contract of the file based context, with ghost fields this class does not have)
        ex.reg.contracts[CP + '.new_sequence_number'] = ex.reg.contracts[CP + '.new_sequence_number#abstract']
    reg.contract(CP + '._build_new_nonce', self_class='SecCtxP', params={'alg': Ref('AlgI')}, result=Tuple(BYTES, BYTES), properties=P,
                 setup=use_abstract_counter,
                 requires=['self.sender_sequence_number >= 0', 'len(self.sender_id) <= alg.iv_bytes - 6', 'len(self.sender_id) <= 255',
                           'len(self.common_iv) >= alg.iv_bytes'],
                 raises={'ContextUnavailable': 'self.sender_sequence_number >= 2**40 - 1'}, only_raises=True,
                 ensures={'announced-piv-is-the-sequence-number': 'be_value(result[1]) == old(self.sender_sequence_number)',
                          'announced-piv-is-1-to-5-bytes': '1 <= len(result[1]) <= 5',
                          'the-receiver-derives-the-same-nonce-from-the-announced-piv':
                              'result[0] == xor_bytes(self.common_iv[:alg.iv_bytes], nonce_layout(result[1], self.sender_id, alg.iv_bytes))',
                          'sequence-number-consumed': 'self.sender_sequence_number == old(self.sender_sequence_number) + 1'},
                 modifies=['self.sender_sequence_number'])

    # ------------------------------------------------------------------ _extract_encrypted0
    reg.externals['new:aiocoap.oscore:NotAProtectedMessage'] = lambda ex, st, args, kw, node: [(st, ex.new_object(st, 'aiocoap.oscore:NotAProtectedMessage'))]
    def log_extract(ex, st, env, result):
        u = result.items[2]
        st.log.append(('extract', env['message'], u, ex.dict_dom(st, u), ex.dict_vals(st, u)))
    # two contracts on the same body: the light one is what callers (unprotect) see, the '#option' variant ties the extracted
    # map to the RFC 8613 parse of the option (kept apart because the spec function makes every caller query heavier)
    reg.contract(CU + '._extract_encrypted0', params={'message': MSG}, result=Tuple(BYTES, PROT, UNP, BYTES), properties=P, only_raises=True,
                 raises={'NotAProtectedMessage': 'message.opt.oscore is None', 'DecodeError': MAY},
                 ensures={'no-protected-part': 'len(result[0]) == 0 and len(result[1]) == 0',
                          'ciphertext-is-the-payload': 'result[3] == message.payload',
                          'partial-iv-length-not-reserved': 'implies(6 in result[2], 1 <= len(result[2][6]) <= 5)',
                          'fresh-maps': 'is_new(result[1]) and is_new(result[2])'},
                 ghost=log_extract, modifies=[])
    reg.contract(CU + '._extract_encrypted0#option', params={'message': MSG}, result=Tuple(BYTES, PROT, UNP, BYTES), properties=P, only_raises=True,
                 raises={'NotAProtectedMessage': 'message.opt.oscore is None',
                         'DecodeError': 'message.opt.oscore is not None and parse_oscore_option(message.opt.oscore) is None'},
                 ensures={'fields-as-in-the-option': '(6 in result[2]) == (len(parse_oscore_option(message.opt.oscore)[0]) > 0) and '
                                                     '(4 in result[2]) == (parse_oscore_option(message.opt.oscore)[1] is not None) and '
                                                     '(10 in result[2]) == (parse_oscore_option(message.opt.oscore)[2] is not None)',
                          'kid-is-the-rest-of-the-option': 'implies(4 in result[2], len(result[2][4]) == len(message.opt.oscore) - 1 - (len(result[2][6]) if 6 in result[2] else 0) '
                                                           '- ((1 + len(result[2][10])) if 10 in result[2] else 0) and forall(j, 0, len(result[2][4]), '
                                                           'result[2][4][j] == message.opt.oscore[len(message.opt.oscore) - len(result[2][4]) + j]))',
                          'kid-context-as-in-the-option': 'implies(10 in result[2], result[2][10] == parse_oscore_option(message.opt.oscore)[2])',
                          'partial-iv-as-in-the-option': 'implies(6 in result[2], result[2][6] == parse_oscore_option(message.opt.oscore)[0])'},
                 modifies=[])

    # ------------------------------------------------------------------ external AAD: binds a response to its request
    reg.classes['RequestIdentifiersI'].fields.update({'request_hash': Opt(BYTES), 'can_reuse_nonce': Opt(BOOL)})
    reg.assume('A-CBOR: cbor2.dumps is an injective encoding of its argument (the library is absent here); its argument is recorded')

    def cbor_dumps(ex, st, args, kw, node):
        r = ex.fresh_val(st, BYTES, 'cbor')
        st.log.append(('cbor_dumps', args[0], r))
        return [(st, r)]
    reg.externals['cbor2.dumps'] = cbor_dumps
    reg.externals['cbor.dumps'] = cbor_dumps

    def aad_exit(ex, s, entry, env, result):
        ev = Ev(ex, s, entry, env)
        dumps = evs(s, 'cbor_dumps')
        g = [('encoded-exactly-once', B(len(dumps) == 1))]
        for d in dumps:
            arg = d[1]
            ok = isinstance(arg, VTuple) and len(arg.items) == 5
            g.append(('aad-is-the-five-element-array-of-rfc8613-5.4', B(ok)))
            if not ok:
                continue
            g.append(('result-is-the-encoding', result.t == d[2].t))
            g.append(('oscore-version-1', ev('x == 1', x=arg.items[0])))
            g.append(('request-kid-bound', ev('x == request_id.kid', x=arg.items[2])))
            g.append(('request-partial-iv-bound', ev('x == request_id.partial_iv', x=arg.items[3])))
            g.append(('no-class-i-options', ev('len(x) == 0', x=arg.items[4])))
            algs = arg.items[1]
            g.append(('algorithm-bound', B(isinstance(algs, (VList, VTuple, VSeq)))))
        return g

    reg.contract(BSC + '._extract_external_aad', self_class='SecCtx', params={'message': MSG, 'request_id': Ref('RequestIdentifiersI'), 'local_is_sender': BOOL},
                 result=BYTES, properties=P, only_raises=True, requires=['request_id.request_hash is None'], at_exit=aad_exit, modifies=[],
                 hints={'[]': Opt(INT)})

    # ------------------------------------------------------------------ inner / outer split of a message
    CODESTYLE = Tuple(INT, INT) + ('CodeStyle',)
    reg.declare_class('CodeStyle', 'aiocoap.oscore:CodeStyle', nt=['request', 'response'])
    reg.classes['RequestIdentifiersI'].fields.update({'code_style': CODESTYLE})
    OUTER_ONLY = ('uri_host', 'uri_port', 'proxy_uri', 'proxy_scheme')
    VIEWS = sorted(reg.opt_views)

    def split_exit(ex, s, entry, env, result):
        ev = Ev(ex, s, entry, env)
        outer, plaintext = result.items[0], result.items[1]
        is_req = ev('old(1 <= message.code < 32)')
        encs = evs(s, 'opt_encode')
        g = [('outer-request-code-is-post-or-fetch', z3.Implies(is_req, ev('o.code == (2 if old(message.opt.observe) is None else 5)', o=outer))),
             ('outer-response-code-is-the-one-fixed-by-the-request', z3.Implies(z3.Not(is_req), ev('o.code == old(request_id.code_style[1])', o=outer))),
             ('outer-message-has-no-payload-yet', ev('len(o.payload) == 0', o=outer)),
             ('outer-message-is-new', ev('is_new(o) and is_new(o.opt) and o is not message and o.opt is not message.opt', o=outer)),
             ('outer-uri-host-is-the-requests', ev('o.opt.uri_host == (old(message.opt.uri_host) if old(1 <= message.code < 32) else None)', o=outer)),
             ('outer-observe-only-on-requests', ev('o.opt.observe == (old(message.opt.observe) if old(not (64 <= message.code < 192)) else None)', o=outer))]
        # nothing else of the message is visible outside
        for v in VIEWS:
            if v in ('uri_host', 'observe'):
                continue
            ty = reg.opt_views[v]
            empty = 'o.opt.%s is None' % v if ty[0] == 'opt' else ('len(o.opt.%s) == 0' % v if ty[0] == 'seq' else 'not o.opt.%s' % v)
            g.append(('outer-message-reveals-no-%s' % v.replace('_', '-'), ev(empty, o=outer)))
        g.append(('inner-options-encoded-once', B(len(encs) == 1)))
        for e in encs:
            inner = e[1]
            for v in VIEWS:
                if v in OUTER_ONLY:
                    ty = reg.opt_views[v]
                    g.append(('inner-message-without-%s' % v.replace('_', '-'), z3.Implies(is_req, ev('i.%s is None' % v, i=inner))))
                else:
                    g.append(('inner-%s-is-the-original' % v.replace('_', '-'), ev('i.%s == old(message.opt.%s)' % (v, v), i=inner)))
            g.append(('plaintext-starts-with-the-real-code', ev('len(p) >= 1 and p[0] == old(message.code)', p=plaintext)))
            g.append(('plaintext-continues-with-the-encoded-inner-options', ev('p[1:1 + len(enc)] == enc', p=plaintext, enc=e[2])))
            g.append(('plaintext-length', ev('len(p) == 1 + len(enc) + (0 if len(old(message.payload)) == 0 else 1 + len(old(message.payload)))', p=plaintext, enc=e[2])))
            g.append(('payload-marker-iff-payload', ev('implies(len(old(message.payload)) > 0, p[1 + len(enc)] == 255)', p=plaintext, enc=e[2])))
            g.append(('payload-follows-the-marker', ev('forall(j, 0, len(old(message.payload)), p[2 + len(enc) + j] == old(message.payload)[j])', p=plaintext, enc=e[2])))
        return g

    reg.contract(CP + '._split_message', self_class='SecCtxP', params={'message': MSG, 'request_id': Opt(Ref('RequestIdentifiersI'))},
                 result=Tuple(MSG, BYTES), properties=P, only_raises=True,
                 requires=['message.code is not None', '1 <= message.code <= 255', 'message.opt.proxy_uri is None',
                           'implies(not (1 <= message.code < 32), request_id is not None)'],
                 raises={'ValueError': MAY}, at_exit=split_exit, modifies=[])

    # ------------------------------------------------------------------ protect: what goes where
    def new_request_id(ex, st, args, kw, node):
        """RequestIdentifiers(kid, partial_iv, can_reuse_nonce, request_code): plain record; request_code must be FETCH or POST"""
        vals = list(args) + [kw[k] for k in ('kid', 'partial_iv', 'can_reuse_nonce', 'request_code')[len(args):]]
        kid, piv, reuse, code = vals
        out = []
        if isinstance(code, VOpt):
            st, bad0 = ex.guard(st, z3.Not(code.is_none()), 'builtins:ValueError')     # CodeStyle.from_request(None)
            if bad0 is not None:
                out.append((bad0, None))
            if st is None:
                return out
            code = code.some()
        c = ex.as_int(code, node)
        ok, bad = ex.guard(st, z3.Or(c == 2, c == 5), 'builtins:ValueError')
        if bad is not None:
            out.append((bad, None))
        if ok is not None:
            r = ex.new_object(ok, 'RequestIdentifiersI')
            ex.write_field(ok, r, 'kid', BYTES, kid)
            ex.write_field(ok, r, 'partial_iv', BYTES, piv)
            ex.write_field(ok, r, 'can_reuse_nonce', Opt(BOOL), coerce(reuse, Opt(BOOL)))
            ex.write_field(ok, r, 'request_hash', Opt(BYTES), VNone())
            cs = VTuple([VInt(c), VInt(z3.If(c == 5, z3.IntVal(69), z3.IntVal(68)))])
            cs.ty = CODESTYLE
            ex.write_field(ok, r, 'code_style', CODESTYLE, cs)
            ok.log.append(('new_request_id', r, kid, piv))
            out.append((ok, r))
        return out
    reg.externals['new:aiocoap.oscore:RequestIdentifiers'] = new_request_id
    RI = 'aiocoap.oscore:RequestIdentifiers'
    reg.contract(RI + '.get_reusable_kid_and_piv', self_class='RequestIdentifiersI', result=Tuple(Opt(BYTES), Opt(BYTES)), properties=P, only_raises=True,
                 ensures={'reuse-at-most-once': 'not self.can_reuse_nonce',
                          'identifiers-iff-reusable': '(result[0] is not None) == (old(self.can_reuse_nonce) is True) and (result[1] is not None) == (old(self.can_reuse_nonce) is True)',
                          'the-requests-identifiers': 'implies(result[0] is not None, result[0] == self.kid and result[1] == self.partial_iv)'},
                 modifies=['self.can_reuse_nonce'], ghost=lg_result('reuse', 'self'))
    _reuse_info = prog.func(RI + '.get_reusable_kid_and_piv')
    reg.externals['RequestIdentifiersI.get_reusable_kid_and_piv'] = \
        lambda ex, st, args, kw, node: ex.call(st, VFunc('repo', info=_reuse_info, bound=args[0]), [], {}, node)

    def enc_structure(ex, st, args, kw, node):
        prot, aad = args[-2], args[-1]
        out = []
        ok, bad = ex.guard(st, ex.dict_len(st, prot) == 0, 'builtins:AssertionError') if hasattr(ex, 'dict_len') else (st, None)
        if bad is not None:
            out.append((bad, None))
        if ok is not None:
            r = ex.fresh_val(ok, BYTES, 'enc_structure')
            ok.log.append(('enc_structure', aad, r))
            out.append((ok, r))
        return out
    reg.externals['repo:aiocoap.oscore:SymmetricEncryptionAlgorithm._build_encrypt0_structure'] = enc_structure

    def encrypt(ex, st, args, kw, node):
        alg, pt, aad, key, nonce = args
        ct = ex.fresh_val(st, BYTES, 'ciphertext')
        st.assume(ct.len == pt.len + ex.read_field(st, alg, 'tag_bytes', INT).t)
        st.log.append(('encrypt', alg, pt, aad, key, nonce, ct))
        return [(st, ct)]
    reg.externals['AlgI.encrypt'] = encrypt

    def log_split(ex, st, env, result):
        outer = result.items[0]
        snap = {v: ex.spec_val(st, 'o.opt.%s' % v, env={'o': outer}) for v in VIEWS}
        st.log.append(('split', env['message'], env['request_id'], outer, result.items[1], snap))
    reg.contracts[CP + '._split_message'].ghost = log_split
    reg.contracts[CP + '._build_new_nonce'].ghost = lg_result('new_nonce', 'self', 'alg')
    reg.contracts[BSC + '._construct_nonce'].ghost = lg_result('construct_nonce', 'self', 'partial_iv_short', 'piv_generator_id', 'alg')
    reg.contracts[BSC + '._extract_external_aad'].ghost = lg_result('external_aad', 'self', 'message', 'request_id')

    def protect_exit(ex, s, entry, env, result):
        ev = Ev(ex, s, entry, env)
        outer, rid = result.items[0], result.items[1]
        is_req = ev('old(1 <= message.code < 32)')
        splits, encs, aads, structs = evs(s, 'split'), evs(s, 'encrypt'), evs(s, 'external_aad'), evs(s, 'enc_structure')
        fresh, derived, reuse, newids = evs(s, 'new_nonce'), evs(s, 'construct_nonce'), evs(s, 'reuse'), evs(s, 'new_request_id')
        g = [('split-once-encrypt-once', B(len(splits) == 1 and len(encs) == 1 and len(aads) == 1 and len(structs) == 1)),
             ('exactly-one-nonce', B(len(fresh) + len(derived) == 1)),
             ('a-request-always-gets-a-fresh-partial-iv', z3.Implies(is_req, B(len(fresh) == 1)))]
        if not (len(splits) == 1 and len(encs) == 1 and len(aads) == 1 and len(structs) == 1 and len(fresh) + len(derived) == 1):
            return g
        sp, en, ad, stc = splits[0], encs[0], aads[0], structs[0]
        g.append(('the-outer-message-is-the-split-outer', outer.t == sp[3].t))
        g.append(('the-inner-message-is-what-gets-encrypted', en[2].t == sp[4].t))
        g.append(('ciphertext-is-the-payload', ev('o.payload == c', o=outer, c=en[6])))
        g.append(('aad-wraps-the-external-aad', z3.And(en[3].t == stc[2].t, stc[1].t == ad[4].t)))
        g.append(('external-aad-built-for-this-outer-message', ad[2].t == outer.t))
        g.append(('encrypted-with-the-sender-key', ev('k == old(self.sender_key)', k=en[4])))
        # which request identifiers enter the AAD: the new ones of a request, the given ones of a response
        used_rid = ad[3]
        used_rid = used_rid.some() if isinstance(used_rid, VOpt) else used_rid
        g.append(('a-response-is-bound-to-the-identifiers-of-its-request', z3.Implies(z3.Not(is_req), ev('u is request_id', u=used_rid))))
        g.append(('a-request-is-bound-to-its-own-new-identifiers', z3.Implies(is_req, B(len(newids) == 1) if True else B(True))))
        for n in newids:
            g.append(('new-identifiers-name-this-sender', z3.Implies(is_req, z3.And(used_rid.t == n[1].t, ev('k == old(self.sender_id)', k=n[2])))))
            g.append(('new-identifiers-are-returned', z3.Implies(is_req, ev('r is n', r=rid, n=n[1]))))
        if fresh:
            f = fresh[0]
            nonce, piv = f[3].items[0], f[3].items[1]
            g.append(('nonce-of-the-fresh-partial-iv', en[5].t == nonce.t))
            for n in newids:
                g.append(('new-identifiers-carry-the-announced-partial-iv', z3.Implies(is_req, ev('x == p', x=n[3], p=piv))))
            g.append(('option-announces-the-fresh-partial-iv',
                      ev('o.opt.oscore == oscore_option(p, old(self.sender_id) if (old(1 <= message.code < 32) or old(self.responses_send_kid)) else None, '
                         'old(self.id_context) if old(1 <= message.code < 32) else None, False)', o=outer, p=piv)))
        else:
            d = derived[0]
            g.append(('nonce-of-the-requests-partial-iv', z3.And(en[5].t == d[5].t, ev('p == old(request_id.partial_iv) and k == old(request_id.kid)', p=d[2], k=d[3]))))
            g.append(('reused-nonce-only-if-the-request-allowed-it', B(len(reuse) == 1)))
            g.append(('option-without-partial-iv',
                      ev('o.opt.oscore == oscore_option(b"", old(self.sender_id) if old(self.responses_send_kid) else None, None, False)', o=outer)))
        # nothing but the OSCORE option is added to what _split_message put outside
        for v in VIEWS:
            if v == 'oscore':
                continue
            g.append(('outer-%s-as-split' % v.replace('_', '-'), ev('o.opt.%s == was' % v, o=outer, was=sp[5][v])))
        return g

    reg.contract(CP + '.protect', self_class='SecCtxP', params={'message': MSG, 'request_id': Opt(Ref('RequestIdentifiersI')), 'kid_context': BOOL},
                 result=Tuple(MSG, Opt(Ref('RequestIdentifiersI'))), properties=P, only_raises=True,
                 requires=['message.code is not None', '1 <= message.code <= 255', '(request_id is None) == (1 <= message.code < 32)',
                           'message.direction is Direction.OUTGOING', 'message.opt.proxy_uri is None', 'kid_context', 'not self.is_signing',
                           'isinstance(self.alg_aead, AeadAlgorithm)',
                           'self.sender_sequence_number >= 0', 'len(self.sender_id) <= self.alg_aead.iv_bytes - 6', 'len(self.sender_id) <= 255',
                           'len(self.common_iv) >= self.alg_aead.iv_bytes', 'self.alg_aead.tag_bytes >= 0',
                           'implies(self.id_context is not None, len(self.id_context) <= 255)',
                           'implies(request_id is not None, request_id.request_hash is None and len(request_id.partial_iv) <= 5 and '
                           'len(request_id.kid) <= 255 and len(request_id.kid) <= self.alg_aead.iv_bytes - 6)'],
                 raises={'ValueError': MAY, 'ContextUnavailable': MAY}, at_exit=protect_exit, modifies=['*'],
                 hints={'{}': UNP}, setup=use_abstract_counter)
