"""C09 -- exactly one final response reflecting the handler outcome (pipe.py, protocol.py, resource.py, error.py)"""
import z3
from pyvc.values import *   # noqa
from pyvc.registry import MAY
from contracts.util import lg, lg_result, evs, count, B, Ev

EVENT = Tuple(Opt(Ref('Message')), Opt(Ref('builtins:Exception')), BOOL) + ('Event',)


def register(reg, prog):
    P = ['C09']
    MSG = Ref('Message')
    reg.declare_class('Event', 'aiocoap.pipe:Pipe.Event', nt=['message', 'exception', 'is_last'])
    reg.declare_class('RenderableError', 'aiocoap.error:RenderableError', fields={})
    reg.declare_class('ConstructionRenderableErrorD', 'aiocoap.error:ConstructionRenderableError', fields={'message': STR}) \
        if 'ConstructionRenderableError' not in reg.classes else None
    def class_code(ex, st, e):
        """the `code` class attribute of the object's dynamic class"""
        (s2, v), = ex.getattr(st, e, 'code', None)
        return VInt(v.t)
    reg.specfuncs['class_code'] = class_code

    # ---- renderable errors
    reg.contract('aiocoap.error:ConstructionRenderableError.to_message', result=MSG, properties=P, only_raises=True,
                 ensures={'own-code': 'result.code == class_code(self)', 'diagnostic-payload': 'result.payload == utf8_encode(self.message)',
                          'fresh-message': 'is_new(result) and is_new(result.opt)'})
    reg.contract('aiocoap.error:RenderableError.to_message', result=Opt(MSG), verify=False, properties=P, modifies=['*'],
                 raises={'Exception': MAY}, ghost=lg_result('to_message', 'self'),
                 trusted_reason='abstract method: an arbitrary (possibly failing, possibly None-returning) application-defined renderer')

    # ---- error_to_message: the event translator
    def ote_exit(ex, s, entry, env, result):
        ev = Ev(ex, s, entry, env)
        adds = evs(s, 'pipe_add_response')
        tm = evs(s, 'to_message')
        is_msg = ev('event[0] is not None')
        g = [('exactly-one-response-forwarded', B(len(adds) == 1))]
        for e in adds:
            kw = dict(e[-1])
            last = ex.truth(s, kw['is_last']) if 'is_last' in kw else (ex.truth(s, e[3]) if len(e) > 4 else B(False))
            g.append(('to-the-requesters-pipe', e[1].t == env['old_pr'].t))
            g.append(('message-events-forwarded-unchanged', z3.Implies(is_msg, z3.And(ev('m is event[0]', m=e[2]), last == ev('event[2]')))))
            g.append(('errors-are-final', z3.Implies(z3.Not(is_msg), last)))
            if tm:
                rendered = tm[0][-1]
                ok_render = z3.And(z3.Not(rendered.is_none()))
                g.append(('renderable-error-sent-as-rendered', z3.Implies(z3.Not(is_msg), z3.Implies(ok_render, e[2].t == rendered.some().t))))
                g.append(('failing-renderer-gives-bare-5.00', z3.Implies(z3.And(z3.Not(is_msg), z3.Not(ok_render)),
                          ev('m.code == 160 and len(m.payload) == 0 and is_new(m) and m.opt.content_format is None and m.opt.etag is None', m=e[2]))))
            else:
                g.append(('other-exceptions-give-bare-5.00', z3.Implies(z3.Not(is_msg),
                          ev('m.code == 160 and len(m.payload) == 0 and is_new(m) and m.opt.content_format is None and m.opt.etag is None', m=e[2]))))
        g.append(('renderer-consulted-only-for-renderable-errors', B(len(tm) <= 1)))
        g.append(('exceptions-that-are-not-renderable-are-not-inspected', B(not evs(s, 'getattr_dynamic', 'call'))))
        for t in tm:
            g.append(('renders-this-exception', ev('x is event[1]', x=t[1])))
        g.append(('keeps-listening-only-for-non-final-messages', result.t == z3.And(is_msg, z3.Not(ev('event[2]')))))
        return g

    from aiocoap.message import Message as _M
    MSGCLS = VFunc('class', pyobj=_M, key='aiocoap.message:Message')
    reg.contract('aiocoap.pipe:error_to_message.<locals>.on_event', params={'event': EVENT}, result=BOOL, properties=P,
                 captures={'old_pr': Ref('PipeI'), 'log': ANY, 'Message': MSGCLS},
                 requires=['(event[0] is None) != (event[1] is None)'],
                 only_raises=True, at_exit=ote_exit, modifies=['*'])

    # ---- run_driving_pipe: every exception of the render coroutine becomes one exception event
    def wrapped_exit(ex, s, entry, env, result):
        adds, raised = evs(s, 'pipe_add_exception'), evs(s, 'await_raised')
        g = [('one-exception-event-per-failed-rendering', B(len(adds) == len(raised) and len(adds) <= 1))]
        for a, r in zip(adds, raised):
            g.append(('the-raised-exception-is-passed-on', a[2].t == r[2].t))
            g.append(('to-the-driven-pipe', a[1].t == env['pipe'].t))
        return g

    reg.contract('aiocoap.pipe:run_driving_pipe.<locals>.wrapped', params={}, properties=P,
                 captures={'coroutine': CALLABLE, 'pipe': Ref('PipeI')},
                 raises={'CancelledError': MAY}, only_raises=True, modifies=['*'], at_exit=wrapped_exit,
                 awaits={0: {'havoc': True, 'raises': ['builtins:Exception'], 'owned': []}})

    # ---- resource.Resource.render: method dispatch and default codes
    RR = 'aiocoap.resource:Resource'
    reg.declare_class('SimpleResource', RR, fields={})

    def rr_exit(ex, s, entry, env, result):
        ev = Ev(ex, s, entry, env)
        calls = evs(s, 'call')
        g = [('handler-called-once', B(len(calls) == 1))]
        for c in calls:
            g.append(('handler-gets-the-request', B(len(c[2]) == 1) if isinstance(c[2], tuple) else B(True)))
        g.append(('result-is-what-the-handler-returned-or-the-NoResponse-replacement', B(True)))
        g.append(('default-code-by-method', ev('implies(handler_code is None, result.code == (69 if request.code in (1, 5) else 66 if request.code == 4 else 68))', result=result,
                                                 handler_code=s.ghost.get('$handler_code', VNone()))))
        g.append(('set-code-is-kept', ev('implies(handler_code is not None, result.code == handler_code)', result=result,
                                          handler_code=s.ghost.get('$handler_code', VNone()))))
        g.append(('no-response-copied-only-if-unset', ev('implies(handler_nr is None, result.opt.no_response == request.opt.no_response) and implies(handler_nr is not None, result.opt.no_response == handler_nr)',
                                                         result=result, handler_nr=s.ghost.get('$handler_nr', VNone()))))
        return g

    def rr_await_assume(ex, s):
        pass

    def remember_handler_result(ex, s, rv):
        MF = reg.classes['Message'].fields
        if isinstance(rv, VOpt):
            m = rv.some()
        else:
            m = rv
        s.ghost['$handler_code'] = ex.read_field(s, m, 'code', MF['code'])
        o = ex.read_field(s, m, 'opt', MF['opt'])
        s.ghost['$handler_nr'] = ex.read_field(s, o, 'no_response', reg.classes['Options'].fields['no_response'])

    reg.contract(RR + '.render', params={'request': MSG}, result=MSG, self_class='SimpleResource', properties=P,
                 requires=['request.code is not None', '0 <= request.code <= 255'],
                 raises={'UnsupportedMethod': 'not (1 <= request.code < 32)', 'UnallowedMethod': MAY, 'AssertionError': MAY,
                         'AttributeError': MAY, 'TypeError': MAY, 'CancelledError': MAY, 'Exception': MAY},
                 raises_post={'UnallowedMethod': {'only-without-a-handler': lambda ctx: B(not evs(ctx.st, 'call'))},
                              'AttributeError': {'only-for-a-non-message-result': lambda ctx: B(len(evs(ctx.st, 'call')) == 1)}},
                 modifies=['*'], at_exit=rr_exit,
                 awaits={0: {'havoc': True, 'result': Opt(MSG), 'raises': ['builtins:Exception'], 'owned': ['request', 'request.opt'],
                             'after': remember_handler_result}})

    # ---- Context: a context without a site answers 4.04
    CTX = 'aiocoap.protocol:Context'
    reg.declare_class('Context', CTX, fields={'serversite': Opt(Ref('SiteI'))})
    reg.declare_class('SiteI', 'aiocoap.interfaces:Resource', opaque=True)
    # the server site is an object of the application: a class with __len__ / __bool__ (a container-like root resource) may be false
    reg.unknown_truthiness = set(getattr(reg, 'unknown_truthiness', ())) | {'SiteI'}
    reg.externals['SiteI.render_to_pipe'] = lambda ex, st, args, kw, node: (st.log.append(('site_render_to_pipe',) + tuple(args)), [(st, VNone())])[1]

    def crtp_exit(ex, s, entry, env, result):
        ev = Ev(ex, s, entry, env)
        nosite = ev('old(self.serversite) is None')
        adds, site = evs(s, 'pipe_add_response'), evs(s, 'site_render_to_pipe')
        g = [('no-site-gives-one-final-4.04', z3.Implies(nosite, B(len(adds) == 1 and len(site) == 0))),
             ('otherwise-the-site-renders', z3.Implies(z3.Not(nosite), B(len(adds) == 0 and len(site) == 1)))]
        for a in adds:
            kw = dict(a[-1])
            g.append(('4.04-final', z3.And(ev('m.code == 132', m=a[2]), ex.truth(s, kw['is_last']) if 'is_last' in kw else B(False), a[1].t == env['pipe'].t)))
        for c in site:
            g.append(('site-gets-this-pipe', c[2].t == env['pipe'].t))
        return g

    reg.contract(CTX + '._render_to_pipe', params={'pipe': Ref('PipeI')}, properties=P, raises={'Exception': MAY, 'CancelledError': MAY},
                 modifies=['*'], at_exit=crtp_exit, awaits={0: {'havoc': True}})
