"""C17 -- Site routing (aiocoap/resource.py)"""
import z3
from pyvc.values import *   # noqa
from pyvc.registry import MAY
from contracts.util import lg, lg_result, evs, count, B, Ev, dict_frame, quantified

SITE = 'aiocoap.resource:Site'
PATH = Seq(STR)


def register(reg, prog):
    P = ['C17']
    MSG = Ref('Message')
    RES = Ref('ResourceI')
    reg.declare_class('Site', SITE, fields={'_resources': Dict(SKEY, RES, 'site.resources'), '_subsites': Dict(SKEY, RES, 'site.subsites')})
    F = reg.classes['Site'].fields
    reg.assume('A-SKEY: tuples of strings used as dictionary keys are represented by an injective code of the sequence (equal tuples, equal keys)')

    def sid(seq):
        return coerce(seq, SKEY).t

    @reg.specfunc('has_res')
    def has_res(ex, st, site, path):
        d = ex.read_field(st, site, '_resources', F['_resources'])
        return VBool(z3.Select(ex.dict_dom(st, d), sid(path)))

    @reg.specfunc('res_at')
    def res_at(ex, st, site, path):
        d = ex.read_field(st, site, '_resources', F['_resources'])
        return from_term(RES, z3.Select(ex.dict_vals(st, d), sid(path)))

    @reg.specfunc('has_sub')
    def has_sub(ex, st, site, path):
        d = ex.read_field(st, site, '_subsites', F['_subsites'])
        return VBool(z3.Select(ex.dict_dom(st, d), sid(path)))

    @reg.specfunc('sub_at')
    def sub_at(ex, st, site, path):
        d = ex.read_field(st, site, '_subsites', F['_subsites'])
        return from_term(RES, z3.Select(ex.dict_vals(st, d), sid(path)))

    U = 'request.opt.uri_path'
    NOLONGER = 'forall(k, len(path) + 1, len(%s), not has_sub(self, %s[:k]))' % (U, U)

    def find_exit(ex, s, entry, env, result):
        ev = Ev(ex, s, entry, env)
        res, stripped = result.items
        exact = ev('has_res(self, %s)' % U)
        g = [('exact-match-has-priority', z3.Implies(exact, ev('r is res_at(self, %s) and len(m.opt.uri_path) == 0' % U, r=res, m=stripped))),
             ('stripped-is-a-copy-of-the-request', ev('m is not request and m.code == request.code and m.payload == request.payload and m.token == request.token and m.remote is request.remote', m=stripped)),
             ('original-path-remembered', ev('m._original_request_path == (old(request._original_request_path) if old(request._original_request_path) is not None else %s)' % U, m=stripped))]
        if s.ghost.get('$head') is not None:
            hv = lambda t, **kw: ex.truth(s, ex.spec_val(s, t, env=dict(ex.visible_env(s), **kw)))
            g += [('prefix-match-only-without-exact-match', z3.Not(exact)),
                  ('nested-site-at-this-prefix', hv('has_sub(self, path) and r is sub_at(self, path)', r=res)),
                  ('prefix-is-proper-and-nonempty', hv('0 < len(path) < len(%s) and path == %s[:len(path)]' % (U, U))),
                  ('longest-such-prefix', hv(NOLONGER)),
                  ('remaining-components-handed-on', hv('m.opt.uri_path == (%s[len(path):] if %s[len(path):] != ("",) else ())' % (U, U), m=stripped))]
        return g

    def find_raise(ctx):
        ev = lambda t: ctx.ex.truth(ctx.st, ctx.ev(t))
        return z3.And(z3.Not(ev('has_res(self, %s)' % U)), ev('forall(k, 1, len(%s), not has_sub(self, %s[:k]))' % (U, U)))

    reg.contract(SITE + '._find_child_and_pathstripped_message', params={'request': MSG}, result=Tuple(RES, MSG), properties=P,
                 requires=['request.code is not None'],
                 raises={'KeyError': MAY}, only_raises=True,
                 raises_post={'KeyError': {'only-when-nothing-matches': find_raise,
                                           'not-even-a-nested-site-at-the-empty-prefix': lambda ctx: z3.Or(z3.Not(ctx.ex.truth(ctx.st, ctx.ev('has_sub(self, ())'))), ctx.ex.truth(ctx.st, ctx.ev('len(%s) == 0' % U)))}},
                 invariants={0: ['is_new(remainder)', 'len(remainder) >= 1', 'len(path) + len(remainder) == len(%s)' % U, 'path == %s[:len(path)]' % U,
                                 'forall(j, 0, len(remainder), remainder[j] == %s[len(path) + j])' % U, NOLONGER,
                                 'not has_res(self, %s)' % U]},
                 at_exit=find_exit, local_types={'remainder': List(STR)}, hints={'[]': STR},
                 ghost=lg_result('find_child', 'self', 'request'))

    # ---- registration
    def add_exit(ex, s, entry, env, result):
        return []

    reg.declare_class('ResourceI', 'aiocoap.interfaces:Resource', fields={'_block1': Ref('Block1Spool'), '_block2': Ref('Block2Cache')})
    reg.contract(SITE + '.remove_resource', params={'path': PATH}, properties=P,
                 raises={'KeyError': 'not has_sub(self, path) and not has_res(self, path)'}, only_raises=True,
                 modifies=['dict:self._resources', 'dict:self._subsites'],
                 ensures={'nested-site-removed-first': 'implies(old(has_sub(self, path)), not has_sub(self, path) and has_res(self, path) == old(has_res(self, path)))',
                          'else-resource-removed': 'implies(not old(has_sub(self, path)), not has_res(self, path))',
                          'others-untouched': lambda ctx: z3.And(dict_frame(ctx.ex, ctx.st, ctx.old_st, ctx.env['self'], F, '_resources', coerce(ctx.env['path'], SKEY)),
                                                                 dict_frame(ctx.ex, ctx.st, ctx.old_st, ctx.env['self'], F, '_subsites', coerce(ctx.env['path'], SKEY)))})

    # ---- render: unknown paths give 4.04
    reg.contract('aiocoap.interfaces:Resource.render', params={'request': MSG}, result=MSG, verify=False, properties=P, modifies=['*'],
                 raises={'Exception': MAY}, ghost=lg_result('child_render', 'self', 'request'),
                 trusted_reason='abstract method of the resource interface (the application handler)') if 'aiocoap.interfaces:Resource.render' not in reg.contracts else None

    def render_exit(ex, s, entry, env, result):
        f, r = evs(s, 'find_child'), evs(s, 'render') + evs(s, 'child_render')
        g = [('routed-once', B(len(f) == 1 and len(r) == 1))]
        for a, b in zip(f, r):
            res, stripped = a[-1].items
            g.append(('rendered-by-the-routed-resource', b[1].t == res.t))
            g.append(('with-the-stripped-request', b[2].t == stripped.t))
        return g

    reg.contract(SITE + '.render', params={'request': MSG}, result=MSG, properties=P + ['C09'], requires=['request.code is not None'],
                 raises={'NotFound': MAY, 'Exception': MAY, 'CancelledError': MAY}, modifies=['*'],
                 raises_post={'NotFound': {'only-when-no-route': lambda ctx: B(not evs(ctx.st, 'render', 'child_render'))}},
                 at_exit=render_exit, awaits={0: {'havoc': False}})


def bounded(tier, seed):
    """Discovery vs. routing, natively on real Site objects (string composition of the listing is outside the string model):
    every link of get_resources_as_linkheader(), requested at the path its href spells, must be routed to the very resource
    that link describes, and every resource with a description is listed exactly once.  Bounded, never counted as proved."""
    import asyncio, itertools, os
    import aiocoap
    from aiocoap import resource, Message, GET
    from aiocoap.message import Direction
    VERIF = os.path.dirname(os.path.dirname(os.path.abspath(__file__)))

    class Leaf(resource.Resource):
        def __init__(self, tag):
            super().__init__()
            self.tag = tag

        def get_link_description(self):
            return {'title': self.tag}

        async def render_get(self, request):
            return Message(payload=self.tag.encode())

    comps = ['a', 'b', '']
    # ('',) is left out at top level: its href is "/" which RFC 7252 6.4 decomposes to NO Uri-Path option (the C16 degenerate
    # case), so no URI addresses such a registration at all
    paths = [p for k in range(0, 3) for p in itertools.product(comps, repeat=k) if p != ('',)]
    nestpoints = [('sub',), ('s', 't'), ('batch',)]
    viol, n, samples, known = [], 0, [], {}

    def route(site, href):
        assert href.startswith('/'), href
        req = Message(code=GET, uri_path=tuple(href[1:].split('/')) if href != '/' else ())
        req.direction = Direction.INCOMING
        # a path spelled "/x/" has the components ('x', ''): exactly what urllib-free splitting gives
        try:
            return asyncio.run(site.render(req)).payload.decode()
        except Exception as e:
            return 'ERR ' + type(e).__name__

    combos = list(itertools.combinations(paths, 2))
    if tier != 'thorough':
        combos = combos[::3]
    for top_paths in combos:
        for np in nestpoints:
            for inner_paths in ([(), ('x',)], [('',)], [('y', '')], [(), ('more', '')]):
                n += 1
                root, inner = resource.Site(), resource.Site()
                expect = {}
                for p in top_paths:
                    if p[:len(np)] == np:
                        continue
                    tag = 'top:' + '/'.join(p) + '#%d' % len(expect)
                    root.add_resource(p, Leaf(tag))
                    expect[tag] = None
                for p in inner_paths:
                    tag = 'in:' + '/'.join(p) + '#%d' % len(expect)
                    inner.add_resource(p, Leaf(tag))
                    expect[tag] = None
                root.add_resource(np, inner)
                links = root.get_resources_as_linkheader().links
                titles = [dict(l.attr_pairs).get('title') for l in links]
                bad = None
                if sorted(titles) != sorted(expect):
                    bad = 'listing names %r, registered %r' % (sorted(titles), sorted(expect))
                else:
                    for l in links:
                        t = dict(l.attr_pairs).get('title')
                        if not l.href.startswith('/'):
                            bad = 'link for %s has a href that is not an absolute path: %r' % (t, l.href)
                            break
                        got = route(root, l.href)
                        if got != t:
                            bad = 'link <%s> for %s is answered by %s' % (l.href, t, got)
                            break
                if bad and ('',) in inner_paths and 'NotFound' in bad and bad.startswith('link <%s/>' % ('/' + '/'.join(np))):
                    # the deliberate special case of the router (a single empty remaining component addresses the nested site's
                    # root) shadows a resource registered at ('',) inside a nested site: recorded finding, see known_findings.json
                    known.setdefault('C17-nested-empty-component', bad + ' (nested site at %r with %r)' % (np, inner_paths))
                    bad = None
                if len(samples) < 3 and n % 50 == 0:
                    samples.append({'registered': sorted(expect), 'listed': [l.href for l in links]})
                if bad and len(viol) < 10:
                    path = os.path.join(VERIF, 'replays', 'C17-listing-%d.py' % (len(viol) + 1))
                    os.makedirs(os.path.dirname(path), exist_ok=True)
                    with open(path, 'w') as f:
                        f.write('#!/venv/bin/python\n"""C17 replay (bounded stand-in, discovery vs routing): %s\nsite: top-level %r, nested site at %r with %r"""\n'
                                'import sys, os\nsys.path.insert(0, %r); sys.path.insert(0, os.environ.get("VERIF_REPO", "/repo"))\n'
                                'from contracts.c17 import replay_listing\nsys.exit(replay_listing(%r, %r, %r))\n' % (bad, top_paths, np, inner_paths, VERIF, list(top_paths), np, inner_paths))
                    viol.append({'what': bad + ' (top-level %r, nested site at %r with %r)' % (top_paths, np, inner_paths), 'replay': path})
    return [{'name': 'C17/discovery-lists-routable-full-paths', 'tool': 'bounded enumeration (native Site objects)',
             'bound': 'pairs of top-level paths over %r up to 2 components x 3 nesting points x 4 inner layouts' % comps,
             'inputs_tried': n, 'samples': samples, 'violations': viol, 'known': [{'id': k, 'what': v} for k, v in known.items()], 'counted_as_proved': False}]


def replay_listing(top_paths, np, inner_paths):
    import asyncio
    from aiocoap import resource, Message, GET
    from aiocoap.message import Direction

    class Leaf(resource.Resource):
        def __init__(self, tag):
            super().__init__()
            self.tag = tag

        def get_link_description(self):
            return {'title': self.tag}

        async def render_get(self, request):
            return Message(payload=self.tag.encode())
    root, inner = resource.Site(), resource.Site()
    k = 0
    for p in top_paths:
        if tuple(p[:len(np)]) == tuple(np):
            continue
        root.add_resource(tuple(p), Leaf('top:' + '/'.join(p) + '#%d' % k)); k += 1
    for p in inner_paths:
        inner.add_resource(tuple(p), Leaf('in:' + '/'.join(p) + '#%d' % k)); k += 1
    root.add_resource(tuple(np), inner)
    bad = 0
    for l in root.get_resources_as_linkheader().links:
        t = dict(l.attr_pairs).get('title')
        if not l.href.startswith('/'):
            print('href not absolute:', repr(l.href), t); bad = 1; continue
        req = Message(code=GET, uri_path=tuple(l.href[1:].split('/')) if l.href != '/' else ())
        req.direction = Direction.INCOMING
        try:
            got = asyncio.run(root.render(req)).payload.decode()
        except Exception as e:
            got = 'ERR ' + type(e).__name__
        print(l.href, '->', got, '(describes %s)' % t)
        bad |= got != t
    return 1 if bad else 0
