"""C17 -- Site routing (aiocoap/resource.py)"""
import z3
from pyvc.values import *   # noqa
from pyvc.registry import MAY
from contracts.util import lg, lg_result, evs, count, B, Ev, dict_frame, quantified

SITE = 'aiocoap.resource:Site'
PATH = Seq(STR)


def register(reg, prog):
    P = ['C17']
    MSG = Ref('Message')
    RES = Ref('ResourceI')
    reg.declare_class('Site', SITE, fields={'_resources': Dict(SKEY, RES, 'site.resources'), '_subsites': Dict(SKEY, RES, 'site.subsites')})
    F = reg.classes['Site'].fields
    reg.assume('A-SKEY: tuples of strings used as dictionary keys are represented by an injective code of the sequence (equal tuples, equal keys)')

    def sid(seq):
        return coerce(seq, SKEY).t

    @reg.specfunc('has_res')
    def has_res(ex, st, site, path):
        d = ex.read_field(st, site, '_resources', F['_resources'])
        return VBool(z3.Select(ex.dict_dom(st, d), sid(path)))

    @reg.specfunc('res_at')
    def res_at(ex, st, site, path):
        d = ex.read_field(st, site, '_resources', F['_resources'])
        return from_term(RES, z3.Select(ex.dict_vals(st, d), sid(path)))

    @reg.specfunc('has_sub')
    def has_sub(ex, st, site, path):
        d = ex.read_field(st, site, '_subsites', F['_subsites'])
        return VBool(z3.Select(ex.dict_dom(st, d), sid(path)))

    @reg.specfunc('sub_at')
    def sub_at(ex, st, site, path):
        d = ex.read_field(st, site, '_subsites', F['_subsites'])
        return from_term(RES, z3.Select(ex.dict_vals(st, d), sid(path)))

    U = 'request.opt.uri_path'
    NOLONGER = 'forall(k, len(path) + 1, len(%s), not has_sub(self, %s[:k]))' % (U, U)

    def find_exit(ex, s, entry, env, result):
        ev = Ev(ex, s, entry, env)
        res, stripped = result.items
        exact = ev('has_res(self, %s)' % U)
        g = [('exact-match-has-priority', z3.Implies(exact, ev('r is res_at(self, %s) and len(m.opt.uri_path) == 0' % U, r=res, m=stripped))),
             ('stripped-is-a-copy-of-the-request', ev('m is not request and m.code == request.code and m.payload == request.payload and m.token == request.token and m.remote is request.remote', m=stripped)),
             ('original-path-remembered', ev('m._original_request_path == (old(request._original_request_path) if old(request._original_request_path) is not None else %s)' % U, m=stripped))]
        if s.ghost.get('$head') is not None:
            hv = lambda t, **kw: ex.truth(s, ex.spec_val(s, t, env=dict(ex.visible_env(s), **kw)))
            g += [('prefix-match-only-without-exact-match', z3.Not(exact)),
                  ('nested-site-at-this-prefix', hv('has_sub(self, path) and r is sub_at(self, path)', r=res)),
                  ('prefix-is-proper-and-nonempty', hv('0 < len(path) < len(%s) and path == %s[:len(path)]' % (U, U))),
                  ('longest-such-prefix', hv(NOLONGER)),
                  ('remaining-components-handed-on', hv('m.opt.uri_path == (%s[len(path):] if %s[len(path):] != ("",) else ())' % (U, U), m=stripped))]
        return g

    def find_raise(ctx):
        ev = lambda t: ctx.ex.truth(ctx.st, ctx.ev(t))
        return z3.And(z3.Not(ev('has_res(self, %s)' % U)), ev('forall(k, 1, len(%s), not has_sub(self, %s[:k]))' % (U, U)))

    reg.contract(SITE + '._find_child_and_pathstripped_message', params={'request': MSG}, result=Tuple(RES, MSG), properties=P + ['C09'],   # C09: unknown paths give 4.04
                 requires=['request.code is not None'],
                 raises={'KeyError': MAY}, only_raises=True,
                 raises_post={'KeyError': {'only-when-nothing-matches': find_raise,
                                           'not-even-a-nested-site-at-the-empty-prefix': lambda ctx: z3.Or(z3.Not(ctx.ex.truth(ctx.st, ctx.ev('has_sub(self, ())'))), ctx.ex.truth(ctx.st, ctx.ev('len(%s) == 0' % U)))}},
                 invariants={0: ['is_new(remainder)', 'len(remainder) >= 1', 'len(path) + len(remainder) == len(%s)' % U, 'path == %s[:len(path)]' % U,
                                 'forall(j, 0, len(remainder), remainder[j] == %s[len(path) + j])' % U, NOLONGER,
                                 'not has_res(self, %s)' % U]},
                 at_exit=find_exit, local_types={'remainder': List(STR)}, hints={'[]': STR},
                 ghost=lg_result('find_child', 'self', 'request'))

    # ---- registration
    def add_exit(ex, s, entry, env, result):
        return []

    reg.declare_class('ResourceI', 'aiocoap.interfaces:Resource', fields={'_block1': Ref('Block1Spool'), '_block2': Ref('Block2Cache')})
    reg.contract(SITE + '.remove_resource', params={'path': PATH}, properties=P,
                 raises={'KeyError': 'not has_sub(self, path) and not has_res(self, path)'}, only_raises=True,
                 modifies=['dict:self._resources', 'dict:self._subsites'],
                 ensures={'nested-site-removed-first': 'implies(old(has_sub(self, path)), not has_sub(self, path) and has_res(self, path) == old(has_res(self, path)))',
                          'else-resource-removed': 'implies(not old(has_sub(self, path)), not has_res(self, path))',
                          'others-untouched': lambda ctx: z3.And(dict_frame(ctx.ex, ctx.st, ctx.old_st, ctx.env['self'], F, '_resources', coerce(ctx.env['path'], SKEY)),
                                                                 dict_frame(ctx.ex, ctx.st, ctx.old_st, ctx.env['self'], F, '_subsites', coerce(ctx.env['path'], SKEY)))})

    # ---- render: unknown paths give 4.04
    reg.contract('aiocoap.interfaces:Resource.render', params={'request': MSG}, result=MSG, verify=False, properties=P, modifies=['*'],
                 raises={'Exception': MAY}, ghost=lg_result('child_render', 'self', 'request'),
                 ghost_exc=lambda ex, s, env, cls: s.log.append(('child_render', env['self'], env['request'], None)),
                 trusted_reason='abstract method of the resource interface (the application handler)') if 'aiocoap.interfaces:Resource.render' not in reg.contracts else None

    def render_exit(ex, s, entry, env, result):
        f, r = evs(s, 'find_child'), evs(s, 'render') + evs(s, 'child_render')
        g = [('routed-once', B(len(f) == 1 and len(r) == 1))]
        for a, b in zip(f, r):
            res, stripped = a[-1].items
            g.append(('rendered-by-the-routed-resource', b[1].t == res.t))
            g.append(('with-the-stripped-request', b[2].t == stripped.t))
        return g

    reg.contract(SITE + '.render', params={'request': MSG}, result=MSG, properties=P + ['C09'], requires=['request.code is not None'],
                 raises={'NotFound': MAY, 'Exception': MAY, 'CancelledError': MAY}, modifies=['*'],
                 raises_post={'NotFound': {'only-when-no-route': lambda ctx: B(not evs(ctx.st, 'render', 'child_render'))}},
                 at_exit=render_exit, awaits={0: {'havoc': False}})

    # ---- render_to_pipe: the path the server context actually takes.  The handler of the routed resource is the environment: it may
    # raise anything (a KeyError of its own included), and only a failed ROUTE is a 4.04
    reg.contract('aiocoap.interfaces:Resource.render_to_pipe', params={'pipe': Ref('PipeI')}, verify=False, properties=P, modifies=['*'],
                 raises={'Exception': MAY}, ghost=lg('child_render_to_pipe', 'self', 'pipe'),
                 ghost_exc=lambda ex, s, env, cls: s.log.append(('child_render_to_pipe', env['self'], env['pipe'])),
                 trusted_reason='abstract method of the resource interface (the application handler, or a nested site): may raise anything, a KeyError of its own included') \
        if 'aiocoap.interfaces:Resource.render_to_pipe' not in reg.contracts else None
    reg.assume('A-UPA: requests carry no Uri-Path-Abbrev option (_expand_upa leaves them as they are)')
    reg.externals['repo:aiocoap.resource:_expand_upa'] = lambda ex, st, args, kw, node: [(st, VNone())]

    def rtp_exit(ex, s, entry, env, result):
        f, r = evs(s, 'find_child'), evs(s, 'child_render_to_pipe')
        g = [('routed-once', B(len(f) == 1 and len(r) == 1))]
        for a, b in zip(f, r):
            res, stripped = a[-1].items
            g.append(('rendered-by-the-routed-resource', b[1].t == res.t))
            g.append(('the-same-pipe-is-handed-on', b[2].t == env['request'].t))
        return g

    def rtp_not_found(ctx):
        # C09: "any other exception ... produce[s] a bare 5.00" -- whatever the handler raises must not be mistaken for an unknown path
        return B(not evs(ctx.st, 'child_render_to_pipe'))

    reg.contract(SITE + '.render_to_pipe', params={'request': Ref('PipeI')}, properties=P + ['C09'], requires=['request.request.code is not None'],
                 raises={'NotFound': MAY, 'Exception': MAY, 'CancelledError': MAY}, modifies=['*'],
                 raises_post={'NotFound': {'only-when-no-route': rtp_not_found}},
                 at_exit=rtp_exit, awaits={0: {'havoc': False}})


def bounded(tier, seed):
    from specs.c17_listing import bounded as b
    return b(tier, seed)
