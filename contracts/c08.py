"""C08 -- observe server: ServerObservation (lossy latest-value trigger), ObservableResource._render_to_pipe
(notification loop and finally-cancellation), resource.ObservableResource bookkeeping, TokenManager.process_request
(token binding, replacement of a request on the same token)."""
import z3
from pyvc.values import *   # noqa
from pyvc.registry import MAY
from contracts.util import lg, lg_result, evs, count, B, Ev

SO = 'aiocoap.protocol:ServerObservation'
OR = 'aiocoap.interfaces:ObservableResource'
RO = 'aiocoap.resource:ObservableResource'


def register(reg, prog):
    P = ['C08']
    MSG = Ref('Message')
    FUT = Ref('FutureI')
    reg.declare_class('ServObs', SO, fields={'_accepted': BOOL, '_trigger': FUT, '_early_deregister': BOOL,
                                             '_late_deregister': BOOL, '_cancellation_callback': CALLABLE})
    # ghost state of an asyncio future: whether it is completed and with which value.  Futures used as trigger carry
    # Optional[Message]
    reg.classes['FutureI'].fields.update({'g_done': BOOL, 'g_cancelled': BOOL, 'g_value': Opt(MSG)})
    reg.assume('A-FUTURE: an asyncio.Future is a cell (done, value); set_result on a completed future raises '
               'InvalidStateError (checked in the C08 contracts), result() of a completed future returns the value, '
               'awaiting a future returns only after it is completed')

    def strict(ex):
        # the completed-future discipline is checked in the C08 contracts and wherever a contract asks for it (`strict_futures`)
        return ex.cur_contract is not None and ('C08' in ex.cur_contract.properties or getattr(ex.cur_contract, 'strict_futures', False))

    def create_future(ex, st, args, kw, node):
        f = ex.new_object(st, 'FutureI')
        ex.write_field(st, f, 'g_done', BOOL, VBool(z3.BoolVal(False)))
        st.log.append(('create_future',) + tuple(args))
        return [(st, f)]
    reg.externals['Loop.create_future'] = create_future

    def fut_done(ex, st, args, kw, node):
        return [(st, ex.read_field(st, args[0], 'g_done', BOOL))]
    reg.externals['FutureI.done'] = fut_done

    def fut_set_result(ex, st, args, kw, node):
        f, v = args[0], args[1]
        outs = []
        if strict(ex):
            was = ex.read_field(st, f, 'g_done', BOOL)
            bad, st = ex.branch(st, was.t)
            if bad is not None:
                ex.raise_exc(bad, 'asyncio:InvalidStateError')
                outs.append((bad, None))
            if st is None:
                return outs
        st.log.append(('set_result',) + tuple(args))
        ex.write_field(st, f, 'g_done', BOOL, VBool(z3.BoolVal(True)))
        try:
            ex.write_field(st, f, 'g_value', Opt(MSG), coerce(v, Opt(MSG)))
        except Exception:
            ex.write_field(st, f, 'g_value', Opt(MSG), ex.fresh_val(st, Opt(MSG), 'futval'))
        return outs + [(st, VNone())]
    reg.externals['FutureI.set_result'] = fut_set_result

    def fut_set_exception(ex, st, args, kw, node):
        f = args[0]
        outs = []
        if strict(ex):
            was = ex.read_field(st, f, 'g_done', BOOL)
            bad, st = ex.branch(st, was.t)
            if bad is not None:
                ex.raise_exc(bad, 'asyncio:InvalidStateError')
                outs.append((bad, None))
            if st is None:
                return outs
            ex.write_field(st, f, 'g_done', BOOL, VBool(z3.BoolVal(True)))
        st.log.append(('set_exception',) + tuple(args))
        return outs + [(st, VNone())]
    reg.externals['FutureI.set_exception'] = fut_set_exception

    def fut_cancelled(ex, st, args, kw, node):
        # a cancelled future is a completed one
        c = ex.read_field(st, args[0], 'g_cancelled', BOOL)
        st.fact(z3.Implies(c.t, ex.read_field(st, args[0], 'g_done', BOOL).t))
        return [(st, c)]
    reg.externals['FutureI.cancelled'] = fut_cancelled

    def fut_result(ex, st, args, kw, node):
        f = args[0]
        is_done = ex.read_field(st, f, 'g_done', BOOL)
        ok, bad = ex.branch(st, is_done.t)
        outs = []
        if bad is not None:
            ex.raise_exc(bad, 'asyncio:InvalidStateError')
            outs.append((bad, None))
        if ok is not None:
            v = ex.read_field(ok, f, 'g_value', Opt(MSG))
            ok.log.append(('fut_result', f, v))
            outs.append((ok, v))
        return outs
    reg.externals['FutureI.result'] = fut_result

    # ------------------------------------------------------------------ ServerObservation
    reg.contract(SO + '.__init__', self_class='ServObs', properties=P, only_raises=True,
                 ensures={'not-accepted': 'not self._accepted', 'pending-trigger': 'is_new(self._trigger) and not self._trigger.g_done',
                          'flags-clear': 'not self._early_deregister and not self._late_deregister'},
                 modifies=['self._accepted', 'self._trigger', 'self._early_deregister', 'self._late_deregister', 'field:g_done'])
    reg.contract(SO + '.accept', self_class='ServObs', params={'cancellation_callback': CALLABLE}, properties=P, only_raises=True,
                 ensures={'accepted': 'self._accepted', 'callback-kept': 'self._cancellation_callback is cancellation_callback'},
                 modifies=['self._accepted', 'self._cancellation_callback'])
    TRIGGER_ENS = {'latest-value-available': 'self._trigger.g_done and self._trigger.g_value == response',
                   'pending-future-completed-in-place': 'implies(not old(self._trigger.g_done), self._trigger is old(self._trigger))',
                   'consumed-or-overwritten-future-replaced': 'implies(old(self._trigger.g_done), is_new(self._trigger))',
                   'marks-last': 'self._late_deregister == (old(self._late_deregister) or is_last)'}
    reg.contract(SO + '.trigger', self_class='ServObs', params={'response': Opt(MSG), 'is_last': BOOL}, properties=P,
                 only_raises=True, ensures=TRIGGER_ENS,
                 modifies=['self._trigger', 'self._late_deregister', 'field:g_done', 'field:g_value'])
    reg.contract(SO + '.deregister', self_class='ServObs', params={'reason': ANY}, properties=P, only_raises=True,
                 ensures={'first-call-is-early': 'implies(not old(self._early_deregister), self._early_deregister and self._trigger is old(self._trigger) '
                                                 'and self._trigger.g_done == old(self._trigger.g_done))',
                          'later-call-sends-an-error-notification': 'implies(old(self._early_deregister), self._trigger.g_done and '
                                                                    'self._trigger.g_value is not None and self._trigger.g_value.code == 160)'},
                 modifies=['*'])

    # ------------------------------------------------------------------ the notification loop
    reg.declare_class('ObsResourceI', OR, fields={'_block1': Ref('Block1Spool'), '_block2': Ref('Block2Cache')})
    reg.contract(OR + '.add_observation', self_class='ObsResourceI', params={'request': MSG, 'serverobservation': Ref('ServObs')},
                 verify=False, properties=P, raises={'Exception': MAY, 'CancelledError': MAY},
                 ghost=lg('add_observation', 'self', 'request', 'serverobservation'),
                 modifies=['serverobservation._accepted', 'serverobservation._cancellation_callback'],
                 trusted_reason='abstract method of the resource interface: the application accepts (or not) by calling accept(cb)')

    base_add = reg.externals['PipeI.add_response']

    def add_response(ex, st, args, kw, node):
        """record, next to the call, the Observe value and code the message carries at this moment"""
        outs = base_add(ex, st, args, kw, node)
        if not strict(ex):
            return outs
        for s, _ in outs:
            if s.exc is None:
                m = args[1]
                s.log.append(('add_obs', m, ex.spec_val(s, 'm.opt.observe', env={'m': m}), ex.spec_val(s, 'm.code', env={'m': m}),
                              kw.get('is_last', args[2] if len(args) > 2 else VBool(z3.BoolVal(False)))))
        return outs
    reg.externals['PipeI.add_response'] = add_response

    OWNED = ['pipe', 'pipe.request', 'pipe.request.opt', 'self', 'servobs']

    def environment(k):
        """what other tasks may do to the observation while this coroutine is suspended at await #k: call trigger() /
        deregister() any number of times.  By the contract of trigger (above) the net effect is: nothing, or _trigger is
        a completed future (the old one if it was pending, else a new one); the deregistration flags only ever get set."""
        def after(ex, s, rv):
            so, _ = s.lookup('servobs')
            if so is None:
                return
            old = ex.read_field(s, so, '_trigger', FUT)
            old_done = ex.read_field(s, old, 'g_done', BOOL)
            triggered = z3.Bool(fresh_name('env_triggered'))
            x = ex.fresh_val(s, FUT, 'env_future')
            now = VRef(z3.If(triggered, x.t, old.t), 'FutureI')
            ex.write_field(s, so, '_trigger', FUT, now)
            now_done = ex.read_field(s, now, 'g_done', BOOL)
            s.assume(z3.Implies(triggered, now_done.t))
            s.assume(z3.Implies(triggered, z3.Or(z3.And(x.t == old.t, z3.Not(old_done.t)), z3.And(x.t != old.t, old_done.t))))
            if k == 'trigger':
                s.assume(now_done.t)        # the awaited future (or its replacement) has been completed
            for flag in ('_late_deregister', '_early_deregister'):
                was = ex.read_field(s, so, flag, BOOL)
                ex.write_field(s, so, flag, BOOL, VBool(z3.Or(was.t, z3.Bool(fresh_name('env' + flag)))))
            s.ghost['$trig_snap'] = (now, len(s.log))
        return after

    def not_lost(ex, s):
        """since the last scheduling point the code has not replaced servobs._trigger without reading its result"""
        snap = s.ghost.get('$trig_snap')
        so, _ = s.lookup('servobs')
        if snap is None or so is None:
            return B(True)
        f0, n0 = snap
        cur = ex.read_field(s, so, '_trigger', FUT)
        consumed = [e for e in s.log[n0:] if e[0] == 'fut_result']
        return z3.Or(cur.t == f0.t, *[e[1].t == f0.t for e in consumed])

    def at_await(ex, s, entry, env):
        return [('a-trigger-that-arrived-while-suspended-is-not-discarded', not_lost(ex, s))]

    def step(ex, s, snap):
        new = s.log[len(snap.log):]
        ev = lambda t, **kw: ex.truth(s, ex.spec_val(s, t, env=dict(ex.visible_env(s), **kw)))
        adds = [e for e in new if e[0] == 'add_obs']
        reads = [i for i, e in enumerate(new) if e[0] == 'fut_result']
        renders = [i for i, e in enumerate(new) if e[0] == 'render']
        g = [('one-notification-per-wakeup', B(len(adds) == 1)),
             ('a-trigger-that-arrived-while-suspended-is-not-discarded', not_lost(ex, s)),
             ('trigger-value-read-once', B(len(reads) == 1)),
             ('rendered-after-the-trigger-was-taken', B(all(r > reads[0] for r in renders) if reads else False))]
        for a in adds:
            g.append(('continues-only-after-a-non-final-notification', z3.Not(ex.truth(s, a[4]))))
            g.append(('observe-number-incremented', ev('next_observation_number == head(next_observation_number) + 1')))
            g.append(('notification-carries-the-next-number', ev('o is not None and o == next_observation_number', o=a[2])))
        return g

    def first_clauses(ex, s, entry, env):
        """at the loop's first wait: the registration was accepted and confirmed with Observe 0"""
        adds = [e for e in s.log if e[0] == 'add_obs']
        g = [('first-notification-sent-before-waiting', B(len(adds) == 1))]
        for a in adds:
            g.append(('registration-confirmed-with-observe-0', z3.And(z3.Not(a[2].is_none()), a[2].some().t == 0, z3.Not(ex.truth(s, a[4])))))
        return g

    def loop_entry(ctx):
        return z3.And(not_lost(ctx.ex, ctx.st), *[c for _, c in first_clauses(ctx.ex, ctx.st, None, ctx.env)])

    def successful(code):
        return z3.And(code.t >= 64, code.t < 96)

    def exit_clauses(ex, s, env):
        g = []
        log = s.log
        kinds = [e[0] for e in log]
        adds = [i for i, e in enumerate(log) if e[0] == 'add_obs']
        addobs = [i for i, k in enumerate(kinds) if k == 'add_observation']
        so, _ = s.lookup('servobs')
        if addobs and so is not None:
            cb = ex.read_field(s, so, '_cancellation_callback', CALLABLE)
            calls = [i for i, e in enumerate(log) if e[0] == 'call']
            g.append(('cancellation-callback-runs-exactly-once', z3.And(B(len(calls) == 1), *[log[i][1] == cb.t for i in calls])))
            g.append(('nothing-is-sent-after-the-cancellation-callback', B(all(a < c for a in adds for c in calls))))
        else:
            g.append(('no-callback-without-registration', B('call' not in kinds)))
        for n, i in enumerate(adds):
            last = ex.truth(s, log[i][4])
            if n < len(adds) - 1:
                g.append(('nothing-is-sent-after-a-final-notification', z3.Not(last)))
            code = log[i][3]
            g.append(('an-unsuccessful-notification-is-final', z3.Implies(z3.Not(successful(code.some() if isinstance(code, VOpt) else code)), last)))
        return g

    def rtp_exit(ex, s, entry, env, result):
        g = exit_clauses(ex, s, env)
        adds = [e for e in s.log if e[0] == 'add_obs']
        g.append(('returns-only-after-a-final-response', ex.truth(s, adds[-1][4]) if adds else B('rtp_plain' in [e[0] for e in s.log])))
        return g

    def rtp_raise(ctx):
        return z3.And(B(True), *[c for _, c in exit_clauses(ctx.ex, ctx.st, ctx.env)])

    reg.assume('A-ADDOBS: a resource\'s add_observation either returns normally (having accepted or not) or raises without '
               'having accepted; a cancellation delivered while it is suspended counts as raising')
    reg.contracts['aiocoap.interfaces:Resource._render_to_pipe'].ghost = lg('rtp_plain', 'self', 'pipe')
    RAISES = ['Exception', 'CancelledError']
    ENV_ASSUME = []
    reg.contract(OR + '._render_to_pipe', self_class='ObsResourceI', params={'pipe': Ref('PipeI')}, properties=P,
                 requires=list(reg.contracts['aiocoap.interfaces:Resource._render_to_pipe'].requires),
                 raises={k: MAY for k in RAISES}, modifies=['*'], at_exit=rtp_exit,
                 raises_post={k: {'cancellation-and-order-on-failure': rtp_raise} for k in RAISES},
                 awaits={0: {'havoc': True},
                         1: {'havoc': True, 'owned': OWNED, 'after': environment('add_observation'), 'no_cancel': True},
                         2: {'havoc': True, 'owned': OWNED, 'result': MSG, 'raises': ['builtins:Exception'], 'after': environment('render'),
                             'result_assume': ['result.code is not None', 'result is not pipe.request', 'result.opt is not pipe.request.opt']},
                         3: {'havoc': True, 'owned': OWNED, 'result': ANY, 'after': environment('trigger')},
                         4: {'havoc': True, 'owned': OWNED, 'result': MSG, 'raises': ['builtins:Exception'], 'check': at_await,
                             'after': environment('render'),
                             'result_assume': ['result.code is not None', 'result is not pipe.request', 'result.opt is not pipe.request.opt']}},
                 invariants={0: ['next_observation_number >= 0']},
                 loop_entry={0: [loop_entry]}, loop_steps={0: [step]},
                 local_types={'response': Opt(MSG), 'next_observation_number': INT, 'servobs': Ref('ServObs')})

    # ------------------------------------------------------------------ resource.ObservableResource bookkeeping
    OBSET = Dict(Ref('ServObs'), NONE, 'res.observations')
    reg.declare_class('ObsResource', RO, fields={'_observations': OBSET, '_block1': Ref('Block1Spool'), '_block2': Ref('Block2Cache')})
    reg.contract(RO + '.update_observation_count', self_class='ObsResource', params={'newcount': INT}, properties=P,
                 only_raises=True, modifies=[], ghost=lg('update_count', 'self', 'newcount'))

    def addobs_exit(ex, s, entry, env, result):
        ev = Ev(ex, s, entry, env)
        ups = evs(s, 'update_count')
        g = [('count-hook-called-once', B(len(ups) == 1))]
        for u in ups:
            g.append(('count-hook-gets-the-number-of-observers', ev('n == len(self._observations)', n=u[2])))
        created = list(s.ghost.get('$callables', {}).values())
        g.append(('registers-its-own-cancellation-closure', B(len(created) == 1)))
        for f in created:
            g.append(('cancellation-closure-handed-to-the-observation', ex.read_field(s, env['serverobservation'], '_cancellation_callback', CALLABLE).t == f.t))
            # running the closure (later, exactly once) undoes the registration
            outs = run_all(ex, s, f, [])
            g.append(('cancellation-runs-without-error', B(len(outs) == 1 and outs[0].exc is None)))
            for s3 in outs:
                if s3.exc is not None:
                    continue
                e3_ = Ev(ex, s3, entry, env)
                facts = list(s3.pc[len(s.pc):])          # what the run of the closure established along its (single) path
                e3 = lambda t, **kw: z3.Implies(z3.And(B(True), *facts), e3_(t, **kw))
                g.append(('cancellation-removes-the-observer', e3('serverobservation not in self._observations')))
                g.append(('observer-count-returns-to-its-previous-value',
                          e3('len(self._observations) == old(len(self._observations)) - (1 if old(serverobservation in self._observations) else 0)')))
                ups3 = [e for e in s3.log[len(s.log):] if e[0] == 'update_count']
                g.append(('cancellation-reports-the-new-count', z3.And(B(len(ups3) == 1), *[e3('n == len(self._observations)', n=u[2]) for u in ups3])))
                g.append(('cancellation-leaves-other-observers-alone', dict_frame(ex, s3, s, env['self'], reg.classes['ObsResource'].fields, '_observations', env['serverobservation'])))
        return g

    def run_all(ex, s, cb, args):
        s2 = s.copy()
        save = ex.collect_only
        ex.collect_only = True
        try:
            return [o[0] for o in ex.call(s2, cb, list(args), {}, None)]
        finally:
            ex.collect_only = save

    from contracts.util import dict_frame
    reg.contract(RO + '.add_observation', self_class='ObsResource', params={'request': MSG, 'serverobservation': Ref('ServObs')},
                 properties=P, only_raises=True, modifies=['dict:self._observations', 'serverobservation._accepted', 'serverobservation._cancellation_callback'],
                 ensures={'registered': 'serverobservation in self._observations', 'accepted': 'serverobservation._accepted',
                          'one-more-observer': 'len(self._observations) == old(len(self._observations)) + (0 if old(serverobservation in self._observations) else 1)'},
                 at_exit=addobs_exit)

    def upd_step(ex, s, snap):
        new = s.log[len(snap.log):]
        g = [('every-observer-is-triggered-once', B(len(new) == 1 and new[0][0] == 'so_trigger'))]
        for e in new:
            if e[0] == 'so_trigger':
                g.append(('with-the-given-response', e[2].t == ex.spec_val(s, 'response').t))
                g.append(('the-observer-of-this-iteration', e[1].t == ex.spec_val(s, 'o').t))
        return g
    reg.contracts[SO + '.trigger'].ghost = lg('so_trigger', 'self', 'response')
    reg.contract(RO + '.updated_state', self_class='ObsResource', params={'response': Opt(MSG)}, properties=P, only_raises=True,
                 modifies=['field:_trigger', 'field:_late_deregister', 'field:g_done', 'field:g_value'], loop_steps={0: [upd_step]})

    # ------------------------------------------------------------------ TokenManager.process_request
    from contracts.tm import TM, OKEY
    from contracts.c09 import EVENT
    TMF = reg.classes['TokenManager'].fields

    def preq_exit(ex, s, entry, env, result):
        ev = Ev(ex, s, entry, env)
        log = s.log
        had = ev('old((request.token, request.remote) in self.incoming_requests)')
        calls = [i for i, e in enumerate(log) if e[0] == 'call']
        pipes = [i for i, e in enumerate(log) if e[0] == 'new_pipe']
        regs = [i for i, e in enumerate(log) if e[0] == 'pipe_on_event']
        ends = [i for i, e in enumerate(log) if e[0] == 'pipe_on_interest_end']
        renders = [i for i, e in enumerate(log) if e[0] == 'render_to_pipe']
        g = [('previous-request-on-this-token-is-stopped-exactly-once', z3.If(had, B(len(calls) == 1), B(len(calls) == 0))),
             ('one-new-pipe-listened-to-and-rendered', B(len(pipes) == 1 and len(regs) == 1 and len(ends) == 1 and len(renders) == 1))]
        if not (len(pipes) == 1 and len(regs) == 1 and len(ends) == 1 and len(renders) == 1):
            return g
        pipe = log[pipes[0]][1]
        for i in calls:
            g.append(('old-request-stopped-before-the-new-one-starts', B(i < pipes[0])))
            st_h, _ = ex.branch(entry.copy(), ex.truth(entry.copy(), ex.spec_val(entry.copy(), '(request.token, request.remote) in self.incoming_requests', env=env)))
            if st_h is not None:
                old_stop = ex.spec_val(st_h, 'self.incoming_requests[(request.token, request.remote)][1]', env=env)
                g.append(('stops-the-pipe-registered-under-this-key', z3.Implies(had, log[i][1] == old_stop.t)))
        g.append(('pipe-carries-the-request', log[pipes[0]][2].t == env['request'].t))
        g.append(('listens-then-registers-then-renders', B(regs[0] < ends[0] < renders[0])))
        g.append(('renders-the-new-pipe', log[renders[0]][2].t == pipe.t))
        stop = s.ghost.get('$last_stopper')
        ended_already = bool(s.ghost.get('$interest_already_ended'))
        key = ex.spec_val(s, '(request.token, request.remote)', env=env)
        g.append(('other-registrations-untouched', dict_frame(ex, s, entry, env['self'], TMF, 'incoming_requests', key)))
        if not ended_already:
            g.append(('registered-under-token-and-endpoint', ev('(request.token, request.remote) in self.incoming_requests and self.incoming_requests[(request.token, request.remote)][0] is p', p=pipe)))
        # the event handler handed to the pipe: binds token and address of the request to every response
        on_event = log[regs[0]][2]
        event = ex.fresh_val(s, EVENT, 'event')
        s1 = s.copy()
        s1.assume(z3.Not(event.items[0].is_none()))
        s1.assume(ex.truth(s1, ex.spec_val(s1, 'e[0] is not request and e[0].opt is not request.opt', env=dict(env, e=event))))
        outs = run_all(ex, s1, on_event, [event])
        normal = [o for o in outs if o.exc is None]
        g.append(('event-handler-runs', B(len(normal) >= 1)))
        for s3 in outs:
            raised = s3.exc is not None
            s3 = s3.copy()
            s3.exc = None
            facts = list(s3.pc[len(s.pc):])
            e3 = lambda t, **kw: z3.Implies(z3.And(B(True), *facts), ex.truth(s3, ex.spec_val(s3, t, env=dict(env, e=event, **kw), old_st=entry)))
            sends = [e for e in s3.log[len(s.log):] if e[0] == 'ti_send_message']
            g.append(('every-response-is-sent-once', B(len(sends) == 1)))
            for snd in sends:
                g.append(('sends-the-response-of-the-event', e3('m is e[0]', m=snd[2])))
                g.append(('response-carries-the-token-of-the-request', e3('e[0].token == request.token')))
                g.append(('response-goes-to-the-requester', e3('e[0].remote == as_response_address(request.remote)')))
                g.append(('response-refers-to-its-request', e3('e[0].request is request')))
                if not ended_already:
                    g.append(('the-transport-gets-the-stopper-of-this-registration',
                              ex.spec_val(s, 'self.incoming_requests[(request.token, request.remote)][1]', env=env).t == snd[3].t))
        # the interest-end hook removes exactly this registration
        on_end = log[ends[0]][2]
        if not ended_already:
            outs = run_all(ex, s, on_end, [])
            g.append(('interest-end-hook-runs', B(len(outs) == 1 and outs[0].exc is None)))
            for s3 in outs:
                facts = list(s3.pc[len(s.pc):])
                g.append(('interest-end-removes-this-registration',
                          z3.Implies(z3.And(B(True), *facts), ex.truth(s3, ex.spec_val(s3, '(request.token, request.remote) not in self.incoming_requests', env=env)))))
                g.append(('interest-end-removes-nothing-else', z3.Implies(z3.And(B(True), *facts), dict_frame(ex, s3, s, env['self'], TMF, 'incoming_requests', key))))
        else:
            g.append(('no-registration-survives-a-request-nobody-waits-for', ev('(request.token, request.remote) not in self.incoming_requests')))
        return g

    reg.contract(TM + '.process_request', params={'request': MSG}, properties=P + ['C18', 'C09'],   # C09: one final response per request: a superseded handler is stopped
                 requires=['tm_wf(self)', 'request.remote is not None'], only_raises=True, at_exit=preq_exit,
                 modifies=['dict:self.incoming_requests'])
