"""MessageManager (aiocoap/messagemanager.py): class declarations, environment (loop, transport, timers),
the object invariant, and one contract per function.  Serves C03, C04, C10, C14 and C18.

Every function has ONE contract: `requires`/`modifies`/`ensures` are both verified on the body and used at
call sites (callers never look into the body); `at_exit` clauses are additional obligations on the body
(event counts taken from the ghost log, simulated timer callbacks)."""
import z3
from pyvc.values import *   # noqa
from pyvc.registry import MAY
from contracts.util import lg, lg_result, evs, count, B, Ev, dict_frame, simulate, quantified

MM = 'aiocoap.messagemanager:MessageManager'
KEY = Tuple(Opt(Ref('Remote')), Opt(INT))
EXCH = Tuple(CALLABLE, Ref('TimerHandle'))
BACKLOG_ITEM = Tuple(Ref('Message'), Opt(CALLABLE))
PBKEY = Tuple(Opt(Ref('Remote')), BKEY)
CON, NON, ACK, RST = 0, 1, 2, 3


def register(reg, prog):
    reg.declare_class('MessageManager', MM, fields={
        'token_manager': Ref('TokenManagerI'), 'message_id': INT,
        '_recent_messages': Dict(KEY, Opt(Ref('Message')), 'mm.recent'),
        '_active_exchanges': Opt(Dict(KEY, EXCH, 'mm.active')),
        '_backlogs': Dict(Opt(Ref('Remote')), List(BACKLOG_ITEM), 'mm.backlogs'),
        '_piggyback_opportunities': Dict(PBKEY, Tuple(Opt(INT), Ref('TimerHandle')), 'mm.pb'),
        'loop': Ref('Loop'), 'message_interface': Ref('MessageInterface'), 'log': ANY})
    F = reg.classes['MessageManager'].fields
    MF = reg.classes['Message'].fields
    reg.declare_class('Loop', 'asyncio:AbstractEventLoop', opaque=True)
    reg.declare_class('TimerHandle', 'asyncio:TimerHandle', opaque=True)
    reg.declare_class('MessageInterface', 'aiocoap.interfaces:MessageInterface', opaque=True)
    reg.assume('T-LOOP: loop.call_later(d, f, *a) returns a fresh handle and runs f(*a) once after d unless cancelled; '
               'callbacks run atomically (single-threaded asyncio)')
    reg.assume('A-OWN: container objects held in different fields are different objects (no aliasing between the dictionaries of a manager)')

    # ------------------------------------------------------------ environment
    def call_later(ex, st, args, kw, node):
        loop, delay, cb = args[0], args[1], args[2]
        h = ex.new_object(st, 'TimerHandle')
        st.log.append(('call_later', delay, cb, tuple(args[3:]), h))
        return [(st, h)]
    reg.externals['Loop.call_later'] = call_later
    reg.externals['TimerHandle.cancel'] = lambda ex, st, args, kw, node: (st.log.append(('cancel', args[0])), [(st, VNone())])[1]
    reg.externals['MessageInterface.send'] = lambda ex, st, args, kw, node: (st.log.append(('wire', args[1])), [(st, VNone())])[1]
    reg.externals['TokenManagerI.dispatch_error'] = lambda ex, st, args, kw, node: (st.log.append(('tm_dispatch_error',) + tuple(args)), [(st, VNone())])[1]
    reg.externals['TokenManagerI.process_request'] = lambda ex, st, args, kw, node: (st.log.append(('tm_process_request',) + tuple(args)), [(st, VNone())])[1]

    def tm_process_response(ex, st, args, kw, node):
        r = VBool(z3.Bool(fresh_name('matched')))
        st.log.append(('tm_process_response',) + tuple(args) + (r,))
        return [(st, r)]
    reg.externals['TokenManagerI.process_response'] = tm_process_response

    reg.classes['Remote'].opaque = True
    # A-REMOTE: the response address is the same endpoint under ==/hash (udp6: same sockaddr, pktinfo dropped for
    # multicast-locally addresses; pktinfo is not part of the modelled address value)
    reg.externals['Remote.as_response_address'] = lambda ex, st, args, kw, node: [(st, args[0])]
    reg.specfuncs['as_response_address'] = lambda ex, st, r: (r.some() if isinstance(r, VOpt) else r)

    # list.append of a (message, monitor) pair is additionally recorded in the event log
    orig_append = reg.externals['list.append']

    def append_logged(ex, st, args, kw, node):
        l, v = args
        if isinstance(v, VTuple) and len(v.items) == 2 and isinstance(v.items[0], VRef) and v.items[0].cls == 'Message' and l.e and l.e[0] == 'tuple':
            st.log.append(('backlog_append', l, v))
        return orig_append(ex, st, args, kw, node)
    reg.externals['list.append'] = append_logged

    # -------------------------------------------------------- object invariant
    def dicts(ex, st, mm):
        rec = ex.read_field(st, mm, '_recent_messages', F['_recent_messages'])
        act = ex.read_field(st, mm, '_active_exchanges', F['_active_exchanges'])
        bl = ex.read_field(st, mm, '_backlogs', F['_backlogs'])
        pb = ex.read_field(st, mm, '_piggyback_opportunities', F['_piggyback_opportunities'])
        return rec, act, bl, pb

    def nstart_formula(ex, st, mm, hole=None):
        with quantified(ex):
            return _nstart_formula(ex, st, mm, hole)

    def _nstart_formula(ex, st, mm, hole=None):
        rec, act, bl, pb = dicts(ex, st, mm)
        act = act.some()
        ks = sort_of(act.k)
        k1, k2 = z3.Const('inv_k1', ks), z3.Const('inv_k2', ks)
        dom, bdom = ex.dict_dom(st, act), ex.dict_dom(st, bl)
        r = lambda k: ks.accessor(0, 0)(k)
        rr = z3.Const('inv_r', ks.accessor(0, 0).range())
        mm_ = z3.Const('inv_m', ks.accessor(0, 1).range())
        open_ = z3.Exists([mm_], z3.Select(dom, ks.constructor(0)(rr, mm_)))
        if hole is not None:
            open_ = z3.Or(rr == coerce(hole, act.k[1][0]).t, open_)
        return z3.And(
            z3.ForAll([rr], z3.Implies(z3.Select(bdom, rr), open_)),
            z3.ForAll([k1], z3.Implies(z3.Select(dom, k1), z3.Select(bdom, r(k1)))),
            z3.ForAll([k1, k2], z3.Implies(z3.And(z3.Select(dom, k1), z3.Select(dom, k2), r(k1) == r(k2)), k1 == k2)))

    def recent_formula(ex, st, mm):
        with quantified(ex):
            return _recent_formula(ex, st, mm)

    def _recent_formula(ex, st, mm):
        rec = dicts(ex, st, mm)[0]
        ks = sort_of(rec.k)
        k = z3.Const('inv_rk', ks)
        v = from_term(rec.v, z3.Select(ex.dict_vals(st, rec), k))
        mt = ex.read_field(st, v.some(), 'mtype', MF['mtype'])
        mid = ex.read_field(st, v.some(), 'mid', MF['mid'])
        rem = ex.read_field(st, v.some(), 'remote', MF['remote'])
        ok = z3.And(z3.Not(mt.is_none()), z3.Or(mt.some().t == ACK, mt.some().t == RST), mid.t == ks.accessor(0, 1)(k),
                    rem.t == ks.accessor(0, 0)(k), z3.Not(mid.is_none()), z3.Not(rem.is_none()),
                    v.some().t >= 1, v.some().t < st.alloc)
        return z3.ForAll([k], z3.Implies(z3.And(z3.Select(ex.dict_dom(st, rec), k), z3.Not(v.is_none())), ok))

    def pb_formula(ex, st, mm):
        with quantified(ex):
            return _pb_formula(ex, st, mm)

    def _pb_formula(ex, st, mm):
        pb = dicts(ex, st, mm)[3]
        ks = sort_of(pb.k)
        k = z3.Const('inv_pk', ks)
        v = from_term(pb.v, z3.Select(ex.dict_vals(st, pb), k))
        return z3.ForAll([k], z3.Implies(z3.Select(ex.dict_dom(st, pb), k),
                                          z3.And(z3.Not(v.items[0].is_none()), z3.Not(ks.accessor(0, 0)(k) == sort_of(pb.k[1][0]).constructor(0)()))))

    def tuning_ok_formula(ex, st, msg):
        tt = ex.read_field(st, msg, 'transport_tuning', MF['transport_tuning'])
        TF = reg.classes['TransportTuning'].fields
        a = ex.read_field(st, tt, 'ACK_TIMEOUT', TF['ACK_TIMEOUT']).t
        f = ex.read_field(st, tt, 'ACK_RANDOM_FACTOR', TF['ACK_RANDOM_FACTOR']).t
        n = ex.read_field(st, tt, 'MAX_RETRANSMIT', TF['MAX_RETRANSMIT']).t
        return z3.And(a > 0, f >= 1, n >= 0)

    def backlog_formula(ex, st, mm):
        with quantified(ex):
            return _backlog_formula(ex, st, mm)

    def _backlog_formula(ex, st, mm):
        """queued items are confirmable messages for that endpoint, complete with monitor and message ID"""
        bl = dicts(ex, st, mm)[2]
        rs = sort_of(bl.k)
        r = z3.Const('inv_br', rs)
        j = z3.Int('inv_bj')
        lst = from_term(bl.v, z3.Select(ex.dict_vals(st, bl), r))
        n = z3.Select(ex.heap_get(st, ('ll',), z3.ArraySort(I, I)), lst.t)
        item = from_term(lst.e, z3.Select(z3.Select(ex._le(st, lst)[1], lst.t), j))
        msg, mon = item.items
        mt = ex.read_field(st, msg, 'mtype', MF['mtype'])
        ok = z3.And(z3.Not(mon.is_none()), z3.Not(mt.is_none()), mt.some().t == CON,
                    ex.read_field(st, msg, 'remote', MF['remote']).t == r,
                    z3.Not(ex.read_field(st, msg, 'mid', MF['mid']).is_none()),
                    tuning_ok_formula(ex, st, msg), msg.t >= 1, msg.t < st.alloc,
                    ex.read_field(st, msg, 'transport_tuning', MF['transport_tuning']).t < st.alloc)
        r2 = z3.Const('inv_br2', rs)
        lst2 = from_term(bl.v, z3.Select(ex.dict_vals(st, bl), r2))
        own = z3.ForAll([r, r2], z3.Implies(z3.And(z3.Select(ex.dict_dom(st, bl), r), z3.Select(ex.dict_dom(st, bl), r2), r != r2), lst.t != lst2.t))
        alloc = z3.ForAll([r], z3.Implies(z3.Select(ex.dict_dom(st, bl), r), z3.And(lst.t >= 1, lst.t < st.alloc, n >= 0)))
        return z3.And(own, alloc, z3.ForAll([r, j], z3.Implies(z3.And(z3.Select(ex.dict_dom(st, bl), r), 0 <= j, j < n), ok)))

    def wf_formula(ex, st, mm, allow_shutdown):
        rec, act, bl, pb = dicts(ex, st, mm)
        mid = ex.read_field(st, mm, 'message_id', INT).t
        base = z3.And(mid >= 0, mid <= 65535)
        if allow_shutdown:
            return z3.And(base, z3.Distinct(rec.t, bl.t, pb.t),
                          z3.Or(act.is_none(), z3.Distinct(rec.t, act.some().t, bl.t, pb.t)))
        return z3.And(base, z3.Not(act.is_none()), z3.Distinct(rec.t, act.some().t, bl.t, pb.t))

    @reg.specfunc('mm_inv')
    def mm_inv(ex, st, mm, hole=None):
        """the object invariant of a running MessageManager (hole: an endpoint whose exchange was just closed)"""
        return VBool(z3.And(wf_formula(ex, st, mm, False), opaque('nstart', nstart_formula(ex, st, mm, hole)),
                            opaque('recent', recent_formula(ex, st, mm)), opaque('pb', pb_formula(ex, st, mm)),
                            opaque('backlog', backlog_formula(ex, st, mm))))

    @reg.specfunc('mm_inv_sd')
    def mm_inv_sd(ex, st, mm):
        """... also valid after shutdown() (then there are no exchanges)"""
        act = dicts(ex, st, mm)[1]
        return VBool(z3.And(wf_formula(ex, st, mm, True), z3.Or(act.is_none(), opaque('nstart', nstart_formula(ex, st, mm))),
                            opaque('recent', recent_formula(ex, st, mm)), opaque('pb', pb_formula(ex, st, mm)),
                            opaque('backlog', backlog_formula(ex, st, mm))))

    @reg.specfunc('mm_inv_any')
    def mm_inv_any(ex, st, mm, hole):
        """weakest form: shutdown allowed, and `hole` may have a backlog entry without an open exchange"""
        act = dicts(ex, st, mm)[1]
        return VBool(z3.And(wf_formula(ex, st, mm, True), z3.Or(act.is_none(), opaque('nstart', nstart_formula(ex, st, mm, hole))),
                            opaque('recent', recent_formula(ex, st, mm)), opaque('pb', pb_formula(ex, st, mm)),
                            opaque('backlog', backlog_formula(ex, st, mm))))

    def pres(hole):
        return {'inv-any-kept': 'mm_inv_any(self, %s)' % hole,
                'inv-sd-kept': 'implies(old(mm_inv_sd(self)), mm_inv_sd(self))',
                'inv-running-kept': 'implies(old(mm_inv(self)), mm_inv(self))',
                'shutdown-state-kept': '(self._active_exchanges is None) == old(self._active_exchanges is None)'}

    @reg.specfunc('exists_active')
    def exists_active(ex, st, mm, remote):
        act = dicts(ex, st, mm)[1].some()
        ks = sort_of(act.k)
        m = z3.Const('inv_em', ks.accessor(0, 1).range())
        r = coerce(remote, act.k[1][0]).t
        return VBool(z3.Exists([m], z3.Select(ex.dict_dom(st, act), ks.constructor(0)(r, m))))

    @reg.specfunc('not_held')
    def not_held(ex, st, mm, msg):
        """the message object is not one the manager already keeps (stored answer or queued message): A-FRESHMSG"""
        reg.assume('A-FRESHMSG: a message handed to send_message is not an object the manager already stores '
                   '(as answer for duplicates or in a backlog)')
        rec, act, bl, pb = dicts(ex, st, mm)
        with quantified(ex):
            k = z3.Const('inv_rk', sort_of(rec.k))
            v = from_term(rec.v, z3.Select(ex.dict_vals(st, rec), k))
            a = z3.ForAll([k], z3.Implies(z3.And(z3.Select(ex.dict_dom(st, rec), k), z3.Not(v.is_none())), v.some().t != msg.t))
            r = z3.Const('inv_br', sort_of(bl.k))
            j = z3.Int('inv_bj')
            lst = from_term(bl.v, z3.Select(ex.dict_vals(st, bl), r))
            item = from_term(lst.e, z3.Select(z3.Select(ex._le(st, lst)[1], lst.t), j))
            b = z3.ForAll([r, j], z3.Implies(z3.Select(ex.dict_dom(st, bl), r), item.items[0].t != msg.t))
        return VBool(z3.And(opaque('nh_recent', a), opaque('nh_backlog', b)))

    @reg.specfunc('tuning_ok')
    def tuning_ok(ex, st, msg):
        return VBool(tuning_ok_formula(ex, st, msg.some() if isinstance(msg, VOpt) else msg))

    def frame(field, key_text=None):
        """ensures clause: the dictionary in self.<field> changes at most at the given key"""
        def cl(ctx):
            kv = ctx.ev(key_text, old=False) if key_text else None
            return dict_frame(ctx.ex, ctx.st, ctx.old_st, ctx.env['self'], F, field, kv)
        return cl

    def recent_update(ctx):
        """the only change to the duplicate memory: an ACK/RST for a remembered (remote, mid) is stored under that key"""
        ex, s, old, env = ctx.ex, ctx.st, ctx.old_st, ctx.env
        msg = env['message']
        now, was = dicts(ex, s, env['self'])[0], dicts(ex, old, env['self'])[0]
        ks = sort_of(now.k)
        kk = z3.Const(fresh_name('uk'), ks)
        key = coerce(ctx.ev('(message.remote, message.mid)'), now.k).t
        is_ack = ex.truth(s, ctx.ev('message.mtype == 2 or message.mtype == 3'))
        known = z3.Select(ex.dict_dom(old, was), key)
        vs = sort_of(now.v)
        newv = z3.If(z3.And(known, is_ack), (msg.t if isinstance(msg, VOpt) else vs.constructor(1)(msg.t)), z3.Select(ex.dict_vals(old, was), key))
        return z3.And(now.t == was.t,
                      z3.ForAll([kk], z3.Select(ex.dict_dom(s, now), kk) == z3.Select(ex.dict_dom(old, was), kk)),
                      z3.ForAll([kk], z3.Implies(kk != key, z3.Select(ex.dict_vals(s, now), kk) == z3.Select(ex.dict_vals(old, was), kk))),
                      z3.Select(ex.dict_vals(s, now), key) == newv)

    MSG = Ref('Message')
    REC, ACT, BL, PB = 'dict:self._recent_messages', 'dict:self._active_exchanges', 'dict:self._backlogs', 'dict:self._piggyback_opportunities'

    # =============================================================== leaves
    reg.contract(MM + '._next_message_id', result=INT, properties=['C10'], only_raises=True,
                 requires=['0 <= self.message_id <= 65535'],
                 ensures={'returns-current': 'result == old(self.message_id)',
                          'advances-mod-2^16': 'self.message_id == (old(self.message_id) + 1) % 65536',
                          'fresh': 'self.message_id != result', 'in-range': '0 <= result <= 65535'},
                 modifies=['self.message_id'], ghost=lg_result('next_mid', 'self'))

    reg.contract(MM + '._send_via_transport', params={'message': MSG}, properties=['C03', 'C10'], only_raises=True,
                 ghost=lg('wire', 'message'),
                 at_exit=lambda ex, s, entry, env, result: [
                     ('one-datagram', B(len(evs(s, 'wire')) == 1 and len(s.log) == 1)),
                     ('same-message-object', z3.And(B(True), *[e[1].t == env['message'].t for e in evs(s, 'wire')]))])

    # ---- _schedule_retransmit: one timer whose callback re-enters _retransmit with exactly these arguments
    def sched_exit(ex, s, entry, env, result):
        cl = evs(s, 'call_later')
        g = [('one-timer', B(len(cl) == 1 and len(s.log) == 1))]
        if len(cl) != 1:
            return g
        _, delay, cb, extra, handle = cl[0]
        g.append(('delay-is-timeout', ex.eq(s, delay, env['timeout'])))
        g.append(('returns-handle', result.t == handle.t))
        s3 = simulate(ex, s, cb, extra)
        g.append(('callback-runs', B(s3 is not None)))
        if s3 is not None:
            calls = [e for e in s3.log[len(s.log):] if e[0] == '_retransmit']
            g.append(('callback-retransmits-once', B(len(calls) == 1)))
            for c in calls:
                g.append(('callback-same-message', c[2].t == env['message'].t))
                g.append(('callback-same-timeout', ex.eq(s3, c[3], env['timeout'])))
                g.append(('callback-same-counter', ex.eq(s3, c[4], env['retransmission_counter'])))
                g.append(('callback-same-manager', c[1].t == env['self'].t))
        return g

    reg.contract(MM + '._schedule_retransmit', params={'message': MSG, 'timeout': REAL, 'retransmission_counter': INT},
                 result=Ref('TimerHandle'), properties=['C03'], only_raises=True, at_exit=sched_exit,
                 ghost=lg_result('schedule', 'self', 'message', 'timeout', 'retransmission_counter'))

    # ---- duplicate memory
    def st_exit(ex, s, entry, env, result):
        ev = Ev(ex, s, entry, env)
        known = ev('old((message.remote, message.mid) in self._recent_messages)')
        is_ack = ev('message.mtype == 2 or message.mtype == 3')
        return [('stores-acknowledgement-of-known-request', z3.Implies(z3.And(known, is_ack), ev('self._recent_messages[(message.remote, message.mid)] is message'))),
                ('never-creates-a-key', ev('((message.remote, message.mid) in self._recent_messages)') == known),
                ('nothing-sent', B(len(s.log) == 0))]

    reg.contract(MM + '._store_response_for_duplicates', params={'message': MSG}, properties=['C04'],
                 requires=['mm_inv_any(self, message.remote)', 'message.mid is not None', 'message.remote is not None'],
                 modifies=[REC], only_raises=True, at_exit=st_exit,
                 ghost=lg('store_for_duplicates', 'self', 'message'),
                 ensures=dict(pres('message.remote'), **{'exact-update': recent_update}))

    # ---- _add_exchange
    def add_exit(ex, s, entry, env, result):
        ev = Ev(ex, s, entry, env)
        scheds = evs(s, 'schedule')
        g = [('one-timer', B(len(scheds) == 1 and len(s.log) == 1))]
        for e in scheds:
            g.append(('initial-timeout-in-range', ev('message.transport_tuning.ACK_TIMEOUT <= t0 <= message.transport_tuning.ACK_TIMEOUT * message.transport_tuning.ACK_RANDOM_FACTOR', t0=e[3])))
            g.append(('counter-starts-at-0', ev('c == 0', c=e[4])))
            g.append(('for-this-message', e[2].t == env['message'].t))
            g.append(('handle-stored', ev('self._active_exchanges[(message.remote, message.mid)][1] is h', h=e[5])))
        g.append(('monitor-stored', ev('self._active_exchanges[(message.remote, message.mid)][0] is messageerror_monitor')))
        return g

    reg.contract(MM + '._add_exchange', params={'message': MSG, 'messageerror_monitor': CALLABLE}, properties=['C03', 'C14', 'C02'],      # C02: a queued request that is dropped never completes
                 requires=['mm_inv(self, message.remote)', 'message.remote is not None', 'message.mid is not None', 'tuning_ok(message)',
                           'not exists_active(self, message.remote)'],
                 only_raises=True, at_exit=add_exit, modifies=[ACT, BL],
                 ghost=lg('_add_exchange', 'self', 'message', 'messageerror_monitor'),
                 ensures={'registered': '(message.remote, message.mid) in self._active_exchanges',
                          'backlog-key': 'message.remote in self._backlogs',
                          'other-exchanges-untouched': frame('_active_exchanges', '(message.remote, message.mid)'),
                          'other-backlogs-untouched': frame('_backlogs', 'message.remote'),
                          'existing-backlog-kept': 'implies(old(message.remote in self._backlogs), self._backlogs[message.remote] is old(self._backlogs[message.remote]))',
                          'new-backlog-empty': 'implies(not old(message.remote in self._backlogs), len(self._backlogs[message.remote]) == 0)',
                          'invariant-kept': 'mm_inv(self)'})

    # ---- _send_initially: exchange (if CON), remember for duplicates, one datagram
    def si_exit(ex, s, entry, env, result):
        ev = Ev(ex, s, entry, env)
        kinds = [e[0] for e in s.log]
        con = ev('message.mtype == 0')
        g = [('one-datagram', B(kinds.count('wire') == 1)),
             ('exchange-iff-con', B(kinds.count('_add_exchange') == 1) == con),
             ('remembered-for-duplicates', B(kinds.count('store_for_duplicates') == 1)),
             ('order', B(kinds in (['_add_exchange', 'store_for_duplicates', 'wire'], ['store_for_duplicates', 'wire'])))]
        for e in s.log:
            g.append(('same-message', (e[2] if e[0] != 'wire' else e[1]).t == env['message'].t))
        for e in evs(s, '_add_exchange'):
            g.append(('monitor-passed-on', ev('m is messageerror_monitor', m=e[3])))
        return g

    reg.contract(MM + '._send_initially', params={'message': MSG, 'messageerror_monitor': Opt(CALLABLE)},
                 properties=['C03', 'C04', 'C10', 'C14'],
                 requires=['mm_inv_any(self, message.remote)', 'message.mid is not None', 'message.remote is not None', 'message.mtype is not None',
                           'implies(message.mtype == 0, messageerror_monitor is not None and self._active_exchanges is not None '
                           'and tuning_ok(message) and not exists_active(self, message.remote))'],
                 only_raises=True, at_exit=si_exit, modifies=[REC, ACT, BL],
                 ghost=lg('send_initially', 'self', 'message', 'messageerror_monitor'),
                 ensures={'duplicate-memory-update': recent_update,
                          'con-registers-exchange': 'implies(message.mtype == 0, (message.remote, message.mid) in self._active_exchanges and message.remote in self._backlogs)',
                          'other-exchanges-untouched': frame('_active_exchanges', '(message.remote, message.mid)'),
                          'other-backlogs-untouched': frame('_backlogs', 'message.remote'),
                          'non-con-leaves-exchanges': lambda ctx: z3.Implies(ctx.ex.truth(ctx.st, ctx.ev('message.mtype != 0')),
                              z3.And(dict_frame(ctx.ex, ctx.st, ctx.old_st, ctx.env['self'], F, '_active_exchanges'),
                                     dict_frame(ctx.ex, ctx.st, ctx.old_st, ctx.env['self'], F, '_backlogs'))),
                          'existing-backlog-kept': 'implies(old(message.remote in self._backlogs), self._backlogs[message.remote] is old(self._backlogs[message.remote]))',
                          'con-closes-the-hole': 'implies(message.mtype == 0, mm_inv(self))',
                          'inv-any-kept': 'mm_inv_any(self, message.remote)',
                          'inv-sd-kept': 'implies(old(mm_inv_sd(self)), mm_inv_sd(self))',
                          'inv-running-kept': 'implies(old(mm_inv(self)), mm_inv(self))',
                          'shutdown-state-kept': '(self._active_exchanges is None) == old(self._active_exchanges is None)'})

    # ---- empty ACK / RST helpers
    def ack_like_exit(mtype, who, mid_text):
        def f(ex, s, entry, env, result):
            ev = Ev(ex, s, entry, env)
            si = evs(s, 'send_initially')
            g = [('one-message', B(len(si) == 1 and len(s.log) == 1))]
            for e in si:
                g.append(('type-code-mid', ev('a.mtype == %d and a.code == 0 and a.mid == %s and len(a.payload) == 0' % (mtype, mid_text), a=e[2])))
                g.append(('to-the-sender', ev('a.remote == as_response_address(%s)' % who, a=e[2])))
            return g
        return f

    reg.contract(MM + '._send_empty_ack', params={'remote': Opt(Ref('Remote')), 'mid': Opt(INT), 'reason': STR},
                 properties=['C10', 'C04'], requires=['mm_inv_sd(self)', 'remote is not None', 'mid is not None'],
                 only_raises=True, modifies=[REC], at_exit=ack_like_exit(ACK, 'remote', 'mid'),
                 ghost=lg('empty_ack', 'self', 'remote', 'mid'),
                 ensures={'memory-changes-only-for-this-request': frame('_recent_messages', '(remote, mid)'),
                          'no-key-created': '((remote, mid) in self._recent_messages) == old((remote, mid) in self._recent_messages)',
                          'invariant-kept': 'mm_inv_sd(self)',
                          'running-stays-running': 'implies(old(self._active_exchanges is not None), mm_inv(self))'})

    reg.contract(MM + '._process_ping', params={'message': MSG}, properties=['C10'],
                 requires=['mm_inv_sd(self)', 'message.remote is not None', 'message.mid is not None'],
                 only_raises=True, modifies=[REC], at_exit=ack_like_exit(RST, 'message.remote', 'message.mid'),
                 ghost=lg('ping', 'self', 'message'),
                 ensures={'memory-changes-only-for-this-message': frame('_recent_messages', '(message.remote, message.mid)'),
                          'invariant-kept': 'mm_inv_sd(self)',
                          'running-stays-running': 'implies(old(self._active_exchanges is not None), mm_inv(self))'})

    reg.contract(MM + '._process_response', params={'response': MSG}, result=BOOL, properties=['C10', 'C02'], only_raises=True,
                 ghost=lg_result('process_response', 'self', 'response'),
                 at_exit=lambda ex, s, entry, env, result: [
                     ('token-manager-decides', B(len(evs(s, 'tm_process_response')) == 1 and len(s.log) == 1)),
                     ('this-response', z3.And(B(True), *[e[2].t == env['response'].t for e in evs(s, 'tm_process_response')])),
                     ('result-passed-through', z3.And(B(True), *[e[-1].t == result.t for e in evs(s, 'tm_process_response')]))])

    # ---- _deduplicate_message
    def dd_exit(ex, s, entry, env, result):
        ev = Ev(ex, s, entry, env)
        dup = ev('old((message.remote, message.mid) in self._recent_messages)')
        si, timers = evs(s, 'send_initially'), evs(s, 'call_later')
        g = []
        stored = ev('old(self._recent_messages[(message.remote, message.mid)]) is not None')
        g.append(('con-duplicate-resends-stored-answer', z3.Implies(dup, B(len(si) == 1) == z3.And(ev('message.mtype == 0'), stored))))
        for e in si:
            g.append(('resends-exactly-the-stored-message', ev('a is old(self._recent_messages[(message.remote, message.mid)])', a=e[2])))
        g.append(('new-message-sends-nothing', z3.Implies(z3.Not(dup), B(len(si) == 0))))
        g.append(('one-expiry-timer-iff-new', B(len(timers) == 1) == z3.Not(dup)))
        g.append(('nothing-else-happens', B(len(s.log) == len(si) + len(timers))))
        for e in timers:
            g.append(('expires-after-EXCHANGE_LIFETIME-of-its-tuning', ev('d == message.transport_tuning.EXCHANGE_LIFETIME', d=e[1])))
            s3 = simulate(ex, s, e[2], e[3])
            g.append(('expiry-callback-does-not-raise', B(s3 is not None)))
            if s3 is not None:
                e3 = Ev(ex, s3, entry, env)
                g.append(('expiry-forgets-this-key', e3('(message.remote, message.mid) not in self._recent_messages')))
                kv = ex.spec_val(s, '(message.remote, message.mid)', env=env)
                now, was = dicts(ex, s3, env['self'])[0], dicts(ex, s, env['self'])[0]
                kk = z3.Const(fresh_name('ok'), sort_of(now.k))
                g.append(('expiry-forgets-nothing-else', z3.ForAll([kk], z3.Implies(kk != coerce(kv, now.k).t,
                          z3.Select(ex.dict_dom(s3, now), kk) == z3.Select(ex.dict_dom(s, was), kk)))))
        return g

    reg.contract(MM + '._deduplicate_message', params={'message': MSG}, result=BOOL, properties=['C04', 'C10'],   # C10: only CON duplicates are answered
                 requires=['mm_inv_sd(self)', 'message.remote is not None', 'message.mid is not None', 'message.mtype is not None', 'tuning_ok(message)'],
                 only_raises=True, at_exit=dd_exit, modifies=[REC],
                 ghost=lg_result('dedup', 'self', 'message'),
                 ensures={'returns-whether-duplicate': 'result == old((message.remote, message.mid) in self._recent_messages)',
                          'new-message-is-remembered': 'implies(not result, (message.remote, message.mid) in self._recent_messages and self._recent_messages[(message.remote, message.mid)] is None)',
                          'duplicate-keeps-stored-answer': 'implies(result, (message.remote, message.mid) in self._recent_messages and self._recent_messages[(message.remote, message.mid)] is old(self._recent_messages[(message.remote, message.mid)]))',
                          'other-keys-untouched': frame('_recent_messages', '(message.remote, message.mid)'),
                          'invariant-kept': 'mm_inv_sd(self)',
                          'running-stays-running': 'implies(old(self._active_exchanges is not None), mm_inv(self))'})

    # ---- _continue_backlog: after an exchange ended, send queued messages in order until one is open again
    def cb_step(ex, s, snap):
        evs_ = s.log[len(snap.log):]
        si = [e for e in evs_ if e[0] == 'send_initially']
        g = [('one-transmission-per-iteration', B(len(si) == 1 and len(evs_) == 1))]
        for e in si:
            g.append(('fifo-head-of-the-backlog-is-sent', ex.truth(s, ex.spec_val(s, 'm is head(self._backlogs[remote][0])[0] and mon is head(self._backlogs[remote][0])[1]', env=dict(ex.visible_env(s), m=e[2], mon=e[3])))))
        g.append(('same-list-object', ex.truth(s, ex.spec_val(s, 'self._backlogs[remote] is head(self._backlogs[remote])'))))
        g.append(('backlog-shrinks-by-its-head', ex.truth(s, ex.spec_val(s, 'len(self._backlogs[remote]) == head(len(self._backlogs[remote])) - 1'))))
        g.append(('rest-keeps-order', ex.truth(s, ex.spec_val(s, 'forall(j, 0, len(self._backlogs[remote]), self._backlogs[remote][j] == head(self._backlogs[remote][j + 1]))'))))
        return g

    def cb_exit(ex, s, entry, env, result):
        snap = s.ghost.get('$head')
        evs_ = s.log[len(snap.log):] if snap is not None else s.log
        return [('no-transmission-after-the-last-iteration', B(not evs_))]

    reg.contract(MM + '._continue_backlog', params={'remote': Opt(Ref('Remote'))}, properties=['C14', 'C03', 'C08'],   # C08: notifications queued behind an exchange go out in the order they were produced
                
                 requires=['mm_inv(self, remote)', 'remote is not None', 'remote in self._backlogs', 'not exists_active(self, remote)'],
                 raises={}, only_raises=True, modifies=[REC, ACT, BL, '*lists'],
                 invariants={0: ['mm_inv(self, remote)', 'remote in self._backlogs', 'remote is not None']},
                 loop_steps={0: [cb_step]}, at_exit=cb_exit,
                 ghost=lg('_continue_backlog', 'self', 'remote'),
                 ensures={'invariant-restored': 'mm_inv(self)',
                          'backlog-key-iff-open-exchange': '(remote in self._backlogs) == exists_active(self, remote)'})

    # ---- _remove_exchange (ACK / RST arrived)
    def rm_exit(ex, s, entry, env, result):
        ev = Ev(ex, s, entry, env)
        present = ev('old((message.remote, message.mid) in self._active_exchanges)')
        cancels, calls, conts = evs(s, 'cancel'), evs(s, 'call'), evs(s, '_continue_backlog')
        g = [('absent-key-changes-nothing', z3.Implies(z3.Not(present), B(len(s.log) == 0))),
             ('timer-cancelled-once-iff-present', B(len(cancels) == 1) == present)]
        for e in cancels:
            g.append(('cancels-this-exchange-timer', ev('h is old(self._active_exchanges[(message.remote, message.mid)][1])', h=e[1])))
        g.append(('monitor-called-iff-reset', B(len(calls) == 1) == z3.And(present, ev('message.mtype == 3'))))
        for e in calls:
            g.append(('calls-this-exchange-monitor', e[1] == ex.spec_val(s, 'old(self._active_exchanges[(message.remote, message.mid)][0])', env=env, old_st=entry).t))
        g.append(('backlog-continued-iff-present', B(len(conts) == 1) == present))
        for e in conts:
            g.append(('continues-backlog-of-this-endpoint', ev('r is message.remote', r=e[2])))
        return g

    reg.contract(MM + '._remove_exchange', params={'message': MSG}, properties=['C03', 'C14', 'C02', 'C08'],   # C02: a Reset must not strand the queued requests
                 requires=['mm_inv(self)', 'message.remote is not None'],
                 only_raises=True, at_exit=rm_exit, modifies=[REC, ACT, BL, '*lists'],
                 ghost=lg('_remove_exchange', 'self', 'message'),
                 ensures={'unmatched-changes-nothing': ('implies(not old((message.remote, message.mid) in self._active_exchanges), True)'),
                          'invariant-kept': 'mm_inv(self)'})

    def unmatched_frame(ctx):
        absent = z3.Not(ctx.ex.truth(ctx.old_st.copy(), ctx.ev('(message.remote, message.mid) in self._active_exchanges', old=True)))
        return z3.Implies(absent, z3.And(*[dict_frame(ctx.ex, ctx.st, ctx.old_st, ctx.env['self'], F, f) for f in ('_active_exchanges', '_backlogs', '_recent_messages')]))
    reg.contracts[MM + '._remove_exchange'].ensures['unmatched-changes-nothing'] = unmatched_frame

    # ---- _retransmit (timer entry point)
    def retr_exit(ex, s, entry, env, result):
        msg = env['message']
        ev = Ev(ex, s, entry, env)
        more = ev('retransmission_counter < message.transport_tuning.MAX_RETRANSMIT')
        wires, scheds, errs = evs(s, 'wire'), evs(s, 'schedule'), evs(s, 'tm_dispatch_error')
        g = [('resend-iff-budget-left', B(len(wires) == 1) == more), ('at-most-one-copy', B(len(wires) <= 1))]
        for e in wires:
            g.append(('byte-identical-copy(same object)', e[1].t == msg.t))
        g.append(('reschedule-iff-resend', B(len(scheds) == len(wires))))
        for e in scheds:
            g.append(('timeout-doubles', ev('t2 == 2 * timeout', t2=e[3])))
            g.append(('counter-increments', ev('c2 == retransmission_counter + 1', c2=e[4])))
            g.append(('same-message-rescheduled', e[2].t == msg.t))
            g.append(('new-timer-stored', ev('self._active_exchanges[(message.remote, message.mid)][1] is h', h=e[5])))
        g.append(('give-up-fails-request-once', B(len(errs) == 1) == z3.Not(more)))
        for e in errs:
            g.append(('error-for-this-endpoint', ev('r is message.remote', r=e[3])))
            g.append(('error-is-timeout-class', B(ex.issub(e[2].cls, 'aiocoap.error:ConRetransmitsExceeded')
                                                   and ex.issub('aiocoap.error:ConRetransmitsExceeded', 'aiocoap.error:TimeoutError')
                                                   and ex.issub('aiocoap.error:TimeoutError', 'aiocoap.error:NetworkError')
                                                   and ex.issub('aiocoap.error:NetworkError', 'aiocoap.error:Error'))))
        g.append(('exchange-stays-iff-resend', ev('((message.remote, message.mid) in self._active_exchanges)') == more))
        g.append(('monitor-kept', z3.Implies(more, ev('self._active_exchanges[(message.remote, message.mid)][0] is old(self._active_exchanges[(message.remote, message.mid)][0])'))))
        g.append(('backlog-dropped-on-give-up', z3.Implies(z3.Not(more), ev('message.remote not in self._backlogs'))))
        g.append(('old-timer-cancelled', B(len(evs(s, 'cancel')) == 1)))
        return g

    reg.contract(MM + '._retransmit', params={'message': MSG, 'timeout': REAL, 'retransmission_counter': INT},
                 properties=['C03', 'C14'], only_raises=True,
                 requires=['mm_inv(self)', 'message.remote is not None', 'message.mid is not None',
                           '(message.remote, message.mid) in self._active_exchanges', 'retransmission_counter >= 0'],
                 ghost=lg('_retransmit', 'self', 'message', 'timeout', 'retransmission_counter'),
                 modifies=[ACT, BL], at_exit=retr_exit,
                 ensures={'invariant-kept': 'mm_inv(self)',
                          'other-exchanges-untouched': frame('_active_exchanges', '(message.remote, message.mid)'),
                          'other-backlogs-untouched': frame('_backlogs', 'message.remote')})

    # ---- _process_request (piggy-back window)
    def pr_exit(ex, s, entry, env, result):
        ev = Ev(ex, s, entry, env)
        con = ev('request.mtype == 0')
        timers, cancels, up, eacks = evs(s, 'call_later'), evs(s, 'cancel'), evs(s, 'tm_process_request'), evs(s, 'empty_ack')
        had = ev('old((request.remote, request.token) in self._piggyback_opportunities)')
        g = [('one-upcall', B(len(up) == 1)), ('ack-timer-iff-confirmable', B(len(timers) == 1) == con),
             ('non-leaves-opportunities-alone', z3.Implies(z3.Not(con), B(not cancels and not eacks)))]
        for e in up:
            g.append(('upcall-this-request', e[2].t == env['request'].t))
        for e in timers:
            g.append(('ack-delay-from-request-tuning', ev('d == request.transport_tuning.EMPTY_ACK_DELAY', d=e[1])))
            g.append(('opportunity-recorded-with-request-mid', ev('(request.remote, request.token) in self._piggyback_opportunities and self._piggyback_opportunities[(request.remote, request.token)][0] == request.mid and self._piggyback_opportunities[(request.remote, request.token)][1] is h', h=e[4])))
            s3 = simulate(ex, s, e[2], e[3])
            g.append(('timer-callback-does-not-raise', B(s3 is not None)))
            if s3 is not None:
                n0 = len(s.log)
                acks = [x for x in s3.log[n0:] if x[0] == 'empty_ack']
                g.append(('timer-sends-one-empty-ack', B(len(acks) == 1 and len(s3.log) - n0 == 1)))
                e3 = Ev(ex, s3, entry, env)
                for a in acks:
                    g.append(('timer-acks-this-request', e3('r is request.remote and m == request.mid', r=a[2], m=a[3])))
                g.append(('timer-consumes-opportunity', e3('(request.remote, request.token) not in self._piggyback_opportunities')))
        g.append(('earlier-pending-ack-is-sent-not-dropped', z3.Implies(z3.And(con, had), z3.And(B(len(cancels) == 1), B(len(eacks) == 1)))))
        for a in eacks:
            g.append(('earlier-request-acked-under-its-mid', ev('m == old(self._piggyback_opportunities[(request.remote, request.token)][0]) and r is request.remote', r=a[2], m=a[3])))
        for c in cancels:
            g.append(('cancels-the-earlier-ack-timer', ev('h is old(self._piggyback_opportunities[(request.remote, request.token)][1])', h=c[1])))
        g.append(('no-ack-without-earlier-request', z3.Implies(z3.Not(z3.And(con, had)), B(len(eacks) == 0 and len(cancels) == 0))))
        return g

    reg.contract(MM + '._process_request', params={'request': MSG}, properties=['C10'], only_raises=True,
                 requires=['mm_inv_sd(self)', 'request.remote is not None', 'request.mtype is not None', 'request.mid is not None'],
                 modifies=[PB, REC], at_exit=pr_exit, ghost=lg('process_request', 'self', 'request'),
                 ensures={'invariant-kept': 'mm_inv_sd(self)',
                          'running-stays-running': 'implies(old(self._active_exchanges is not None), mm_inv(self))',
                          'other-opportunities-untouched': frame('_piggyback_opportunities', '(request.remote, request.token)')})

    # =========================================================== entry points
    # ---- dispatch_message: the reaction table
    def dm_exit(ex, s, entry, env, result):
        ev = Ev(ex, s, entry, env)
        m = env['message']
        is_req, is_resp, empty = ev('1 <= message.code < 32'), ev('64 <= message.code < 192'), ev('message.code == 0')
        ty = lambda t: ev('message.mtype == %d' % t)
        dd = evs(s, 'dedup')
        dup = z3.BoolVal(False)
        g = [('dedup-only-requests', B(len(dd) == 1) == is_req)]
        for e in dd:
            g.append(('dedup-this-message', e[2].t == m.t))
            dup = e[3].t
        g.append(('duplicate-request-stops-here', z3.Implies(z3.And(is_req, dup), B(len(s.log) == len(dd)))))
        live = z3.Not(z3.And(is_req, dup))
        rm, ping, preq, presp, eack, si = (evs(s, k) for k in ('_remove_exchange', 'ping', 'process_request', 'process_response', 'empty_ack', 'send_initially'))
        g.append(('ack-or-rst-ends-exchange', z3.Implies(live, B(len(rm) == 1) == z3.Or(ty(ACK), ty(RST)))))
        g.append(('ping-answered', z3.Implies(live, B(len(ping) == 1) == z3.And(empty, ty(CON)))))
        g.append(('request-upcall', z3.Implies(live, B(len(preq) == 1) == z3.And(is_req, z3.Or(ty(CON), ty(NON))))))
        g.append(('response-upcall', z3.Implies(live, B(len(presp) == 1) == z3.And(is_resp, z3.Or(ty(CON), ty(NON), ty(ACK))))))
        for e in rm + ping + preq + presp:
            g.append(('same-message-passed-on', e[2].t == m.t))
        matched = presp[0][3].t if presp else z3.BoolVal(False)
        g.append(('matched-con-response-gets-empty-ack', B(len(eack) == 1) == z3.And(B(len(presp) == 1), matched, ty(CON))))
        for e in eack:
            g.append(('ack-to-sender', ev('r is message.remote', r=e[2])))
            g.append(('ack-same-mid', ev('m2 == message.mid', m2=e[3])))
        unmatched_con = z3.And(B(len(presp) == 1), z3.Not(matched), ty(CON), ev('not message.remote.is_multicast_locally'))
        g.append(('unmatched-unicast-con-response-gets-rst', B(len(si) == 1) == unmatched_con))
        for e in si:
            g.append(('rst-type', ev('r.mtype == 3 and r.code == 0 and r.mid == message.mid and len(r.payload) == 0', r=e[2])))
            g.append(('rst-to-sender', ev('r.remote == as_response_address(message.remote)', r=e[2])))
        g.append(('nothing-else', B(len(s.log) == len(dd) + len(rm) + len(ping) + len(preq) + len(presp) + len(eack) + len(si))))
        return g

    reg.contract(MM + '.dispatch_message', params={'message': MSG}, properties=['C10', 'C03', 'C04', 'C02', 'C14'],
                 requires=['mm_inv(self)', 'message.code is not None', 'message.mtype is not None', 'message.remote is not None',
                           'message.mid is not None', '0 <= message.mtype <= 3', '0 <= message.code <= 255', 'tuning_ok(message)'],
                 only_raises=True, at_exit=dm_exit, modifies=[REC, ACT, BL, PB, '*lists'],
                 ensures={'invariant-kept': 'mm_inv(self)'})

    # ---- send_message
    def sm_exit(ex, s, entry, env, result):
        ev = Ev(ex, s, entry, env)
        g = []
        m = env['message']
        is_resp = ev('old(64 <= message.code < 192)')
        nr = z3.And(is_resp, ev('old(message.opt.no_response is not None and nr_suppressed(message.opt.no_response, message.code))'))
        opp = z3.And(is_resp, ev('old((message.remote, message.token) in self._piggyback_opportunities)'))
        si, bl, cancels, nmid = evs(s, 'send_initially'), evs(s, 'backlog_append'), evs(s, 'cancel'), evs(s, 'next_mid')
        live = ev('old(self._active_exchanges is not None)')    # before MessageManager.shutdown (afterwards every type is forced to NON)
        g.append(('suppressed-without-pending-ack-sends-nothing', z3.Implies(z3.And(nr, z3.Not(opp)), B(len(s.log) == 0))))
        g.append(('opportunity-consumed', z3.Implies(opp, ev('(old(message.remote), old(message.token)) not in self._piggyback_opportunities'))))
        g.append(('ack-timer-cancelled-iff-opportunity', B(len(cancels) == 1) == opp))
        for e in cancels:
            g.append(('cancels-the-pending-ack-timer', ev('h is old(self._piggyback_opportunities[(message.remote, message.token)][1])', h=e[1])))
        for e in si:
            out = e[2]
            g.append(('suppressed-with-pending-ack-sends-empty-ack', z3.Implies(z3.And(nr, opp, live),
                      ev('o is not message and o.mtype == 2 and o.code == 0 and o.mid == old(self._piggyback_opportunities[(message.remote, message.token)][0]) and o.remote == as_response_address(old(message.remote))', o=out))))
            g.append(('otherwise-this-message', z3.Implies(z3.Not(z3.And(nr, opp)), out.t == m.t)))
            g.append(('piggybacked-is-ack-with-request-mid', z3.Implies(z3.And(opp, z3.Not(nr), live),
                      ev('message.mtype == 2 and message.mid == old(self._piggyback_opportunities[(message.remote, message.token)][0])'))))
            g.append(('no-response-option-cleared', z3.Implies(is_resp, ev('o.opt.no_response is None', o=out))))
            g.append(('never-con-to-multicast', ev('not (o.mtype == 0 and o.remote.is_multicast)', o=out)))
            g.append(('mid-set', ev('o.mid is not None', o=out)))
            g.append(('monitor-passed-on', ev('mon is messageerror_monitor', mon=e[3])))
        g.append(('at-most-one-transmission', B(len(si) <= 1)))
        plain = z3.And(z3.Not(opp), z3.Not(nr), ev('old(message.mtype is None)'))
        g.append(('type-non-after-shutdown-or-multicast', z3.Implies(z3.And(plain, ev('old(self._active_exchanges is None) or old(message.remote.is_multicast)')), ev('message.mtype == 1'))))
        g.append(('type-follows-reliability', z3.Implies(z3.And(plain, ev('old(self._active_exchanges is not None) and not old(message.remote.is_multicast)')),
                  ev('message.mtype == (0 if old(message.transport_tuning.reliability) is True else 1 if old(message.transport_tuning.reliability) is False else 1 if (old(message.request) is not None and old(message.request.mtype) == 1) else 0)'))))
        g.append(('fresh-mid-unless-piggybacked', z3.Implies(z3.And(B(len(si) + len(bl) == 1), z3.Not(opp)), B(len(nmid) == 1))))
        for e in nmid:
            g.append(('mid-from-counter', z3.Implies(z3.Not(opp), ev('message.mid == n', n=e[2]))))
        con_out = ev('message.mtype == 0')
        g.append(('con-behind-open-exchange-is-queued-not-sent', z3.Implies(z3.And(con_out, ev('old(message.remote in self._backlogs)'), z3.Not(nr)),
                  z3.And(B(len(si) == 0), B(len(bl) == 1)))))
        g.append(('con-without-open-exchange-is-sent-now', z3.Implies(z3.And(con_out, z3.Not(ev('old(message.remote in self._backlogs)')), z3.Not(nr)),
                  z3.And(B(len(si) == 1), B(len(bl) == 0)))))
        g.append(('only-con-is-ever-queued', z3.Implies(B(len(bl) > 0), con_out)))
        g.append(('non-is-never-delayed', z3.Implies(z3.And(ev('message.mtype == 1'), z3.Not(nr)), B(len(si) == 1 and len(bl) == 0))))
        for e in bl:
            g.append(('queued-at-the-end', ev('old(message.remote in self._backlogs) and lst is old(self._backlogs[message.remote]) and it[0] is message and it[1] is messageerror_monitor '
                                              'and len(lst) == old(len(self._backlogs[message.remote])) + 1 and lst[len(lst) - 1] == it '
                                              'and forall(j, 0, len(lst) - 1, lst[j] == old(self._backlogs[message.remote][j]))', lst=e[1], it=e[2])))
        return g

    reg.contract(MM + '.send_message', params={'message': MSG, 'messageerror_monitor': Opt(CALLABLE)}, properties=['C10', 'C14', 'C18', 'C04'],     # C04: the stored answer of a duplicate is keyed by the MID the response leaves with
                 requires=['mm_inv_sd(self)', 'message.code is not None', 'message.remote is not None',
                           'implies(message.mtype is not None, 0 <= message.mtype <= 3)', '0 <= message.code <= 255',
                           'implies(message.opt.no_response is not None, 0 <= message.opt.no_response)',
                           'messageerror_monitor is not None', 'tuning_ok(message)', 'not_held(self, message)'],
                 raises={'ConToMulticast': MAY}, only_raises=True,
                 raises_post={'ConToMulticast': {'only-con-to-multicast': lambda ctx: ctx.ex.truth(ctx.st, ctx.ev('message.mtype == 0 and message.remote.is_multicast')),
                                                 'nothing-sent': lambda ctx: B(not evs(ctx.st, 'send_initially', 'wire', 'backlog_append', 'next_mid'))}},
                 at_exit=sm_exit, modifies=[REC, ACT, BL, PB, '*lists', 'self.message_id', 'field:mtype', 'field:mid', 'field:no_response'],
                 ensures={'invariant-kept': 'mm_inv_sd(self)',
                          'running-stays-running': 'implies(old(self._active_exchanges is not None), mm_inv(self))'})

    # ---- dispatch_error (transport error for an endpoint) and shutdown
    ACTT = F['_active_exchanges'][1]
    KS = sort_of(ACTT[1])

    def act_now(ex, st, mm):
        return dicts(ex, st, mm)[1].some()

    def in_list(ex, st, lst, kterm, upto=None, frm=None):
        j = z3.Int(fresh_name('ij'))
        n = ex.list_len(st, lst) if upto is None else upto
        lo = z3.IntVal(0) if frm is None else frm
        return z3.Exists([j], z3.And(lo <= j, j < n, z3.Select(ex.list_arr(st, lst), j) == kterm))

    def de_inv0(ctx):
        """collecting loop: the list holds exactly the visited keys of that endpoint, each once; the dict is untouched"""
        ex, st, env = ctx.ex, ctx.st, ctx.env
        mm, lst, done = env['self'], env['keys_for_removal'], env['_done'].t
        if getattr(lst, 'pending', False):
            return z3.BoolVal(True)
        act, act0 = act_now(ex, st, mm), act_now(ex, ctx.old_st, mm)
        rem = coerce(env['remote'], ACTT[1][1][0]).t
        k = z3.Const(fresh_name('dk'), KS)
        j, j2 = z3.Int(fresh_name('dj')), z3.Int(fresh_name('dj2'))
        n = ex.list_len(st, lst)
        arr = ex.list_arr(st, lst)
        r = lambda kk: KS.accessor(0, 0)(kk)
        with quantified(ex):
            a = z3.ForAll([k], z3.Implies(z3.And(z3.Select(done, k), z3.Select(ex.dict_dom(st, act), k), r(k) == rem), in_list(ex, st, lst, k)))
            b = z3.ForAll([j], z3.Implies(z3.And(0 <= j, j < n), z3.And(z3.Select(done, z3.Select(arr, j)), z3.Select(ex.dict_dom(st, act), z3.Select(arr, j)), r(z3.Select(arr, j)) == rem)))
            c = z3.ForAll([j, j2], z3.Implies(z3.And(0 <= j, j < j2, j2 < n), z3.Select(arr, j) != z3.Select(arr, j2)))
        same = dict_frame(ex, st, ctx.old_st, mm, F, '_active_exchanges')
        return z3.And(a, b, c, same, n >= 0)

    def de_inv1(ctx):
        """removing loop: exactly the first _i listed keys are gone"""
        ex, st, env = ctx.ex, ctx.st, ctx.env
        mm, lst, i = env['self'], env['keys_for_removal'], env['_i'].t
        act, act0 = act_now(ex, st, mm), act_now(ex, ctx.old_st, mm)
        rem = coerce(env['remote'], ACTT[1][1][0]).t
        k = z3.Const(fresh_name('dk'), KS)
        j, j2 = z3.Int(fresh_name('dj')), z3.Int(fresh_name('dj2'))
        n = ex.list_len(st, lst)
        arr = ex.list_arr(st, lst)
        r = lambda kk: KS.accessor(0, 0)(kk)
        with quantified(ex):
            a = z3.ForAll([k], z3.Select(ex.dict_dom(st, act), k) == z3.And(z3.Select(ex.dict_dom(ctx.old_st, act0), k), z3.Not(in_list(ex, st, lst, k, upto=i))))
            b = z3.ForAll([j], z3.Implies(z3.And(0 <= j, j < n), z3.And(z3.Select(ex.dict_dom(ctx.old_st, act0), z3.Select(arr, j)), r(z3.Select(arr, j)) == rem)))
            c = z3.ForAll([j, j2], z3.Implies(z3.And(0 <= j, j < j2, j2 < n), z3.Select(arr, j) != z3.Select(arr, j2)))
            d = z3.ForAll([k], z3.Implies(z3.And(z3.Select(ex.dict_dom(ctx.old_st, act0), k), r(k) == rem), in_list(ex, st, lst, k)))
            v = z3.ForAll([k], z3.Implies(z3.Select(ex.dict_dom(st, act), k), z3.Select(ex.dict_vals(st, act), k) == z3.Select(ex.dict_vals(ctx.old_st, act0), k)))
        return z3.And(a, b, c, d, v, act.t == act0.t)

    def de_exit(ex, s, entry, env, result):
        ev = Ev(ex, s, entry, env)
        down = ev('old(self._active_exchanges is None)')
        errs, cancels = evs(s, 'tm_dispatch_error'), evs(s, 'cancel')
        g = [('after-shutdown-nothing-happens', z3.Implies(down, B(len(s.log) == 0))),
             ('requests-of-the-endpoint-are-failed-once', z3.Implies(z3.Not(down), B(len(errs) == 1)))]
        for e in errs:
            g.append(('same-error-and-endpoint', z3.And(e[2].t == env['error'].t, ev('r is remote', r=e[3]))))
            g.append(('requests-failed-before-exchanges-end', B(s.log.index(e) == 0)))
        g.append(('no-exchange-left-for-the-endpoint', z3.Implies(z3.Not(down), ev('not exists_active(self, remote)'))))
        g.append(('backlog-dropped', z3.Implies(z3.Not(down), ev('remote not in self._backlogs'))))
        return g

    def de_lemmas(ex, s, entry, env, result):
        if ex.truth(s, ex.spec_val(s, 'old(self._active_exchanges is None)', env=env, old_st=entry)).eq(z3.BoolVal(True)):
            return []
        mm = env['self']
        act_o = dicts(ex, entry, mm)[1]
        act_n = dicts(ex, s, mm)[1]
        down = act_o.is_none()
        act, act0 = act_n.some(), act_o.some()
        rem = coerce(env['remote'], ACTT[1][1][0]).t
        k = z3.Const(fresh_name('lk'), KS)
        r = lambda kk: KS.accessor(0, 0)(kk)
        bl, bl0 = dicts(ex, s, mm)[2], dicts(ex, entry, mm)[2]
        rr = z3.Const(fresh_name('lr'), sort_of(bl.k))
        with quantified(ex):
            a = z3.ForAll([k], z3.Select(ex.dict_dom(s, act), k) == z3.And(z3.Select(ex.dict_dom(entry, act0), k), r(k) != rem))
            v = z3.ForAll([k], z3.Implies(z3.Select(ex.dict_dom(s, act), k), z3.Select(ex.dict_vals(s, act), k) == z3.Select(ex.dict_vals(entry, act0), k)))
            b = z3.ForAll([rr], z3.Select(ex.dict_dom(s, bl), rr) == z3.And(z3.Select(ex.dict_dom(entry, bl0), rr), rr != rem))
            bv = z3.ForAll([rr], z3.Implies(rr != rem, z3.Select(ex.dict_vals(s, bl), rr) == z3.Select(ex.dict_vals(entry, bl0), rr)))
        return [('exchanges-minus-endpoint', z3.Implies(z3.Not(down), z3.And(a, v))),
                ('backlogs-minus-endpoint', z3.Implies(z3.Not(down), z3.And(b, bv)))]

    reg.contract(MM + '.dispatch_error', params={'error': Ref('builtins:Exception'), 'remote': Opt(Ref('Remote'))}, properties=['C14', 'C18', 'C02', 'C04'],      # C04: its frame keeps the deduplication state out of error handling
                 exit_lemmas=de_lemmas,
                 requires=['mm_inv_sd(self)', 'remote is not None'], only_raises=True, modifies=[ACT, BL],
                 invariants={0: [de_inv0], 1: [de_inv1]}, at_exit=de_exit,
                 ensures={'invariant-kept': 'mm_inv_sd(self)',
                          'other-backlogs-untouched': frame('_backlogs', 'remote')})

    reg.externals['MessageInterface.shutdown'] = lambda ex, st, args, kw, node: (st.log.append(('mi_shutdown', args[0])), [(st, VNone())])[1]

    def sd_step(ex, s, snap):
        evs_ = s.log[len(snap.log):]
        g = [('one-cancel-per-exchange', B(len(evs_) == 1 and evs_[0][0] == 'cancel'))]
        for e in evs_:
            if e[0] == 'cancel':
                g.append(('cancels-this-exchange-timer', ex.truth(s, ex.spec_val(s, 'h is cancellable', env=dict(ex.visible_env(s), h=e[1])))))
        return g

    def sd_pb_step(ex, s, snap):
        evs_ = s.log[len(snap.log):]
        g = [('one-cancel-per-pending-ack', B(len(evs_) == 1 and evs_[0][0] == 'cancel'))]
        for e in evs_:
            if e[0] == 'cancel':
                g.append(('cancels-this-ack-timer', ex.truth(s, ex.spec_val(s, 'h is ack_handle', env=dict(ex.visible_env(s), h=e[1])))))
        return g

    def sd_at_await(ex, s, entry, env):
        ev = Ev(ex, s, entry, env)
        return [('exchanges-dropped-before-transport-shutdown', ev('self._active_exchanges is None')),
                # C18 "no timer or callback of it raises in the event loop [after shutdown]": an empty-ACK timer left armed fires into
                # the transport that was shut down; every entry of _piggyback_opportunities stands for one armed timer (I-pb)
                ('no-empty-ack-timer-left-armed', ev('len(self._piggyback_opportunities) == 0')),
                ('no-monitor-called', B(not evs(s, 'call'))),
                ('nothing-transmitted', B(not evs(s, 'wire', 'send_initially'))),
                ('invariant-after-shutdown', ev('mm_inv_sd(self)')),
                # every entry of _recent_messages has an armed expiry timer that pops it WITHOUT a default (a missing entry
                # raises KeyError in the event loop after shutdown): shutdown must leave the entries to their timers
                ('deduplication-entries-are-left-to-their-expiry-timers', dict_frame(ex, s, entry, env['self'], reg.classes['MessageManager'].fields, '_recent_messages'))]

    reg.declare_class('TokenManagerI', 'aiocoap.interfaces:TokenManager', opaque=True, fields={'log': ANY, 'loop': Ref('Loop')})
    reg.contract(MM + '.__init__', params={'token_manager': Ref('TokenManagerI')}, properties=['C18', 'C14', 'C04'], only_raises=True, modifies=['*'],
                 ensures={'own-empty-tables': 'is_new(self._recent_messages) and is_new(self._backlogs) and is_new(self._piggyback_opportunities) and self._active_exchanges is not None and is_new(self._active_exchanges) '
                                              'and len(self._recent_messages) == 0 and len(self._backlogs) == 0 and len(self._piggyback_opportunities) == 0 and len(self._active_exchanges) == 0',
                          'invariant-established': 'mm_inv(self)',
                          'message-id-in-range': '0 <= self.message_id <= 65535', 'bound-to-its-token-manager': 'self.token_manager is token_manager and self.loop is token_manager.loop'})

    reg.contract(MM + '.shutdown', properties=['C18'], requires=['mm_inv(self)'],
                 raises={'CancelledError': MAY}, only_raises=True,
                 loop_steps={0: [sd_step], 1: [sd_pb_step]}, hints={'{}': reg.classes['MessageManager'].fields['_piggyback_opportunities']},
                 awaits={0: {'check': sd_at_await, 'havoc': True}}, modifies=['*'])
