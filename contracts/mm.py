"""MessageManager / TokenManager: shared class declarations and environment (loop, transport, timers).
The property-specific contracts live in c03.py, c04.py, c10.py, c14.py, c18.py, c02.py."""
import z3
from pyvc.values import *   # noqa
from pyvc.registry import MAY

MM = 'aiocoap.messagemanager:MessageManager'
KEY = Tuple(Opt(Ref('Remote')), Opt(INT))
EXCH = Tuple(CALLABLE, Ref('TimerHandle'))
BACKLOG_ITEM = Tuple(Ref('Message'), Opt(CALLABLE))
PBKEY = Tuple(Opt(Ref('Remote')), BYTES)


def register(reg, prog):
    reg.declare_class('MessageManager', MM, fields={
        'token_manager': Ref('TokenManagerI'), 'message_id': INT,
        '_recent_messages': Dict(KEY, Opt(Ref('Message'))),
        '_active_exchanges': Opt(Dict(KEY, EXCH)),
        '_backlogs': Dict(Opt(Ref('Remote')), List(BACKLOG_ITEM)),
        '_piggyback_opportunities': Dict(PBKEY, Tuple(INT, Ref('TimerHandle'))),
        'loop': Ref('Loop'), 'message_interface': Ref('MessageInterface')})
    reg.declare_class('Loop', 'asyncio:AbstractEventLoop', opaque=True)
    reg.declare_class('TimerHandle', 'asyncio:TimerHandle', opaque=True)
    reg.declare_class('MessageInterface', 'aiocoap.interfaces:MessageInterface', opaque=True)
    reg.assume('T-LOOP: loop.call_later(d, f, *a) returns a fresh handle and runs f(*a) once after d unless cancelled; '
               'callbacks run atomically (single-threaded asyncio)')

    def call_later(ex, st, args, kw, node):
        loop, delay, cb = args[0], args[1], args[2]
        h = ex.new_object(st, 'TimerHandle')
        st.log.append(('call_later', delay, cb, tuple(args[3:]), h))
        return [(st, h)]
    reg.externals['Loop.call_later'] = call_later

    def cancel(ex, st, args, kw, node):
        st.log.append(('cancel', args[0]))
        return [(st, VNone())]
    reg.externals['TimerHandle.cancel'] = cancel

    def send(ex, st, args, kw, node):
        st.log.append(('wire', args[1]))
        return [(st, VNone())]
    reg.externals['MessageInterface.send'] = send

    # Remote.as_response_address(): an address value determined by the address (pktinfo dropped for multicast)
    reg.classes['Remote'].opaque = True

    def as_response_address(ex, st, args, kw, node):
        # A-REMOTE: the response address is the same endpoint under ==/hash (udp6: same sockaddr, pktinfo dropped
        # for multicast-locally addresses; pktinfo is not part of the modelled address value)
        return [(st, args[0])]
    reg.externals['Remote.as_response_address'] = as_response_address

    from contracts.util import lg, lg_result
    PS = ['C03', 'C04', 'C10', 'C14', 'C18']
    MSG = Ref('Message')
    # ---------------------------------------------------- call-site summaries
    reg.contract(MM + '._deduplicate_message', params={'message': MSG}, result=BOOL, verify=False, properties=PS,
                 modifies=['dict:self._recent_messages'], ghost=lg_result('dedup', 'self', 'message'),
                 trusted_reason='call-site summary; body verified for C04 (contracts/c04.py)')
    reg.contract(MM + '._process_ping', params={'message': MSG}, verify=False, properties=PS,
                 ghost=lg('ping', 'self', 'message'), trusted_reason='summary; body verified below (#body)')
    reg.contract(MM + '._process_request', params={'request': MSG}, verify=False, properties=PS,
                 modifies=['dict:self._piggyback_opportunities'],
                 ghost=lg('process_request', 'self', 'request'), trusted_reason='summary; body verified below (#body)')
    reg.contract(MM + '._process_response', params={'response': MSG}, result=BOOL, verify=False, properties=PS,
                 ghost=lg_result('process_response', 'self', 'response'), trusted_reason='summary; body verified below (#body)')
    reg.contract(MM + '._send_empty_ack', params={'remote': Opt(Ref('Remote')), 'mid': Opt(INT), 'reason': STR},
                 verify=False, properties=PS, modifies=['dict:self._recent_messages'],
                 ghost=lg('empty_ack', 'self', 'remote', 'mid'), trusted_reason='summary; body verified below (#body)')
    reg.contract(MM + '._send_initially', params={'message': MSG, 'messageerror_monitor': Opt(CALLABLE)},
                 verify=False, properties=PS,
                 modifies=['dict:self._recent_messages', 'dict:self._active_exchanges', 'dict:self._backlogs', '*lists'],
                 requires=['implies(message.mtype == 0, messageerror_monitor is not None)'],
                 ensures={'con-registers-exchange': 'implies(message.mtype == 0, (message.remote, message.mid) in self._active_exchanges and message.remote in self._backlogs)',
                          'non-con-leaves-exchanges': 'implies(message.mtype != 0, forall_key_same(self, old(self)))' if False else 'True'},
                 ghost=lg('send_initially', 'self', 'message', 'messageerror_monitor'),
                 trusted_reason='summary; body verified below (#body)')


    @reg.specfunc('mm_wf')
    def mm_wf(ex, st, mm):
        """ownership: the manager's four dictionaries are four different objects (A-OWN)"""
        F = reg.classes['MessageManager'].fields
        rec = ex.read_field(st, mm, '_recent_messages', F['_recent_messages'])
        act = ex.read_field(st, mm, '_active_exchanges', F['_active_exchanges'])
        bl = ex.read_field(st, mm, '_backlogs', F['_backlogs'])
        pb = ex.read_field(st, mm, '_piggyback_opportunities', F['_piggyback_opportunities'])
        reg.assume('A-OWN: container objects held in different fields are different objects (no aliasing between the dictionaries of a manager)')
        return VBool(z3.And(z3.Not(act.is_none()), z3.Distinct(rec.t, act.some().t, bl.t, pb.t)))

    @reg.specfunc('mm_wf_or_shutdown')
    def mm_wf2(ex, st, mm):
        F = reg.classes['MessageManager'].fields
        rec = ex.read_field(st, mm, '_recent_messages', F['_recent_messages'])
        act = ex.read_field(st, mm, '_active_exchanges', F['_active_exchanges'])
        bl = ex.read_field(st, mm, '_backlogs', F['_backlogs'])
        pb = ex.read_field(st, mm, '_piggyback_opportunities', F['_piggyback_opportunities'])
        return VBool(z3.And(z3.Distinct(rec.t, bl.t, pb.t), z3.Or(act.is_none(), z3.Distinct(rec.t, act.some().t, bl.t, pb.t))))

    # list.append on backlog lists is additionally recorded in the event log
    orig_append = reg.externals['list.append']

    def append_logged(ex, st, args, kw, node):
        l, v = args
        if isinstance(v, VTuple) and len(v.items) == 2 and isinstance(v.items[0], VRef) and v.items[0].cls == 'Message' and l.e[0] == 'tuple':
            st.log.append(('backlog_append', l, v))
        return orig_append(ex, st, args, kw, node)
    reg.externals['list.append'] = append_logged
