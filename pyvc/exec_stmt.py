"""Statements, loops, and the per-function verification driver."""
import ast
import z3

from .values import *  # noqa
from .state import State
from .solve import feasible
from .registry import MAY
from .exec_call import ite_val


def assigned_names(nodes):
    names = set()
    for n in nodes:
        for m in ast.walk(n):
            if isinstance(m, ast.Name) and isinstance(m.ctx, (ast.Store, ast.Del)):
                names.add(m.id)
            elif isinstance(m, (ast.FunctionDef, ast.AsyncFunctionDef)):
                names.add(m.name)
    return names


def _as_load(t):
    import copy
    t2 = copy.deepcopy(t)
    for m in ast.walk(t2):
        if hasattr(m, 'ctx'):
            m.ctx = ast.Load()
    return t2


class StmtMixin:
    def exec_block(self, st, stmts):
        states = [st]
        for n in stmts:
            nxt = []
            for s in states:
                if s.exc is not None:
                    nxt.append(s)
                else:
                    nxt.extend(self.exec_stmt(s, n))
            states = nxt
            self.paths = max(self.paths, len(states))
            if len(states) > 6000:
                raise Unsupported('path budget exceeded')
        return states

    def exec_stmt(self, st, n):
        m = getattr(self, 's_' + type(n).__name__, None)
        if m is None:
            self.unsupported(n, 'statement kind %s' % type(n).__name__)
        return m(st, n)

    def s_Pass(self, st, n):
        return [st]

    def s_Expr(self, st, n):
        if isinstance(n.value, ast.Constant):
            return [st]
        return [s for s, _ in self.eval(st, n.value)]

    def s_Return(self, st, n):
        if n.value is None:
            st.exc = ('return', VNone())
            return [st]
        out = []
        for s, v in self.eval(st, n.value):
            if s.exc is None:
                s.exc = ('return', v)
            out.append(s)
        return out

    def s_Break(self, st, n):
        st.exc = ('break',)
        return [st]

    def s_Continue(self, st, n):
        st.exc = ('continue',)
        return [st]

    def s_Global(self, st, n):
        self.unsupported(n, 'global statement')

    def s_Nonlocal(self, st, n):
        return [st]

    def s_Import(self, st, n):
        for a in n.names:
            st.setvar(a.asname or a.name.split('.')[0], VModule(a.name if a.asname else a.name.split('.')[0], None))
        return [st]

    def s_ImportFrom(self, st, n):
        info = st.info()
        mod = info.module._resolve_rel(n.level, n.module)
        for a in n.names:
            v = self.module_attr(st, VModule(mod, None), a.name, n)
            st.setvar(a.asname or a.name, v)
        return [st]

    def s_Assert(self, st, n):
        out = []
        for s, v in self.eval(st, n.test):
            if s.exc is not None:
                out.append(s)
                continue
            ok, ex = self.guard(s, self.truth(s, v), 'builtins:AssertionError')
            if ok is not None:
                out.append(ok)
            if ex is not None:
                out.append(ex)
        return out

    def s_Raise(self, st, n):
        if n.exc is None:
            cur = st.frames[st.cur].get('$handling')
            if cur is None:
                fid = st.cur
                while fid is not None and cur is None:
                    cur = st.frames[fid].get('$handling')
                    fid = st.frames[fid]['$parent']
            if cur is None:
                self.unsupported(n, 'bare raise outside handler')
            st.exc = cur
            return [st]
        out = []
        for s, v in self.eval(st, n.exc):
            if s.exc is not None:
                out.append(s)
                continue
            if isinstance(v, VFunc) and v.kind == 'class':
                res = self.construct(s, v, [], {}, n)
            else:
                res = [(s, v)]
            for s2, v2 in res:
                if s2.exc is None:
                    if not isinstance(v2, VRef):
                        self.unsupported(n, 'raise of %r' % (v2,))
                    s2.exc = ('raise', v2, self.class_key(v2.cls))
                out.append(s2)
        return out

    def s_If(self, st, n):
        n_common = len(st.pc)
        return self.merge_states(self._s_If(st, n), n_common)

    def _s_If(self, st, n):
        out = []
        for s, c in self.eval(st, n.test):
            if s.exc is not None:
                out.append(s)
                continue
            st_t, st_f = self.branch(s, self.truth(s, c))
            if st_t is not None:
                self.refine(st_t, n.test, True)
                out.extend(self.exec_block(st_t, n.body))
            if st_f is not None:
                self.refine(st_f, n.test, False)
                out.extend(self.exec_block(st_f, n.orelse))
        return out

    # ---------------------------------------------------------- state merging
    def _log_sig(self, st):
        sig = []
        for e in st.log:
            row = [e[0]]
            for x in e[1:]:
                if isinstance(x, tuple):
                    row.append(tuple(getattr(y, 't', y).get_id() if hasattr(getattr(y, 't', y), 'get_id') else id(y) for y in x))
                elif isinstance(x, Val) and hasattr(x.t, 'get_id') and not isinstance(x, (VBytes, VSeq, VTuple)):
                    row.append(x.t.get_id())
                else:
                    row.append(id(x))
            sig.append(tuple(row))
        return tuple(sig)

    def merge_states(self, states, n_common):
        """Join the normally completed states after a branching statement when they executed the same events:
        one state with if-then-else values instead of several paths.  n_common: length of the shared pc prefix."""
        import os
        if os.environ.get('PYVC_NO_MERGE') == '1' or len(states) < 2:
            return states
        groups, out = {}, []
        for s in states:
            if s.exc is not None:
                out.append(s)
                continue
            key = (s.cur, tuple(sorted(s.frames.keys())), self._log_sig(s), s.depth,
                   id(s.ghost.get('$head')), len(s.ghost.get('$first_iter', [])))
            groups.setdefault(key, []).append(s)
        for key, grp in groups.items():
            acc = grp[0]
            for other in grp[1:]:
                m = self._merge2(acc, other, n_common)
                if m is None:
                    out.append(other)
                else:
                    acc = m
            out.append(acc)
        return out

    def _merge2(self, a, b, n):
        from .exec_call import ite_val
        if len(a.pc) < n or len(b.pc) < n or any(not x.eq(y) for x, y in zip(a.pc[:n], b.pc[:n])):
            return None
        ca = [f for f in a.pc[n:] if f.get_id() not in a.fact_ids]
        cb = [f for f in b.pc[n:] if f.get_id() not in b.fact_ids]
        fa = [f for f in a.pc[n:] if f.get_id() in a.fact_ids]
        fb = [f for f in b.pc[n:] if f.get_id() in b.fact_ids]
        cond_a = z3.And(*ca) if ca else z3.BoolVal(True)
        cond_b = z3.And(*cb) if cb else z3.BoolVal(True)
        m = a.copy()
        # environment
        for fid in a.frames:
            fa_, fb_ = a.frames[fid], b.frames[fid]
            if set(fa_.keys()) != set(fb_.keys()):
                return None
            for k in fa_:
                va, vb = fa_[k], fb_[k]
                if va is vb or k.startswith('$') and va == vb:
                    continue
                if k.startswith('$'):
                    if k == '$handling' or k == '$captured' or k == '$nonlocal':
                        if va != vb:
                            return None
                        continue
                    return None
                if isinstance(va, Val) and isinstance(vb, Val):
                    ta, tb = getattr(va, 't', None), getattr(vb, 't', None)
                    if isinstance(va, (VFunc, VModule)) or isinstance(vb, (VFunc, VModule)):
                        if va is vb or (ta is not None and tb is not None and hasattr(ta, 'eq') and ta.eq(tb) and type(va) is type(vb) and getattr(va, 'kind', None) == getattr(vb, 'kind', None) and getattr(va, 'kind', None) == 'opaque'):
                            continue
                        return None
                    if ta is not None and tb is not None and type(va) is type(vb) and not isinstance(va, (VBytes, VSeq, VTuple, VBits)) and ta.eq(tb):
                        continue
                    try:
                        m.frames[fid][k] = ite_val(cond_a, va, vb)
                    except Exception:
                        return None
                else:
                    return None
        # heap
        for key in set(a.heap) | set(b.heap):
            ha, hb = a.heap.get(key), b.heap.get(key)
            if ha is None or hb is None:
                srt = (ha if ha is not None else hb).sort()
                base = z3.Const('H0:' + ':'.join(str(k) for k in key), srt)
                ha = base if ha is None else ha
                hb = base if hb is None else hb
            m.heap[key] = ha if ha.eq(hb) else z3.If(cond_a, ha, hb)
        m.alloc = a.alloc if a.alloc.eq(b.alloc) else z3.If(cond_a, a.alloc, b.alloc)
        # ghost
        for k in set(a.ghost) | set(b.ghost):
            if k == '$callables':
                d = dict(b.ghost.get(k, {}))
                d.update(a.ghost.get(k, {}))
                m.ghost[k] = d
            elif a.ghost.get(k) is not b.ghost.get(k) and a.ghost.get(k) != b.ghost.get(k):
                return None
        m.pc = list(a.pc[:n]) + [z3.Or(cond_a, cond_b)] + fa + fb
        m.fact_ids = a.fact_ids | b.fact_ids
        m.facts_seen = a.facts_seen & b.facts_seen
        if self.written is not None:
            pass
        return m

    def refine(self, st, test, outcome):
        """after branching on `x is None` / `x is not None` / `x` / `not x` for a local x holding an
        optional value, replace x by its case (type refinement; the path condition already has the fact)"""
        if isinstance(test, ast.UnaryOp) and isinstance(test.op, ast.Not):
            return self.refine(st, test.operand, not outcome)
        if isinstance(test, ast.BoolOp):
            if isinstance(test.op, ast.And) and outcome or isinstance(test.op, ast.Or) and not outcome:
                for v in test.values:
                    self.refine(st, v, outcome)
            return
        if isinstance(test, ast.Call) and isinstance(test.func, ast.Name) and test.func.id == 'isinstance' and outcome \
                and len(test.args) == 2 and isinstance(test.args[0], ast.Name) and not isinstance(test.args[1], ast.Tuple):
            # isinstance(x, C) holds on this path: x is (at least) a C from here on
            v, fid = st.lookup(test.args[0].id)
            if isinstance(v, VOpt) and v.inner[0] == 'ref':
                v = v.some()          # isinstance(None, C) is false: the value is present on this path
            if isinstance(v, VRef) and not getattr(v, 'exact', False):
                tmp = st.copy()
                try:
                    (s2, cv), = self.eval(tmp, test.args[1])
                except Exception:
                    return
                if isinstance(cv, VFunc) and cv.kind == 'class' and (v.cls is None or self.issub(cv.key, v.cls)):
                    nv = VRef(v.t, cv.key)
                    st.frames[fid][test.args[0].id] = nv
            return
        name, is_none = None, None
        if isinstance(test, ast.Compare) and len(test.ops) == 1 and isinstance(test.left, ast.Name) \
                and isinstance(test.comparators[0], ast.Constant) and test.comparators[0].value is None:
            if isinstance(test.ops[0], (ast.Is, ast.Eq)):
                name, is_none = test.left.id, outcome
            elif isinstance(test.ops[0], (ast.IsNot, ast.NotEq)):
                name, is_none = test.left.id, not outcome
        elif isinstance(test, ast.Name) and outcome:
            name, is_none = test.id, False
        if name is None:
            return
        v, fid = st.lookup(name)
        if isinstance(v, VOpt):
            st.frames[fid][name] = VNone() if is_none else self.wf(st, v.some())

    def s_Match(self, st, n):
        n_common = len(st.pc)
        return self.merge_states(self._s_Match(st, n), n_common)

    def _s_Match(self, st, n):
        out = []
        for s, subj in self.eval(st, n.subject):
            if s.exc is not None:
                out.append(s)
                continue
            rest = s
            for case in n.cases:
                if rest is None:
                    break
                p = case.pattern
                if case.guard is not None:
                    self.unsupported(n, 'match guard')
                if isinstance(p, ast.MatchSingleton):
                    val = {True: VBool(True), False: VBool(False), None: VNone()}[p.value]
                    cond = self.same(rest, subj, val, n)
                elif isinstance(p, ast.MatchValue):
                    (r2, val), = self.eval(rest, p.value)
                    cond = self.eq(rest, subj, val, n)
                elif isinstance(p, ast.MatchAs) and p.pattern is None:
                    cond = z3.BoolVal(True)
                    if p.name:
                        rest.setvar(p.name, subj)
                else:
                    self.unsupported(n, 'match pattern')
                st_t, st_f = self.branch(rest, cond)
                if st_t is not None:
                    out.extend(self.exec_block(st_t, case.body))
                rest = st_f
            if rest is not None:
                out.append(rest)
        return out

    # ------------------------------------------------------------ assignment
    def _field_literal_hint(self, st, n):
        """`self.x = {}` / `self.x: T = {}`: an empty dict literal takes the declared type of the field it is stored in (used when the
        contract gives no `hints` entry for it)"""
        tgts = n.targets if isinstance(n, ast.Assign) else [n.target]
        self._literal_hint = None
        if isinstance(n.value, ast.Dict) and not n.value.keys and len(tgts) == 1 and isinstance(tgts[0], ast.Attribute) \
                and isinstance(tgts[0].value, ast.Name):
            obj, _ = st.lookup(tgts[0].value.id)
            cls = getattr(obj, 'cls', None)
            ty = self.reg.field_type(cls, tgts[0].attr) if cls is not None else None
            while ty is not None and ty[0] == 'opt':
                ty = ty[1]
            if ty is not None and ty[0] == 'dict':
                self._literal_hint = ty

    def s_Assign(self, st, n):
        out = []
        self._field_literal_hint(st, n)
        for s, v in self.eval(st, n.value):
            if s.exc is not None:
                out.append(s)
                continue
            states = [s]
            for tgt in n.targets:
                nxt = []
                for s2 in states:
                    if s2.exc is not None:
                        nxt.append(s2)
                    else:
                        nxt.extend(self.assign(s2, tgt, v, n))
                states = nxt
            out.extend(states)
        return out

    def s_AnnAssign(self, st, n):
        if n.value is None:
            return [st]
        out = []
        self._field_literal_hint(st, n)
        for s, v in self.eval(st, n.value):
            if s.exc is not None:
                out.append(s)
            else:
                out.extend(self.assign(s, n.target, v, n))
        return out

    def s_AugAssign(self, st, n):
        load = ast.copy_location(ast.fix_missing_locations(_as_load(n.target)), n)
        out = []
        for s, vals in self.eval_many(st, [load, n.value]):
            if s.exc is not None:
                out.append(s)
                continue
            if isinstance(vals[0], VList) and isinstance(n.op, ast.Add):
                # list += [a, b, ...]  (extend by a list of statically known length)
                rhs = vals[1]
                items = None
                if isinstance(rhs, VTuple):
                    items = rhs.items
                elif isinstance(rhs, VList):
                    ln = z3.simplify(self.list_len(s, rhs))
                    if z3.is_int_value(ln):
                        items = [self.list_at(s, rhs, z3.IntVal(i)) for i in range(ln.as_long())]
                if items is None:
                    self.unsupported(n, 'list += with a right-hand side of unknown length')
                cur = [s]
                for it in items:
                    cur = [s2 for s1 in cur for s2, _ in self.call_external(s1, 'list.append', [vals[0], it], {}, n)]
                out.extend(cur)
                continue
            for s2, r in self.binop(s, n.op, vals[0], vals[1], n):
                if s2.exc is not None:
                    out.append(s2)
                else:
                    out.extend(self.assign(s2, n.target, r, n))
        return out

    def assign(self, st, tgt, v, node):
        if isinstance(tgt, ast.Name):
            st.setvar(tgt.id, v)
            return [st]
        if isinstance(tgt, (ast.Tuple, ast.List)):
            if any(isinstance(e, ast.Starred) for e in tgt.elts):
                self.unsupported(node, 'starred unpacking')
            k = len(tgt.elts)
            if isinstance(v, VOpt):
                out = []
                for s, inner in self.force(st, v, node):
                    if s.exc is not None:
                        out.append(s)
                    else:
                        out.extend(self.assign(s, tgt, inner, node))
                return out
            if isinstance(v, VTuple):
                if len(v.items) != k:
                    return [self.raise_exc(st, 'builtins:ValueError')]
                items = v.items
            elif isinstance(v, (VSeq, VList)):
                sq = v if isinstance(v, VSeq) else self.list_as_seq(st, v)
                ok, ex = self.guard(st, sq.len == k, 'builtins:ValueError')
                out = []
                if ex is not None:
                    out.append(ex)
                if ok is None:
                    return out
                st = ok
                items = [sq.at(z3.IntVal(i)) for i in range(k)]
                states = [st]
                for t, it in zip(tgt.elts, items):
                    states = [s2 for s in states for s2 in (self.assign(s, t, it, node) if s.exc is None else [s])]
                return out + states
            elif isinstance(v, VNone):
                return [self.raise_exc(st, 'builtins:TypeError')]
            else:
                self.unsupported(node, 'unpacking of %r' % (v,))
            states = [st]
            for t, it in zip(tgt.elts, items):
                states = [s2 for s in states for s2 in (self.assign(s, t, it, node) if s.exc is None else [s])]
            return states
        if isinstance(tgt, ast.Attribute):
            out = []
            for s, base in self.eval(st, tgt.value):
                if s.exc is not None:
                    out.append(s)
                    continue
                for s2, b in self.force(s, base, node, 'builtins:AttributeError'):
                    if s2.exc is not None:
                        out.append(s2)
                        continue
                    out.extend(self.setattr(s2, b, tgt.attr, v, node))
            return out
        if isinstance(tgt, ast.Subscript):
            out = []
            for s, vals in self.eval_many(st, [tgt.value, tgt.slice]):
                if s.exc is not None:
                    out.append(s)
                    continue
                base, idx = vals
                if isinstance(base, VOpt):
                    fs = self.force(s, base, node)
                else:
                    fs = [(s, base)]
                for s2, b in fs:
                    if s2.exc is not None:
                        out.append(s2)
                        continue
                    if isinstance(b, VRec):
                        if not (isinstance(idx, VStr) and idx.lit is not None):
                            self.unsupported(node, 'record update with a computed key')
                        if not isinstance(tgt.value, ast.Name):
                            self.unsupported(node, 'record update through an expression')
                        nf = dict(b.fields)
                        nf[idx.lit] = v
                        s2.setvar(tgt.value.id, VRec(nf))      # records are values: the variable is rebound (paths stay independent)
                        out.append(s2)
                    elif isinstance(b, VDict):
                        if isinstance(v, VOpt) and b.v[0] != 'opt' and v.inner == b.v:
                            # an optional stored into a dictionary of present values: provably present here, or the
                            # declared value type is wrong (obligation `stored value is not None`)
                            self.check(s2, z3.Not(v.is_none()), '%s/dict-value-present@%d' % (self.cur_contract.target if self.cur_contract else '?', getattr(node, 'lineno', 0)))
                            v = v.some()
                        self.dict_set(s2, b, idx, v)
                        out.append(s2)
                    elif isinstance(b, VList):
                        n_ = self.list_len(s2, b)
                        i = self.norm_index(self.as_int(idx, node), n_)
                        ok, ex = self.guard(s2, z3.And(i >= 0, i < n_), 'builtins:IndexError')
                        if ok is not None:
                            self.list_store(ok, b, n_, z3.Store(self.list_arr(ok, b), i, to_term(coerce(v, b.e))))
                            out.append(ok)
                        if ex is not None:
                            out.append(ex)
                    elif isinstance(b, VRef) and b.cls is not None and self.find_method(b.cls, '__setitem__') is not None:
                        out.extend(s3 for s3, _ in self.call_repo(s2, self.find_method(b.cls, '__setitem__'), [b, idx, v], {}, node))
                    elif isinstance(b, VRef) and self.opaque_decl(b) is not None:
                        out.extend(s3 for s3, _ in self.call_external(s2, '%s.__setitem__' % self.opaque_decl(b).short, [b, idx, v], {}, node))
                    else:
                        self.unsupported(node, 'subscript assignment on %r' % (b,))
            return out
        self.unsupported(node, 'assignment target')

    def setattr(self, st, base, attr, v, node):
        if not isinstance(base, VRef):
            self.unsupported(node, 'attribute assignment on %r' % (base,))
        cls = base.cls
        if attr in ('__cause__', '__context__', '__traceback__'):
            self.dropped.add('exception chaining attributes (__cause__ etc.)')
            return [st]
        d0 = (self.reg.classes.get(cls) or self.reg.class_by_key.get(cls)) if cls else None
        ty = d0.fields.get(attr) if d0 is not None else None
        if ty is None and cls is not None:
            for ci in self.mro_infos(cls):
                d = self.reg.class_by_key.get('%s:%s' % (ci.module.name, ci.qualname))
                if d is not None and attr in d.fields:
                    ty = d.fields[attr]
                    break
                e = ci.class_attrs.get(attr)
                if e is not None and isinstance(e, ast.Call) and isinstance(e.func, ast.Name) and e.func.id == 'property' and len(e.args) > 1:
                    return [s for s, _ in self.call_accessor(st, ci, e.args[1], [base, v], node)]
                if attr in ci.setters:
                    return [s for s, _ in self.call_repo(st, ci.setters[attr], [base, v], {}, node)]
        if ty is None:
            ty = self.reg.field_type(cls, attr) if cls else None
        if ty is None:
            ty = self.infer_field_type(cls, attr)
        if ty is None:
            self.unsupported(node, 'no declared type for field %s.%s' % (cls, attr))
        if ty[0] == 'opt' and ty[1][0] in ('list', 'dict') and isinstance(v, VBool) and z3.is_false(z3.simplify(v.t)) \
                and attr in getattr(self.reg, 'false_as_none', ()):
            v = VNone()       # `container | False` fields: None stands for False
        if ty[0] == 'seq' and isinstance(v, VList):
            # a list stored into a field declared as an immutable sequence (option views: the setter copies the items)
            v = VTuple([]) if (getattr(v, 'pending', False) or v.e is None) else self.list_as_seq(st, v)
        try:
            self.write_field(st, base, attr, ty, v)
        except Unsupported as e:
            self.unsupported(node, str(e))
        return [st]

    def s_Delete(self, st, n):
        states = [st]
        for tgt in n.targets:
            nxt = []
            for s in states:
                if s.exc is not None:
                    nxt.append(s)
                    continue
                if isinstance(tgt, ast.Subscript):
                    for s2, vals in self.eval_many(s, [tgt.value, tgt.slice]):
                        if s2.exc is not None:
                            nxt.append(s2)
                            continue
                        base, idx = vals
                        if isinstance(base, VOpt) and base.inner[0] == 'dict':
                            # optional dictionary: None is not subscriptable
                            s2, e0 = self.guard(s2, z3.Not(base.is_none()), 'builtins:TypeError')
                            if e0 is not None:
                                nxt.append(e0)
                            if s2 is None:
                                continue
                            base = base.some()
                        if not isinstance(base, VDict):
                            self.unsupported(n, 'del on %r' % (base,))
                        ok, ex = self.guard(s2, self.dict_has(s2, base, idx), 'builtins:KeyError')
                        if ok is not None:
                            self.dict_del(ok, base, idx)
                            nxt.append(ok)
                        if ex is not None:
                            nxt.append(ex)
                elif isinstance(tgt, ast.Name):
                    s.frames[s.cur].pop(tgt.id, None)
                    nxt.append(s)
                else:
                    self.unsupported(n, 'del target')
            states = nxt
        return states

    def s_FunctionDef(self, st, n):
        # defaults are evaluated at definition time
        defaults = {}
        a = n.args
        names = [x.arg for x in a.posonlyargs + a.args]
        states = [(st, defaults)]
        pairs = list(zip(names[len(names) - len(a.defaults):], a.defaults)) + \
            [(k.arg, d) for k, d in zip(a.kwonlyargs, a.kw_defaults) if d is not None]
        for name, d in pairs:
            nxt = []
            for s, dd in states:
                if s.exc is not None:
                    nxt.append((s, dd))
                    continue
                for s2, v in self.eval(s, d):
                    d2 = dict(dd)
                    d2[name] = v
                    nxt.append((s2, d2))
            states = nxt
        out = []
        for s, dd in states:
            if s.exc is None:
                s.frames[s.cur]['$captured'] = True
                s.setvar(n.name, self.register_callable(s, VFunc('closure', node=n, frame=s.cur, info=s.info(), defaults=dd, name=n.name)))
            out.append(s)
        return out

    s_AsyncFunctionDef = s_FunctionDef

    # ------------------------------------------------------------- try / with
    def s_Try(self, st, n):
        body_states = self.exec_block(st, n.body)
        after = []
        for s in body_states:
            if s.exc is not None and s.exc[0] == 'raise':
                handled = False
                rest = s
                for h in n.handlers:
                    if rest is None:
                        break
                    m = self.handler_matches(rest, h, n)
                    if m is True:
                        after.extend(self.run_handler(rest, h))
                        rest = None
                        handled = True
                    elif m is False:
                        continue
                    else:
                        # symbolic class test: fork
                        st_t, st_f = self.branch(rest, m)
                        if st_t is not None:
                            after.extend(self.run_handler(st_t, h))
                        rest = st_f
                if rest is not None:
                    after.append(rest)
            elif s.exc is None:
                after.extend(self.exec_block(s, n.orelse))
            else:
                after.append(s)
        if not n.finalbody:
            return after
        out = []
        for s in after:
            pending = s.exc
            s.exc = None
            for s2 in self.exec_block(s, n.finalbody):
                if s2.exc is None:
                    s2.exc = pending
                out.append(s2)
        return out

    def handler_matches(self, st, h, node):
        if h.type is None:
            return True
        exc_cls = st.exc[2]
        exc_val = st.exc[1]
        types_ = h.type.elts if isinstance(h.type, ast.Tuple) else [h.type]
        conds = []
        tmp = st.copy()
        tmp.exc = None
        for t in types_:
            (s, tv), = self.eval(tmp, t)
            if not (isinstance(tv, VFunc) and tv.kind == 'class'):
                self.unsupported(node, 'except clause type')
            r = self.isinstance_of(st, exc_val, tv.key)
            if r is True:
                return True
            if r is not False:
                conds.append(r)
        if not conds:
            return False
        return z3.Or(*conds)

    def isinstance_of(self, st, v, key):
        """True / False / z3 Bool"""
        key = self.class_key(key)
        cls = self.class_key(v.cls) if v.cls else None
        if cls is not None and self.issub(cls, key):
            return True
        if getattr(v, 'exact', False):
            return False
        if cls is not None and not self.issub(key, cls):
            # unrelated classes (no multiple inheritance considered)
            return False
        f = self.isinst_funcs.get(key)
        if f is None:
            f = z3.Function('isinst:' + key, I, Bo)
            self.isinst_funcs[key] = f
        # consistency with other mentioned classes
        for k2, f2 in self.isinst_funcs.items():
            if k2 == key:
                continue
            if self.issub(key, k2):
                st.assume(z3.Implies(f(v.t), f2(v.t)))
            elif self.issub(k2, key):
                st.assume(z3.Implies(f2(v.t), f(v.t)))
        return f(v.t)

    def run_handler(self, st, h):
        exc = st.exc
        st.exc = None
        if h.name:
            st.setvar(h.name, exc[1])
        prev = st.frames[st.cur].get('$handling')
        st.frames[st.cur]['$handling'] = exc
        out = self.exec_block(st, h.body)
        for s in out:
            if st.cur in s.frames:
                s.frames[s.cur]['$handling'] = prev
        return out

    def s_With(self, st, n):
        """`with X as name:` -- the context managers met in the code under contract (files, temporary files) are
        environment objects: __enter__ returns the object itself, __exit__ does not swallow exceptions (A-WITH);
        leaving the block is recorded as ('exit_context', object)"""
        self.reg.assume('A-WITH: context managers are environment objects whose __enter__ returns the object and whose __exit__ lets exceptions pass')
        states = [st]
        bound = []
        for item in n.items:
            nxt = []
            for s in states:
                if s.exc is not None:
                    nxt.append(s)
                    continue
                for s2, v in self.eval(s, item.context_expr):
                    if s2.exc is None and item.optional_vars is not None:
                        nxt.extend(self.assign(s2, item.optional_vars, v, n))
                    else:
                        nxt.append(s2)
            states = nxt
        out = []
        for s in states:
            if s.exc is not None:
                out.append(s)
                continue
            for s2 in self.exec_block(s, n.body):
                s2.log.append(('exit_context',))
                out.append(s2)
        return out

    # ------------------------------------------------------------------ loops
    def loop_spec(self, kind, node):
        c = self.cur_contract
        info = self.cur_info
        # loops are numbered in source order within the function under verification (only at depth 0)
        return c

    def loop_ordinal(self, st, node):
        if st.depth != 0:
            return None
        loops = [m for m in ast.walk(self.cur_info.node) if isinstance(m, (ast.While, ast.For, ast.AsyncFor))]
        loops.sort(key=lambda m: (m.lineno, m.col_offset))
        for i, m in enumerate(loops):
            if m is node:
                return i
        return None

    def s_While(self, st, n):
        if n.orelse:
            self.unsupported(n, 'while/else')
        ordinal = self.loop_ordinal(st, n)
        invs = []
        if ordinal is not None and self.cur_contract is not None:
            invs = self.cur_contract.invariants.get(ordinal, [])
        if ordinal is None and not invs:
            self.unsupported(n, 'loop inside an inlined callee (needs its own contract)')
        return self.run_loop(st, n, ordinal, invs,
                             guard=lambda s: [(s2, (self.truth(s2, c) if s2.exc is None else None)) for s2, c in self.eval(s, n.test)],
                             pre_body=lambda s: [s])

    def havoc_local(self, st, name, val):
        if isinstance(val, (VFunc, VModule)):
            return val
        if isinstance(val, VRaw):
            return VRaw(z3.Const(fresh_name('raw_' + name), val.t.sort()))
        if isinstance(val, VTuple) and any(isinstance(i, (VFunc, VModule)) for i in val.items):
            return val
        ty = val.ty
        hint = None
        if self.cur_contract is not None:
            lt = getattr(self.cur_contract, 'local_types', {})
            hint = lt.get(name)
            if hint is None:
                from .state import ALIASES
                hint = next((lt[o] for o, n_ in ALIASES.items() if n_ == name and o in lt), None)
        if hint is not None:
            ty = hint
        if isinstance(val, VNone) and hint is None:
            raise Unsupported('loop-modified local %s is None at loop entry; declare its type in local_types' % name)
        return self.fresh_val(st, ty, 'lv_' + name)

    def run_loop(self, st, n, ordinal, invs, guard, pre_body, extra_mod=()):
        """Cut the loop with its invariants.  Returns the states after the loop."""
        cname = self.cur_contract.target if self.cur_contract else '?'
        info = self.cur_info
        tag = '%s/loop%s' % (cname, ordinal)
        # 1. invariants hold on entry
        for i, inv in enumerate(invs):
            g = self.eval_clause(st, inv, self.visible_env(st), info, old_st=self.entry_state)
            self.check(st, g, '%s/inv[%d]/entry' % (tag, i), note=str(inv))
        if ordinal is not None and self.cur_contract is not None:
            for i, cl in enumerate(getattr(self.cur_contract, 'loop_entry', {}).get(ordinal, [])):
                g = self.eval_clause(st, cl, self.visible_env(st), info, old_st=self.entry_state)
                self.check(st, g, '%s/entry[%d]' % (tag, i), note=str(cl))
        # 2. find what the body modifies (discovery pass on a throw-away state)
        mod_names = assigned_names(n.body) | (assigned_names([n.target]) if hasattr(n, 'target') else set())
        mod_names = {m for m in mod_names if st.lookup(m)[0] is not None} | set(extra_mod)
        written = self.discover_writes(st, n, mod_names, guard, pre_body, invs, ordinal)
        # 3. havoc
        h = st
        first_iter = []      # (havocked value, value at loop entry): used to steer replay models to iteration 0
        for name in sorted(mod_names):
            v, fid = h.lookup(name)
            nv = self.havoc_local(h, name, v)
            h.frames[fid][name] = nv
            first_iter.append((name, nv, v))
        h.ghost.setdefault('$first_iter', [])
        h.ghost['$first_iter'] = h.ghost['$first_iter'] + first_iter
        # the function's `modifies` clause is an implicit loop invariant: assumed for the havocked maps here,
        # re-established at the end of every iteration (obligation loop-frame)
        fsets = None
        if st.depth == 0 and self.cur_contract is not None and (self.cur_contract.modifies or self.cur_contract.use_at_calls) \
                and self.entry_state is not None and not self.collect_only:
            try:
                fsets = self.frame_sets(self.cur_contract, self.entry_state, self.entry_env)
            except Unsupported:
                fsets = None
        loop_frames = []
        for key in sorted(written, key=str):
            if key in h.heap:
                h.heap[key] = z3.Const(fresh_name('Hl:' + ':'.join(map(str, key))), h.heap[key].sort())
                if fsets is not None:
                    was = self.entry_state.heap.get(key)
                    if was is None:
                        was = z3.Const('H0:' + ':'.join(str(k) for k in key), h.heap[key].sort())
                    fg = self.frame_goal(fsets, key, h.heap[key], was, self.entry_state.alloc)
                    if fg is not None:
                        h.assume(fg)
                        loop_frames.append((key, was))
        if written:
            a = z3.Int(fresh_name('alloc'))
            h.assume(a >= h.alloc)
            h.alloc = a
        for i, inv in enumerate(invs):
            h.assume(self.eval_clause(h, inv, self.visible_env(h), info, old_st=self.entry_state))
        snap = h.copy()
        snap.ghost.pop('$head', None)
        h.ghost['$head'] = snap
        if ordinal is not None:
            h.ghost['$head%d' % ordinal] = snap
        steps = []
        if ordinal is not None and self.cur_contract is not None:
            steps = getattr(self.cur_contract, 'loop_steps', {}).get(ordinal, [])
        # 4. one arbitrary iteration
        exits = []
        for s, c in guard(h.copy()):
            if s.exc is not None:
                exits.append(s)
                continue
            st_t, st_f = self.branch(s, c)
            if st_f is not None:
                exits.append(st_f)
            if st_t is None:
                continue
            for s1 in pre_body(st_t):
                if s1.exc is not None:
                    exits.append(s1)
                    continue
                for s2 in self.exec_block(s1, n.body):
                    if s2.exc is None or s2.exc[0] == 'continue':
                        s2.exc = None
                        for i, inv in enumerate(invs):
                            g = self.eval_clause(s2, inv, self.visible_env(s2), info, old_st=self.entry_state)
                            self.check(s2, g, '%s/inv[%d]/preserved' % (tag, i), note=str(inv))
                        for key, was in loop_frames:
                            fg = self.frame_goal(fsets, key, s2.heap[key], was, self.entry_state.alloc)
                            label, note = self.frame_label(cname, key)
                            self.check(s2, fg, label.replace('/frame[', '/loop%s/frame[' % ordinal), note=note)
                        for i, stp in enumerate(steps):
                            if callable(stp):
                                for nm, g in stp(self, s2, snap):
                                    self.check(s2, g, '%s/step[%s]' % (tag, nm))
                            else:
                                g = self.eval_clause(s2, stp, self.visible_env(s2), info, old_st=self.entry_state)
                                self.check(s2, g, '%s/step[%d]' % (tag, i), note=str(stp))
                    elif s2.exc[0] == 'break':
                        s2.exc = None
                        exits.append(s2)
                    else:
                        exits.append(s2)
        return exits

    def discover_writes(self, st, n, mod_names, guard, pre_body, invs=(), ordinal=None):
        save = (self.collect_only, self.written, self.obligations)
        self.collect_only, self.written, self.obligations = True, set(), []
        try:
            d = st.copy()
            for name in sorted(mod_names):
                v, fid = d.lookup(name)
                try:
                    d.frames[fid][name] = self.havoc_local(d, name, v)
                except Unsupported:
                    raise
            snap = d.copy()
            d.ghost['$head'] = snap
            if ordinal is not None:
                d.ghost['$head%d' % ordinal] = snap
            for inv in invs:
                try:
                    d.assume(self.eval_clause(d, inv, self.visible_env(d), self.cur_info, old_st=self.entry_state))
                except Exception:
                    pass
            for s, c in guard(d):
                if s.exc is not None:
                    continue
                st_t, _ = self.branch(s, c)
                if st_t is None:
                    continue
                for s1 in pre_body(st_t):
                    if s1.exc is None:
                        self.exec_block(s1, n.body)
            return set(self.written)
        finally:
            self.collect_only, self.written, self.obligations = save

    def visible_env(self, st):
        env = {}
        fid = st.cur
        chain = []
        while fid is not None:
            chain.append(fid)
            fid = st.frames[fid]['$parent']
        for fid in reversed(chain):
            for k, v in st.frames[fid].items():
                if not k.startswith('$'):
                    env[k] = v
        from .state import ALIASES
        for old, new in ALIASES.items():
            if new in env and old not in env:
                env[old] = env[new]        # contracts know a renamed local under its old name
        return env

    def s_For(self, st, n):
        if n.orelse:
            self.unsupported(n, 'for/else')
        out = []
        for s, it in self.eval(st, n.iter):
            if s.exc is not None:
                out.append(s)
                continue
            if isinstance(it, VOpt):
                # iterating an Optional: None is not iterable
                isnone, some = self.branch(s, it.is_none())
                if isnone is not None:
                    out.append(self.raise_exc(isnone, 'builtins:TypeError'))
                if some is None:
                    continue
                s, it = some, it.some()
            out.extend(self.for_over(s, n, it))
        return out

    def for_over(self, st, n, it):
        ordinal = self.loop_ordinal(st, n)
        invs = []
        if ordinal is not None and self.cur_contract is not None:
            invs = self.cur_contract.invariants.get(ordinal, [])
        if isinstance(it, VTuple) and not invs:
            # fixed length: unroll
            states = [st]
            for item in it.items:
                nxt = []
                for s in states:
                    if s.exc is not None:
                        nxt.append(s)
                        continue
                    for s1 in self.assign(s, n.target, item, n):
                        if s1.exc is not None:
                            nxt.append(s1)
                            continue
                        for s2 in self.exec_block(s1, n.body):
                            if s2.exc is not None and s2.exc[0] == 'continue':
                                s2.exc = None
                            nxt.append(s2)
                states = nxt
            out = []
            for s in states:
                if s.exc is not None and s.exc[0] == 'break':
                    s.exc = None
                out.append(s)
            # states that broke must not run later iterations: handled by exc check above
            return out
        if isinstance(it, VList):
            it = self.list_as_seq(st, it)
        if isinstance(it, VDict):
            it = VFunc('dictiter', dict=it, mode='keys')        # iterating a dict / set visits its keys
        if isinstance(it, VFunc) and it.kind == 'dictiter':
            return self.for_over_dict(st, n, it, ordinal, invs)
        if isinstance(it, VFunc) and it.kind == 'range':
            # for x in range(lo, hi): an index running from lo while it is below hi (step 1)
            if ordinal is None:
                self.unsupported(n, 'loop inside an inlined callee (needs its own contract)')
            idx_name = '$i%d' % ordinal
            st.frames[st.cur][idx_name] = VInt(it.lo)
            lo, hi = it.lo, it.hi

            def rguard(s):
                i, _ = s.lookup(idx_name)
                return [(s, i.t < hi)]

            def rpre_body(s):
                i, fid = s.lookup(idx_name)
                s.frames[fid][idx_name] = VInt(i.t + 1)
                return self.assign(s, n.target, VInt(i.t), n)
            rinv0 = lambda ctx: z3.And(ctx.st.lookup(idx_name)[0].t >= lo, z3.Or(ctx.st.lookup(idx_name)[0].t <= hi, hi < lo))
            return self.run_loop_indexed(st, n, ordinal, [rinv0] + list(invs), rguard, rpre_body, idx_name)
        if isinstance(it, (VSeq, VBytes)):
            if ordinal is None:
                self.unsupported(n, 'loop inside an inlined callee (needs its own contract)')
            idx_name = '$i%d' % ordinal
            st.frames[st.cur][idx_name] = VInt(0)
            seq = it

            def guard(s):
                i, _ = s.lookup(idx_name)
                return [(s, i.t < seq.len)]

            def pre_body(s):
                i, fid = s.lookup(idx_name)
                if isinstance(seq, VBytes):
                    t = seq.at(i.t)
                    self.byte_fact(s, t)
                    item = VInt(t)
                else:
                    item = self.wf(s, seq.at(i.t))
                s.frames[fid][idx_name] = VInt(i.t + 1)
                return self.assign(s, n.target, item, n)
            # the implicit index invariant
            inv0 = lambda ctx: z3.And(ctx.st.lookup(idx_name)[0].t >= 0, ctx.st.lookup(idx_name)[0].t <= seq.len)
            # make the index visible to invariants as `_i`
            def wrap(inv):
                return inv
            return self.run_loop_indexed(st, n, ordinal, [inv0] + list(invs), guard, pre_body, idx_name)
        self.unsupported(n, 'for loop over %r' % (it,))

    def run_loop_indexed(self, st, n, ordinal, invs, guard, pre_body, idx_name):
        # expose the hidden index under the name `_i` while invariants are evaluated
        orig_visible = self.visible_env

        def visible(s):
            env = orig_visible(s)
            v, _ = s.lookup(idx_name)
            if v is not None:
                env['_i'] = v
            return env
        self.visible_env = visible
        try:
            # the index is loop-modified although it is not assigned syntactically
            return self._run_loop_with_extra(st, n, ordinal, invs, guard, pre_body, {idx_name})
        finally:
            self.visible_env = orig_visible

    def _run_loop_with_extra(self, st, n, ordinal, invs, guard, pre_body, extra):
        return self.run_loop(st, n, ordinal, invs, guard, pre_body, extra_mod=extra)

    def for_over_dict(self, st, n, it, ordinal, invs):
        """for k[, v] in d.items()/keys()/values(): an arbitrary, not yet visited key.
        Iteration order is not modelled; the visited set is the ghost `_done` (array key->bool)."""
        if ordinal is None:
            self.unsupported(n, 'dict loop inside an inlined callee')
        d = it.dict
        done_name = '$done%d' % ordinal
        dom0 = self.dict_dom(st, d)
        vals0 = self.dict_vals(st, d)
        ksort = sort_of(d.k)
        st.frames[st.cur][done_name] = VRaw(z3.K(ksort, False))

        def guard(s):
            done = s.lookup(done_name)[0].t
            k = z3.Const(fresh_name('k'), ksort)
            s.frames[s.cur]['$key%d' % ordinal] = VRaw(k)
            has = z3.And(z3.Select(dom0, k), z3.Not(z3.Select(done, k)))
            # guard is true iff some unvisited key exists; we pick k as its witness
            some = z3.Const(fresh_name('some'), Bo)
            s.assume(z3.Implies(some, has))
            kk = z3.Const(fresh_name('kq'), ksort)
            s.assume(z3.Implies(z3.Not(some), z3.ForAll([kk], z3.Implies(z3.Select(dom0, kk), z3.Select(done, kk)))))
            return [(s, some)]

        def pre_body(s):
            k = s.frames[s.cur]['$key%d' % ordinal].t
            done, fid = s.lookup(done_name)
            nv = VRaw(z3.Store(done.t, k, True))
            s.frames[fid][done_name] = nv
            key = self.wf(s, from_term(d.k, k))
            val = self.wf(s, from_term(d.v, z3.Select(vals0, k)))
            item = {'items': VTuple([key, val]), 'keys': key, 'values': val}[it.mode]
            return self.assign(s, n.target, item, n)

        orig_visible = self.visible_env

        def visible(s):
            env = orig_visible(s)
            v, _ = s.lookup(done_name)
            if v is not None:
                env['_done'] = v
            return env
        self.visible_env = visible
        try:
            return self._run_loop_with_extra(st, n, ordinal, invs, guard, pre_body, {done_name})
        finally:
            self.visible_env = orig_visible
