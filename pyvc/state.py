"""Symbolic state of one path."""
import z3
from .values import *  # noqa


# old name -> current name of locals of the function under verification (filled by the engine from the baseline)
ALIASES = {}


class State:
    __slots__ = ('pc', 'frames', 'cur', 'heap', 'alloc', 'exc', 'ghost', 'log', 'nframes', 'depth', 'facts_seen', 'fact_ids')

    def __init__(self):
        self.pc = []
        self.frames = {}
        self.cur = None
        self.heap = {}
        self.alloc = z3.Int('alloc0')
        self.exc = None
        self.ghost = {}
        self.log = []        # ghost event log: list of (kind, payload) in program order on this path
        self.nframes = 0
        self.depth = 0
        self.facts_seen = set()
        self.fact_ids = set()

    def copy(self):
        s = State.__new__(State)
        s.pc = list(self.pc)
        s.frames = {k: dict(v) for k, v in self.frames.items()}
        s.cur = self.cur
        s.heap = dict(self.heap)
        s.alloc = self.alloc
        s.exc = self.exc
        s.ghost = dict(self.ghost)
        s.log = list(self.log)
        s.nframes = self.nframes
        s.depth = self.depth
        s.facts_seen = set(self.facts_seen)
        s.fact_ids = set(self.fact_ids)
        return s

    def assume(self, *conds):
        for c in conds:
            if z3.is_true(c):
                continue
            self.pc.append(c)

    def fact(self, *conds):
        """a universally valid statement about the terms it mentions (value ranges, definitional
        unfoldings); unlike a branch condition it may be exported to other states"""
        for c in conds:
            if z3.is_true(c):
                continue
            self.pc.append(c)
            self.fact_ids.add(c.get_id())

    def new_frame(self, parent=None, info=None):
        self.nframes += 1
        fid = self.nframes
        self.frames[fid] = {'$parent': parent, '$info': info}
        return fid

    def lookup(self, name, fid=None, _aliased=False):
        start = fid
        fid = self.cur if fid is None else fid
        while fid is not None:
            fr = self.frames[fid]
            if name in fr:
                return fr[name], fid
            fid = fr['$parent']
        if not _aliased and name in ALIASES:
            # a local variable the contracts know under its name on the pinned tree, renamed since (see driver: baseline locals)
            return self.lookup(ALIASES[name], start, True)
        return None, None

    def setvar(self, name, val):
        fr = self.frames[self.cur]
        nl = fr.get('$nonlocal')
        if nl and name in nl:
            fid = fr['$parent']
            while fid is not None:
                if name in self.frames[fid]:
                    self.frames[fid][name] = val
                    return
                fid = self.frames[fid]['$parent']
        fr[name] = val

    def info(self):
        fid = self.cur
        while fid is not None:
            fr = self.frames[fid]
            if fr.get('$info') is not None:
                return fr['$info']
            fid = fr['$parent']
        return None
