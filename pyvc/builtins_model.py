"""Assumed contracts of CPython builtins / stdlib calls (trusted base T-EXT).
Each handler: (ex, st, args, kwargs, node) -> [(state, value)]."""
import ast
import z3

from .values import *  # noqa


def be_value(ex, st, b):
    """big-endian value of a byte string of symbolic length: uninterpreted function with its
    defining facts for lengths 0..8 instantiated at b"""
    n = z3.simplify(b.len)
    if z3.is_int_value(n):
        e = z3.IntVal(0)
        for k in range(n.as_long()):
            t = z3.simplify(b.at(z3.IntVal(k)))
            ex.byte_fact(st, t)
            e = e * 256 + t
        return VInt(z3.simplify(e))
    f = z3.Function('be_value', BytesS, I)
    r = f(b.t)
    key = ('be', r.get_id())
    if key not in st.facts_seen:
        st.facts_seen.add(key)
        st.fact(r >= 0)
        st.fact(z3.Implies(b.len == 0, r == 0))
        for k in range(1, 9):
            e = z3.IntVal(0)
            for j in range(k):
                t = b.at(z3.IntVal(j))
                e = e * 256 + t
            st.fact(z3.Implies(b.len == k, z3.And(r == e, *[z3.And(b.at(z3.IntVal(j)) >= 0, b.at(z3.IntVal(j)) <= 255) for j in range(k)])))
    return VInt(r)


def install(reg):
    ext = reg.external
    reg.specfuncs['be_value'] = lambda ex, st, b: be_value(ex, st, b)
    reg.specfuncs['valid_utf8'] = lambda ex, st, b: VBool(z3.Function('valid_utf8', BytesS, Bo)(b.t))
    reg.specfuncs['utf8_decode'] = lambda ex, st, b: VStr(z3.Function('utf8_decode', BytesS, StrS)(b.t))
    reg.specfuncs['utf8_encode'] = lambda ex, st, s: VBytes.from_term(z3.Function('utf8_encode', StrS, BytesS)(s.t))

    @ext('builtins.len')
    def _len(ex, st, args, kw, node):
        v = args[0]
        if isinstance(v, VOpt):
            out = []
            for s, x in ex.force(st, v, node):
                out.extend(_len(ex, s, [x], kw, node) if s.exc is None else [(s, None)])
            return out
        if isinstance(v, (VBytes, VSeq)):
            return [(st, VInt(v.len))]
        if isinstance(v, VTuple):
            return [(st, VInt(len(v.items)))]
        if isinstance(v, VList):
            return [(st, VInt(ex.list_len(st, v)))]
        if isinstance(v, VDict):
            return [(st, VInt(ex.dict_card(st, v)))]
        if isinstance(v, VStr):
            if v.lit is not None:
                return [(st, VInt(len(v.lit)))]
            f = z3.Function('str_len', StrS, I)
            st.fact(f(v.t) >= 0, (f(v.t) == 0) == (v.t == str_lit('').t))       # only the empty string has length 0
            return [(st, VInt(f(v.t)))]
        if isinstance(v, VNone):
            return [(ex.raise_exc(st, 'builtins:TypeError'), None)]
        ex.unsupported(node, 'len of %r' % (v,))

    @ext('builtins.min')
    def _min(ex, st, args, kw, node):
        if len(args) != 2:
            ex.unsupported(node, 'min with !=2 args')
        (x, xr), (y, yr) = ex.num(args[0]), ex.num(args[1])
        if xr or yr:
            x = x if xr else z3.ToReal(x)
            y = y if yr else z3.ToReal(y)
            return [(st, VReal(z3.If(x <= y, x, y)))]
        return [(st, VInt(z3.If(x <= y, x, y)))]

    @ext('builtins.max')
    def _max(ex, st, args, kw, node):
        if len(args) != 2:
            ex.unsupported(node, 'max with !=2 args')
        (x, xr), (y, yr) = ex.num(args[0]), ex.num(args[1])
        if xr or yr:
            x = x if xr else z3.ToReal(x)
            y = y if yr else z3.ToReal(y)
            return [(st, VReal(z3.If(x >= y, x, y)))]
        return [(st, VInt(z3.If(x >= y, x, y)))]

    @ext('builtins.int')
    def _int(ex, st, args, kw, node):
        v = args[0]
        if isinstance(v, (VInt, VBool)):
            return [(st, VInt(ex.as_int(v)))]
        if isinstance(v, VOpt):
            out = []
            for s2, inner in ex.force(st, v, node, 'builtins:TypeError'):        # int(None) is a TypeError
                out.extend([(s2, None)] if s2.exc is not None else _int(ex, s2, [inner] + list(args[1:]), kw, node))
            return out
        if isinstance(v, VNone):
            return [(ex.raise_exc(st, 'builtins:TypeError'), None)]
        if isinstance(v, VStr) and len(args) == 1:
            # int(text): which texts are numeric is not modelled -- the number is an uninterpreted function of the text,
            # and ValueError is possible for every text
            s2 = st.copy()
            ex.raise_exc(s2, 'builtins:ValueError')
            return [(st, VInt(z3.Function('int_of_str', StrS, I)(v.t))), (s2, None)]
        ex.unsupported(node, 'int() of %r' % (v,))

    @ext('builtins.bool')
    def _bool(ex, st, args, kw, node):
        return [(st, VBool(ex.truth(st, args[0])))]

    @ext('builtins.isinstance')
    def _isinstance(ex, st, args, kw, node):
        v, c = args
        classes = c.items if isinstance(c, VTuple) else [c]
        res = []
        for k in classes:
            if not (isinstance(k, VFunc) and k.kind == 'class'):
                ex.unsupported(node, 'isinstance with non-class')
            res.append(isinstance_val(ex, st, v, k, node))
        if any(r is True for r in res):
            return [(st, VBool(True))]
        sym = [r for r in res if r is not False]
        if not sym:
            return [(st, VBool(False))]
        return [(st, VBool(z3.Or(*sym)))]

    def isinstance_val(ex, st, v, k, node):
        pc = k.pyobj
        if isinstance(v, VOpt):
            inner = isinstance_val(ex, st, v.some(), k, node)
            if inner is False:
                return False
            return z3.And(z3.Not(v.is_none()), inner if inner is not True else True)
        if isinstance(v, VRef):
            return ex.isinstance_of(st, v, k.key)
        table = {VBytes: (bytes,), VStr: (str,), VBool: (bool, int), VTuple: (tuple,), VSeq: (tuple,), VList: (list,),
                 VDict: (dict,), VReal: (float,), VNone: (type(None),)}
        if isinstance(v, VTuple) and len(v.ty) > 2:
            return ex.issub(v.ty[2], k.key) or pc is tuple
        if isinstance(v, VEnum):
            c = ex.pyclass(v.cls)
            if pc is not None and c is not None:
                return issubclass(c, pc)
        if isinstance(v, VInt):
            return pc is int
        for ty, pys in table.items():
            if type(v) is ty:
                return pc in pys or pc is object
        if isinstance(v, VFunc):
            return False
        ex.unsupported(node, 'isinstance of %r' % (v,))

    @ext('builtins.bytes')
    def _bytes(ex, st, args, kw, node):
        if not args:
            return [(st, VBytes.const(b''))]
        v = args[0]
        if isinstance(v, VBytes):
            return [(st, v)]
        if isinstance(v, (VInt, VEnum)) and not isinstance(v, VBool):
            # bytes(n): n zero bytes; ValueError for a negative count
            n = ex.as_int(v, node)
            ok, e2 = ex.guard(st, n >= 0, 'builtins:ValueError')
            out = [(e2, None)] if e2 is not None else []
            if ok is not None:
                out.append((ok, VBytes(z3.simplify(n), lambda i: z3.IntVal(0))))
            return out
        if isinstance(v, VList):
            v = ex.list_as_seq(st, v)
            if v.e != INT and not (z3.is_int_value(z3.simplify(v.len)) and (v.e[0] == 'enum' or (v.e[0] == 'opt' and v.e[1][0] in ('int', 'enum')))):
                ex.unsupported(node, 'bytes() of non-int list')
            if z3.is_int_value(z3.simplify(v.len)):
                n = z3.simplify(v.len).as_long()
                v = VTuple([v.at(z3.IntVal(i)) for i in range(n)])
        if isinstance(v, VTuple):
            # re-run to collect the exceptional states properly
            return _bytes_collect(ex, st, v, node)
        ex.unsupported(node, 'bytes() of %r' % (v,))

    def _bytes_collect(ex, st, v, node):
        out = []
        cur = st
        elems = []
        for it in v.items:
            if isinstance(it, VOpt):
                nxt = None
                for s2, inner in ex.force(cur, it, node):
                    if s2.exc is not None:
                        out.append((s2, None))
                    else:
                        nxt, it = s2, inner
                if nxt is None:
                    return out
                cur = nxt
            t = ex.as_int(it, node)
            ok, e2 = ex.guard(cur, z3.And(t >= 0, t <= 255), 'builtins:ValueError')
            if e2 is not None:
                out.append((e2, None))
            if ok is None:
                return out
            cur = ok
            elems.append(t)

        def at(i, elems=elems):
            e = z3.IntVal(0)
            for k in range(len(elems) - 1, -1, -1):
                e = z3.If(i == k, elems[k], e)
            return e
        out.append((cur, VBytes(z3.IntVal(len(elems)), at)))
        return out

    @ext('int.to_bytes')
    def _to_bytes(ex, st, args, kw, node):
        v, length = args[0], args[1]
        order = args[2] if len(args) > 2 else kw.get('byteorder')
        if not (isinstance(order, VStr) and order.lit == 'big'):
            ex.unsupported(node, 'to_bytes byteorder')
        x = ex.as_int(v, node)
        n = z3.simplify(ex.as_int(length, node))
        out = []
        ok, e2 = ex.guard(st, n >= 0, 'builtins:ValueError')
        if e2 is not None:
            out.append((e2, None))
        if ok is None:
            return out
        # OverflowError for negative values or values that do not fit
        if z3.is_int_value(n):
            fits = z3.And(x >= 0, x < 256 ** n.as_long())
        else:
            p = ex.pow2(ok, 8 * n)
            fits = z3.And(x >= 0, x < p)
        ok2, e3 = ex.guard(ok, fits, 'builtins:OverflowError')
        if e3 is not None:
            out.append((e3, None))
        if ok2 is None:
            return out
        if not z3.is_int_value(n):
            # case split over small lengths (each case then has a concrete length)
            rest = ok2
            for k in range(0, 9):
                if rest is None:
                    break
                st_k, rest = ex.branch(rest, n == k)
                if st_k is not None:
                    def at_k(i, x=x, k=k):
                        e = z3.IntVal(0)
                        for j in range(k - 1, -1, -1):
                            e = z3.If(i == j, (x / (256 ** (k - 1 - j))) % 256, e)
                        return e
                    out.append((st_k, VBytes(z3.IntVal(k), at_k)))
            if rest is None:
                return out
            ok2 = rest
        if z3.is_int_value(n):
            nn = n.as_long()
            # digits as fresh byte variables with the (unique) positional decomposition: linear for the solver
            ds = [z3.Int(fresh_name('digit')) for _ in range(nn)]
            tot = z3.IntVal(0)
            for d in ds:
                tot = tot * 256 + d
            ok2.fact(x == tot, *[z3.And(d >= 0, d <= 255) for d in ds])

            def at(i, ds=ds):
                e = z3.IntVal(0)
                for k in range(len(ds) - 1, -1, -1):
                    e = z3.If(i == k, ds[k], e)
                return e
            out.append((ok2, VBytes(z3.IntVal(nn), at)))
        else:
            # symbolic length: byte i is (x >> 8*(n-1-i)) & 0xff
            def at(i, x=x, n=n, s=ok2):
                return (x / ex.pow2(s, 8 * (n - 1 - i))) % 256
            out.append((ok2, VBytes(n, at)))
        return out

    @ext('int.from_bytes')
    def _from_bytes(ex, st, args, kw, node):
        b = args[0]
        order = args[1] if len(args) > 1 else kw.get('byteorder')
        if not (isinstance(order, VStr) and order.lit == 'big'):
            ex.unsupported(node, 'from_bytes byteorder')
        if not isinstance(b, VBytes):
            ex.unsupported(node, 'from_bytes of %r' % (b,))
        n = z3.simplify(b.len)
        if z3.is_int_value(n):
            nn = n.as_long()
            e = z3.IntVal(0)
            for k in range(nn):
                t = z3.simplify(b.at(z3.IntVal(k)))
                ex.byte_fact(st, t)
                e = e * 256 + t
            return [(st, VInt(z3.simplify(e)))]
        return [(st, be_value(ex, st, b))]

    @ext('int.bit_length')
    def _bit_length(ex, st, args, kw, node):
        x = ex.as_int(args[0], node)
        f = z3.Function('bit_length', I, I)
        r = f(x)
        # 2^(r-1) <= |x| < 2^r ; 0 for 0   (stated for x >= 0, the only use)
        st.fact(r >= 0, z3.Implies(x == 0, r == 0))
        p = ex.pow2(st, r)
        st.fact(z3.Implies(x > 0, z3.And(r >= 1, x < p, 2 * x >= p)))
        return [(st, VInt(r))]

    @ext('struct.unpack')
    def _unpack(ex, st, args, kw, node):
        fmt, data = args
        if not (isinstance(fmt, VStr) and fmt.lit is not None and fmt.lit[0] in '!>'):
            ex.unsupported(node, 'struct format')
        sizes = {'B': 1, 'H': 2, 'I': 4, 'Q': 8}
        total = sum(sizes[c] for c in fmt.lit[1:])
        ok, e2 = ex.guard(st, data.len == total, 'struct:error')
        out = []
        if e2 is not None:
            out.append((e2, None))
        if ok is None:
            return out
        items = []
        off = 0
        for c in fmt.lit[1:]:
            e = z3.IntVal(0)
            for j in range(sizes[c]):
                t = z3.simplify(data.at(z3.IntVal(off + j)))
                ex.byte_fact(ok, t)
                e = e * 256 + t
            items.append(VInt(z3.simplify(e)))
            off += sizes[c]
        out.append((ok, VTuple(items)))
        return out

    @ext('struct.pack')
    def _pack(ex, st, args, kw, node):
        fmt = args[0]
        if not (isinstance(fmt, VStr) and fmt.lit is not None and fmt.lit[0] in '!>'):
            ex.unsupported(node, 'struct format')
        sizes = {'B': 1, 'H': 2, 'I': 4, 'Q': 8}
        cur = st
        out = []
        elems = []
        for c, v in zip(fmt.lit[1:], args[1:]):
            out2 = []
            for s, v2 in ex.force(cur, v, node, 'struct:error'):
                out2.append((s, v2))
            cur = None
            for s, v2 in out2:
                if s.exc is not None:
                    out.append((s, None))
                else:
                    cur, v = s, v2
            if cur is None:
                return out
            x = ex.as_int(v, node)
            n = sizes[c]
            ok, e2 = ex.guard(cur, z3.And(x >= 0, x < 256 ** n), 'struct:error')
            if e2 is not None:
                out.append((e2, None))
            if ok is None:
                return out
            cur = ok
            for k in range(n):
                elems.append(z3.simplify((x / (256 ** (n - 1 - k))) % 256))

        def at(i, elems=elems):
            e = z3.IntVal(0)
            for k in range(len(elems) - 1, -1, -1):
                e = z3.If(i == k, elems[k], e)
            return e
        out.append((cur, VBytes(z3.IntVal(len(elems)), at)))
        return out

    @ext('bytes.join')
    def _join(ex, st, args, kw, node):
        sep, lst = args
        if not (z3.is_int_value(z3.simplify(sep.len)) and z3.simplify(sep.len).as_long() == 0):
            ex.unsupported(node, 'join with non-empty separator')
        if isinstance(lst, VList) and lst.e == BYTES:
            return [(st, ex.list_joined(st, lst))]
        if isinstance(lst, VTuple):
            r = VBytes.const(b'')
            for it in lst.items:
                r = ex.bytes_concat(r, it)
            return [(st, r)]
        ex.unsupported(node, 'join of %r' % (lst,))

    @ext('bytes.hex')
    def _hex(ex, st, args, kw, node):
        return [(st, VStr(fresh(STR, 'hex')))]

    @ext('bytes.decode')
    def _decode(ex, st, args, kw, node):
        """bytes.decode('utf-8'): raises UnicodeDecodeError exactly on invalid UTF-8 (uninterpreted predicate)."""
        b = args[0]
        valid = z3.Function('valid_utf8', BytesS, Bo)
        dec = z3.Function('utf8_decode', BytesS, StrS)
        ok, e2 = ex.guard(st, valid(b.t), 'builtins:UnicodeDecodeError')
        out = []
        if ok is not None:
            out.append((ok, VStr(dec(b.t))))
        if e2 is not None:
            out.append((e2, None))
        return out

    @ext('str.encode')
    def _encode(ex, st, args, kw, node):
        s = args[0]
        enc = z3.Function('utf8_encode', StrS, BytesS)
        valid = z3.Function('valid_utf8', BytesS, Bo)
        dec = z3.Function('utf8_decode', BytesS, StrS)
        r = VBytes.from_term(enc(s.t))
        st.fact(r.len >= 0, valid(r.t), dec(r.t) == s.t)
        if s.lit is not None:
            return [(st, VBytes.const(s.lit.encode('utf-8')))]
        return [(st, r)]

    @ext('bytes.lstrip')
    def _lstrip(ex, st, args, kw, node):
        ex.unsupported(node, 'bytes.lstrip (needs a contract at the caller)')

    # ---- dict methods
    @ext('dict.get')
    def _dget(ex, st, args, kw, node):
        d, k = args[0], args[1]
        default = args[2] if len(args) > 2 else VNone()
        has = ex.dict_has(st, d, k)
        st_t, st_f = ex.branch(st, has)
        out = []
        if st_t is not None:
            out.append((st_t, ex.dict_get(st_t, d, k)))
        if st_f is not None:
            out.append((st_f, default))
        return out

    @ext('dict.pop')
    def _dpop(ex, st, args, kw, node):
        d, k = args[0], args[1]
        has = ex.dict_has(st, d, k)
        out = []
        if len(args) > 2:
            st_t, st_f = ex.branch(st, has)
            if st_f is not None:
                out.append((st_f, args[2]))
        else:
            st_t, e2 = ex.guard(st, has, 'builtins:KeyError')
            if e2 is not None:
                out.append((e2, None))
        if st_t is not None:
            v = ex.dict_get(st_t, d, k)
            ex.dict_del(st_t, d, k)
            out.append((st_t, v))
        return out

    @ext('unicodedata.normalize')
    def _normalize(ex, st, args, kw, node):
        """unicodedata.normalize(form, text): some text determined by (form, text) -- NOT the identity"""
        form, text = args
        return [(st, VStr(z3.Function('unicode_normalize', StrS, StrS, StrS)(form.t, text.t)))]

    @ext('builtins.iter')
    def _iter(ex, st, args, kw, node):
        v = args[0]
        if isinstance(v, VDict):
            return [(st, VFunc('dictiter', dict=v, mode='keys'))]
        if isinstance(v, VFunc) and v.kind == 'dictiter':
            return [(st, v)]
        ex.unsupported(node, 'iter() of %r' % (v,))

    @ext('builtins.next')
    def _next(ex, st, args, kw, node):
        """next(iter(d.keys())): SOME key of the dictionary (iteration order is not modelled); StopIteration if it is empty"""
        it = args[0]
        if not (isinstance(it, VFunc) and it.kind == 'dictiter' and it.mode == 'keys' and len(args) == 1):
            ex.unsupported(node, 'next() of something else than a fresh key iterator of a dictionary')
        d = it.dict
        n = ex.card_fn(d)(ex.dict_dom(st, d))
        out = []
        ok, bad = ex.guard(st, n > 0, 'builtins:StopIteration')
        if bad is not None:
            out.append((bad, None))
        if ok is not None:
            k = z3.Const(fresh_name('somekey'), sort_of(d.k))
            ok.assume(z3.Select(ex.dict_dom(ok, d), k))
            out.append((ok, ex.wf(ok, from_term(d.k, k))))
        return out

    @ext('dict.remove')
    def _sremove(ex, st, args, kw, node):
        """set.remove(x) (sets are dictionaries with None values): KeyError if absent"""
        d, k = args[0], args[1]
        out = []
        ok, e2 = ex.guard(st, ex.dict_has(st, d, k), 'builtins:KeyError')
        if e2 is not None:
            out.append((e2, None))
        if ok is not None:
            ex.dict_del(ok, d, k)
            out.append((ok, VNone()))
        return out
    reg.externals['set.remove'] = _sremove

    @ext('dict.discard')
    def _sdiscard(ex, st, args, kw, node):
        ex.dict_del(st, args[0], args[1])
        return [(st, VNone())]
    reg.externals['set.discard'] = _sdiscard

    @ext('dict.clear')
    def _dclear(ex, st, args, kw, node):
        d = args[0]
        kd, dd = ex._dd(st, d)
        empty = z3.K(sort_of(d.k), False)
        st.fact(ex.card_fn(d)(empty) == 0)
        ex.heap_set(st, kd, z3.Store(dd, d.t, empty))
        return [(st, VNone())]
    reg.externals['set.clear'] = _dclear

    @ext('dict.update')
    def _dupdate(ex, st, args, kw, node):
        """d.update(other) for two dictionaries of the same key/value types: union of the domains, other's values win"""
        d, o = args[0], args[1]
        if not (isinstance(o, VDict) and o.k == d.k and o.v == d.v):
            ex.unsupported(node, 'dict.update with something else than a dictionary of the same type')
        kd, dd = ex._dd(st, d)
        kv, dv = ex._dv(st, d)
        dom, vals = z3.Select(dd, d.t), z3.Select(dv, d.t)
        dom2, vals2 = ex.dict_dom(st, o), ex.dict_vals(st, o)
        k = z3.Const(fresh_name('uk'), sort_of(d.k))
        new_dom = z3.Lambda([k], z3.Or(z3.Select(dom, k), z3.Select(dom2, k)))
        new_vals = z3.Lambda([k], z3.If(z3.Select(dom2, k), z3.Select(vals2, k), z3.Select(vals, k)))
        f = ex.card_fn(d)
        st.fact(f(new_dom) >= f(dom), f(new_dom) >= 0)
        ex.heap_set(st, kd, z3.Store(dd, d.t, new_dom))
        ex.heap_set(st, kv, z3.Store(dv, d.t, new_vals))
        return [(st, VNone())]

    @ext('dict.setdefault')
    def _dsetdefault(ex, st, args, kw, node):
        d, k, default = args
        has = ex.dict_has(st, d, k)
        st_t, st_f = ex.branch(st, has)
        out = []
        if st_t is not None:
            out.append((st_t, ex.dict_get(st_t, d, k)))
        if st_f is not None:
            ex.dict_set(st_f, d, k, default)
            out.append((st_f, ex.dict_get(st_f, d, k)))
        return out

    def _diter(mode):
        def h(ex, st, args, kw, node):
            return [(st, VFunc('dictiter', dict=args[0], mode=mode))]
        return h
    reg.externals['dict.items'] = _diter('items')
    reg.externals['dict.keys'] = _diter('keys')
    reg.externals['dict.values'] = _diter('values')

    # ---- list methods
    @ext('list.append')
    def _lappend(ex, st, args, kw, node):
        l, v = args
        if getattr(l, 'pending', False):
            # element type of an empty list literal is fixed by the first append
            l.e = v.ty if not isinstance(v, VEnum) else INT
            l.ty = ('list', l.e)
            l.pending = False
        n = ex.list_len(st, l)
        joined = ex.list_joined(st, l) if l.e == BYTES else None
        ex.list_store(st, l, n + 1, z3.Store(ex.list_arr(st, l), n, to_term(coerce(v, l.e))))
        if joined is not None:
            ex.set_list_joined(st, l, ex.bytes_concat(joined, v))
        return [(st, VNone())]

    @ext('list.pop')
    def _lpop(ex, st, args, kw, node):
        l = args[0]
        n = ex.list_len(st, l)
        out = []
        ok, e2 = ex.guard(st, n > 0, 'builtins:IndexError')
        if e2 is not None:
            out.append((e2, None))
        if ok is None:
            return out
        arr = ex.list_arr(ok, l)
        if len(args) > 1:
            i = z3.simplify(ex.as_int(args[1], node))
            if not (z3.is_int_value(i) and i.as_long() == 0):
                ex.unsupported(node, 'list.pop(i) for i != 0')
            v = ex.list_at(ok, l, z3.IntVal(0))
            j = z3.Int(fresh_name('pj'))
            ex.list_store(ok, l, n - 1, z3.Lambda([j], z3.Select(arr, j + 1)))
        else:
            v = ex.list_at(ok, l, n - 1)
            ex.list_store(ok, l, n - 1, arr)
        out.append((ok, v))
        return out

    @ext('set.add')
    def _sadd(ex, st, args, kw, node):
        ex.dict_set(st, args[0], args[1], VNone())
        return [(st, VNone())]
    reg.externals['dict.add'] = _sadd

    @ext('list.insert')
    def _linsert(ex, st, args, kw, node):
        l, pos, v = args
        p = z3.simplify(ex.as_int(pos, node))
        if not (z3.is_int_value(p) and p.as_long() == 0):
            ex.unsupported(node, 'list.insert at a position other than 0')
        n = ex.list_len(st, l)
        arr = ex.list_arr(st, l)
        j = z3.Int(fresh_name('ij'))
        ex.list_store(st, l, n + 1, z3.Lambda([j], z3.If(j == 0, to_term(coerce(v, l.e)), z3.Select(arr, j - 1))))
        return [(st, VNone())]

    @ext('list.remove')
    def _lremove(ex, st, args, kw, node):
        """list.remove(x): deletes the FIRST item equal to x; ValueError if there is none"""
        l, v = args
        n = ex.list_len(st, l)
        arr = ex.list_arr(st, l)
        vt = to_term(coerce(v, l.e))
        i = z3.Int(fresh_name('ri'))
        present = z3.Exists([i], z3.And(0 <= i, i < n, z3.Select(arr, i) == vt))
        ok, bad = ex.guard(st, present, 'builtins:ValueError')
        out = []
        if ok is not None:
            k = z3.Int(fresh_name('rk'))
            i2 = z3.Int(fresh_name('ri'))
            ok.assume(0 <= k, k < n, z3.Select(arr, k) == vt,
                      z3.ForAll([i2], z3.Implies(z3.And(0 <= i2, i2 < k), z3.Select(arr, i2) != vt)))
            j = z3.Int(fresh_name('rj'))
            ex.list_store(ok, l, n - 1, z3.Lambda([j], z3.If(j < k, z3.Select(arr, j), z3.Select(arr, j + 1))))
            out.append((ok, VNone()))
        if bad is not None:
            out.append((bad, None))
        return out

    @ext('builtins.getattr')
    def _getattr(ex, st, args, kw, node):
        """getattr(obj, name[, default]) for a declared optional field: an absent attribute is modelled as None"""
        obj, name = args[0], args[1]
        if not (isinstance(name, VStr) and name.lit is not None and isinstance(obj, VRef)):
            if len(args) >= 3:
                # a computed attribute name with a default: the attribute may or may not exist; if it does it is
                # some (unknown) callable -- this is how handler methods render_<method> are looked up
                h = VFunc('opaque')
                h.t = z3.Int(fresh_name('handler'))
                st.log.append(('getattr_dynamic', obj, h))
                s2 = st.copy()
                return [(st, h), (s2, args[2])]
            ex.unsupported(node, 'getattr with a computed name')
        out = []
        for s, v in ex.getattr(st, obj, name.lit, node):
            if s.exc is not None or len(args) < 3 or not isinstance(v, VOpt):
                out.append((s, v))
                continue
            st_t, st_f = ex.branch(s, v.is_none())
            if st_t is not None:
                out.append((st_t, args[2]))
            if st_f is not None:
                out.append((st_f, v.some()))
        return out

    @ext('builtins.hasattr')
    def _hasattr(ex, st, args, kw, node):
        """true if the attribute is known statically (declared field, method or class constant of the static class);
        otherwise unknown (a subclass may have it)"""
        obj, name = args
        if isinstance(obj, VRef) and isinstance(name, VStr) and name.lit is not None and obj.cls is not None:
            if name.lit in getattr(ex.reg, 'absent_as_none', ()):
                # an attribute that exists only on some objects, declared as an optional field whose None stands for "absent"
                # (the same reading getattr(obj, name, default) uses)
                ty = ex.reg.field_type(obj.cls, name.lit)
                if ty is not None and ty[0] == 'opt':
                    return [(st, VBool(z3.Not(ex.read_field(st, obj, name.lit, ty).is_none())))]
            if ex.reg.field_type(obj.cls, name.lit) is not None or ex.find_method(obj.cls, name.lit) is not None:
                return [(st, VBool(True))]
            for ci in ex.mro_infos(obj.cls):
                d = ex.reg.class_by_key.get('%s:%s' % (ci.module.name, ci.qualname))
                if (d is not None and name.lit in d.fields) or name.lit in ci.class_attrs:
                    return [(st, VBool(True))]
            if getattr(obj, 'exact', False):
                return [(st, VBool(False))]
        return [(st, VBool(z3.Bool(fresh_name('hasattr'))))]

    @ext('builtins.tuple')
    def _tuple(ex, st, args, kw, node):
        if not args:
            return [(st, VTuple([]))]
        v = args[0]
        if isinstance(v, (VTuple, VSeq)):
            return [(st, v)]
        if isinstance(v, VList):
            return [(st, ex.list_as_seq(st, v))]
        ex.unsupported(node, 'tuple() of %r' % (v,))

    @ext('builtins.list')
    def _list(ex, st, args, kw, node):
        ex.unsupported(node, 'list()')

    @ext('builtins.sum')
    def _sum(ex, st, args, kw, node):
        v = args[0]
        if isinstance(v, VTuple) and all(isinstance(i, (VInt, VBool)) for i in v.items):
            t = z3.IntVal(0)
            for i in v.items:
                t = t + ex.as_int(i, node)
            return [(st, VInt(z3.simplify(t)))]
        ex.unsupported(node, 'sum() of %r' % (v,))

    @ext('builtins.divmod')
    def _divmod(ex, st, args, kw, node):
        out = []
        for s, q in ex.binop(st, ast.FloorDiv(), args[0], args[1], node):
            if s.exc is not None:
                out.append((s, None))
                continue
            for s2, r in ex.binop(s, ast.Mod(), args[0], args[1], node):
                out.append((s2, VTuple([q, r])))
        return out

    @ext('random.uniform')
    def _uniform(ex, st, args, kw, node):
        (a, ar), (b, br) = ex.num(args[0]), ex.num(args[1])
        a = a if ar else z3.ToReal(a)
        b = b if br else z3.ToReal(b)
        r = z3.Real(fresh_name('uniform'))
        st.assume(z3.Or(z3.And(a <= r, r <= b), z3.And(b <= r, r <= a)))
        return [(st, VReal(r))]

    reg.externals['random.Random.uniform'] = _uniform

    @ext('random.randint')
    def _randint(ex, st, args, kw, node):
        a, b = ex.as_int(args[0], node), ex.as_int(args[1], node)
        r = z3.Int(fresh_name('randint'))
        st.assume(z3.And(a <= r, r <= b))
        return [(st, VInt(r))]

    reg.externals['random.Random.randint'] = _randint

    @ext('functools.partial')
    def _partial(ex, st, args, kw, node):
        return [(st, ex.register_callable(st, VFunc('partial', func=args[0], args=args[1:], kwargs=kw)))]

    @ext('builtins.callable')
    def _callable(ex, st, args, kw, node):
        return [(st, VBool(isinstance(args[0], VFunc)))]

    @ext('builtins.repr')
    def _repr(ex, st, args, kw, node):
        return [(st, VStr(fresh(STR, 'repr')))]

    reg.externals['builtins.str'] = _repr
    reg.externals['str.lower'] = _repr
    reg.externals['str.upper'] = _repr
    reg.externals['builtins.id'] = lambda ex, st, args, kw, node: [(st, VInt(z3.Int(fresh_name('id'))))]
    @ext('builtins.type')
    def _type(ex, st, args, kw, node):
        v = args[0]
        if isinstance(v, (VEnum, VRef)) and v.cls is not None and (isinstance(v, VEnum) or getattr(v, 'exact', False)):
            key = ex.class_key(v.cls)
            return [(st, VFunc('class', pyobj=ex.pyclass(key), key=key))]
        if isinstance(v, VTuple) and len(v.ty) > 2:
            key = ex.class_key(v.ty[2])
            return [(st, VFunc('class', pyobj=ex.pyclass(key), key=key))]
        ex.unsupported(node, 'type() of %r' % (v,))
