"""Attribute access, calls, contracts at call sites, spec expressions."""
import ast
import z3

from .values import *  # noqa
from .solve import feasible
from .registry import MAY

LOG_NAMES = ('log', '_alglog', 'logger')


def ite_val(c, a, b):
    if a is b:
        return a
    if isinstance(a, VNone) and isinstance(b, VNone):
        return a
    if isinstance(a, VBool) and isinstance(b, VBool):
        return VBool(z3.If(c, a.t, b.t))
    if isinstance(a, (VInt, VBool)) and isinstance(b, (VInt, VBool)):
        x = a.t if isinstance(a, VInt) else z3.If(a.t, 1, 0)
        y = b.t if isinstance(b, VInt) else z3.If(b.t, 1, 0)
        return VInt(z3.If(c, x, y))
    if isinstance(a, VReal) or isinstance(b, VReal):
        x = a.t if isinstance(a, VReal) else z3.ToReal(a.t)
        y = b.t if isinstance(b, VReal) else z3.ToReal(b.t)
        return VReal(z3.If(c, x, y))
    if isinstance(a, VTuple) and isinstance(b, VTuple) and len(a.items) == len(b.items):
        return VTuple([ite_val(c, x, y) for x, y in zip(a.items, b.items)])
    if isinstance(a, VSeq) and isinstance(b, (VSeq, VTuple)) or isinstance(b, VSeq) and isinstance(a, VTuple):
        ety = a.e if isinstance(a, VSeq) else b.e
        x, y = coerce(a, ('seq', ety)), coerce(b, ('seq', ety))
        return VSeq(z3.If(c, x.len, y.len), lambda i: from_term(ety, z3.If(c, to_term(x.at(i)), to_term(y.at(i)))), ety)
    if isinstance(a, VBytes) and isinstance(b, VBytes):
        if a._term is not None and b._term is not None:
            if a._term.eq(b._term):
                return a
            return VBytes.from_term(z3.If(c, a._term, b._term))
        return VBytes(z3.If(c, a.len, b.len), lambda i: z3.If(c, a.at(i), b.at(i)))
    if isinstance(a, VNone) or isinstance(b, VNone) or isinstance(a, VOpt) or isinstance(b, VOpt):
        inner = None
        for x in (a, b):
            if isinstance(x, VOpt):
                inner = x.inner
            elif not isinstance(x, VNone):
                inner = x.ty
        ty = ('opt', inner)
        return VOpt(inner, z3.If(c, coerce(a, ty).t, coerce(b, ty).t))
    if a.ty == b.ty:
        return from_term(a.ty, z3.If(c, a.t, b.t))
    raise Unsupported('cannot merge %r and %r' % (a, b))


class CallMixin:
    # ------------------------------------------------------------- attributes
    def getattr(self, st, base, attr, node):
        cls = getattr(base, 'cls', None)
        if cls is not None:
            d = self.reg.classes.get(cls) or self.reg.class_by_key.get(cls)
            for nm in ([d.short, d.key] if d else [cls]):
                h = self.reg.externals.get('attr:%s.%s' % (nm, attr))
                if h is not None:
                    self.used_externals.add('attr:%s.%s' % (nm, attr))
                    return h(self, st, base, node)
        if isinstance(base, VModule):
            return [(st, self.module_attr(st, base, attr, node))]
        if isinstance(base, VOpt):
            out = []
            for s, b in self.force(st, base, node, 'builtins:AttributeError'):
                if s.exc is not None:
                    out.append((s, None))
                else:
                    out.extend(self.getattr(s, b, attr, node))
            return out
        if isinstance(base, VNone):
            return [(self.raise_exc(st, 'builtins:AttributeError'), None)]
        if isinstance(base, VFunc) and base.kind == 'class':
            return [(st, self.class_attr(st, base, attr, node))]
        if isinstance(base, VFunc) and base.kind == 'super':
            cls = getattr(base.obj, 'cls', None) or (base.obj.ty[2] if isinstance(base.obj, VTuple) and len(base.obj.ty) > 2 else None)
            infos = self.mro_infos(cls)
            keys = ['%s:%s' % (ci.module.name, ci.qualname) for ci in infos]
            if base.after not in keys:
                self.unsupported(node, 'super(): class not in the MRO of the object')
            for ci in infos[keys.index(base.after) + 1:]:
                if attr in ci.methods:
                    return [(st, VFunc('repo', info=ci.methods[attr], bound=base.obj))]
            self.unsupported(node, 'super().%s not found' % attr)
        if isinstance(base, VRef):
            return self.obj_attr(st, base, attr, node)
        if isinstance(base, VEnum):
            if attr == 'value':
                return [(st, VInt(base.t))]
            f = self.find_method(base.cls, attr)
            if f is not None:
                if f.kind == 'property':
                    return self.call_repo(st, f, [base], {}, node)
                return [(st, VFunc('repo', info=f, bound=base))]
            self.unsupported(node, 'enum attribute %s' % attr)
        if isinstance(base, VTuple) and len(base.ty) > 2:
            d = self.reg.classes.get(base.ty[2]) or self.reg.class_by_key.get(base.ty[2])
            if d is not None and d.nt and attr in d.nt:
                return [(st, base.items[d.nt.index(attr)])]
            f = self.find_method(base.ty[2], attr)
            if f is not None:
                if f.kind == 'property':
                    return self.call_repo(st, f, [base], {}, node)
                return [(st, VFunc('repo', info=f, bound=base))]
            self.unsupported(node, 'namedtuple attribute %s' % attr)
        kind = {VBytes: 'bytes', VStr: 'str', VList: 'list', VDict: 'dict', VInt: 'int', VBool: 'int', VSeq: 'tuple',
                VTuple: 'tuple', VReal: 'float'}.get(type(base))
        if kind is not None:
            return [(st, VFunc('ext', name='%s.%s' % (kind, attr), bound=base))]
        if isinstance(base, VFunc) and base.kind == 'opaque':
            return [(st, VFunc('ext', name='callable.%s' % attr, bound=base))]
        self.unsupported(node, 'attribute %s of %r' % (attr, base))

    def module_attr(self, st, m, attr, node):
        if m.pyobj is None and self.prog.is_repo_module(m.name):
            mi = self.prog.module(m.name)
            pm = mi.pymod() if mi else None
            if pm is not None:
                m = VModule(m.name, pm)
        if m.pyobj is None and not self.prog.is_repo_module(m.name):
            import importlib
            try:
                m = VModule(m.name, importlib.import_module(m.name))
            except Exception:
                return VFunc('ext', name='%s.%s' % (m.name, attr), bound=None)
        if m.pyobj is not None:
            if not hasattr(m.pyobj, attr):
                self.unsupported(node, 'module %s has no attribute %s' % (m.name, attr))
            obj = getattr(m.pyobj, attr)
            import types
            if isinstance(obj, (types.FunctionType, types.BuiltinFunctionType)) and not self.prog.is_repo_module(getattr(obj, '__module__', '') or ''):
                return VFunc('ext', name='%s.%s' % (m.name, attr), bound=None)
            return self.lift(st, obj, node)
        mi = self.prog.module(m.name)
        if mi is not None:
            if attr in mi.funcs:
                return VFunc('repo', info=mi.funcs[attr], bound=None)
            if attr in mi.classes:
                return VFunc('class', pyobj=None, key='%s:%s' % (mi.name, attr))
            if attr in mi.assigns:
                return self.lift(st, ast.literal_eval(mi.assigns[attr]), node)
        return VFunc('ext', name='%s.%s' % (m.name, attr), bound=None)

    def class_attr(self, st, c, attr, node):
        if c.pyobj is None:
            pc = self.pyclass(c.key)
            if pc is not None:
                c = VFunc('class', pyobj=pc, key=c.key)
        if c.pyobj is not None and hasattr(c.pyobj, attr):
            obj = getattr(c.pyobj, attr)
            import types
            raw = None
            for k in c.pyobj.__mro__:
                if attr in vars(k):
                    raw = vars(k)[attr]
                    break
            if isinstance(raw, (staticmethod, classmethod)) or isinstance(obj, (types.FunctionType, types.MethodType)):
                fi = self.prog.func_by_pyobj(obj)
                if fi is not None:
                    return VFunc('repo', info=fi, bound=c if isinstance(raw, classmethod) else None, unbound=not isinstance(raw, (staticmethod, classmethod)))
                return VFunc('ext', name='%s.%s' % (c.key.split(':')[1], attr), bound=None)
            return self.lift(st, obj, node)
        ci = self.classinfo(c.key)
        if ci is not None:
            for k in self.mro_infos(c.key):
                if attr in k.methods:
                    f = k.methods[attr]
                    return VFunc('repo', info=f, bound=c if f.kind == 'class' else None, unbound=f.kind == 'plain')
                if attr in k.class_attrs:
                    return self.eval_const_expr(st, k, k.class_attrs[attr], node)
                q = k.qualname + '.' + attr
                if q in k.module.classes:
                    return VFunc('class', pyobj=None, key='%s:%s' % (k.module.name, q))
        self.unsupported(node, 'class attribute %s.%s' % (c.key, attr))

    def eval_const_expr(self, st, classinfo, expr, node):
        if isinstance(expr, ast.Name):
            q = classinfo.qualname + '.' + expr.id
            if q in classinfo.module.classes:
                key = '%s:%s' % (classinfo.module.name, q)
                return VFunc('class', pyobj=self.pyclass(key), key=key)
            if expr.id in classinfo.class_attrs:
                return self.eval_const_expr(st, classinfo, classinfo.class_attrs[expr.id], node)
        try:
            return self.lift(st, ast.literal_eval(expr), node)
        except Exception:
            pass
        fid = st.new_frame(None, _ModuleScope(classinfo.module))
        save = st.cur
        st.cur = fid
        try:
            res = self.eval(st, expr)
        finally:
            st.cur = save
            del st.frames[fid]
        if len(res) != 1 or res[0][0].exc is not None:
            self.unsupported(node, 'class constant is not a simple expression')
        return res[0][1]

    def overridden_below(self, cls, attr):
        """does some subclass (in the same modules we know) assign the class attribute too?"""
        key = self.class_key(cls)
        memo = self.__dict__.setdefault('_ovr', {})
        if (key, attr) not in memo:
            pc = self.pyclass(key)
            res = False
            if pc is not None and isinstance(pc, type):
                work = list(pc.__subclasses__())
                while work and not res:
                    c = work.pop()
                    res = attr in vars(c)
                    work.extend(c.__subclasses__())
            else:
                res = True
            memo[(key, attr)] = res
        return memo[(key, attr)]

    def class_property(self, cls, attr):
        """`name = property(getter, setter)` at class level -> (classinfo, getter expr, setter expr)"""
        for ci in self.mro_infos(cls):
            e = ci.class_attrs.get(attr)
            if e is not None:
                if isinstance(e, ast.Call) and isinstance(e.func, ast.Name) and e.func.id == 'property' and e.args:
                    return ci, e.args[0], (e.args[1] if len(e.args) > 1 else None)
                return None
            if attr in ci.methods or attr in ci.setters:
                return None
        return None

    def call_accessor(self, st, ci, expr, args, node):
        if isinstance(expr, ast.Lambda):
            fid = st.new_frame(None, _ModuleScope(ci.module))
            f = VFunc('closure', node=expr, frame=fid, info=_ModuleScope(ci.module), defaults={})
            res = self.call_closure(st, f, args, {}, node)
            for s, _ in res:
                s.frames.pop(fid, None)
            return res
        if isinstance(expr, ast.Name) and expr.id in ci.methods:
            return self.call_repo(st, ci.methods[expr.id], args, {}, node)
        self.unsupported(node, 'property accessor form')

    def obj_attr(self, st, base, attr, node):
        cls = base.cls
        d0 = (self.reg.classes.get(cls) or self.reg.class_by_key.get(cls)) if cls else None
        # 1. fields declared (possibly as an abstraction) for exactly this class
        if d0 is not None and attr in d0.fields:
            if attr in getattr(d0, 'maybe_absent', ()) and not self.spec_mode:
                # an attribute only some concrete subclasses define (it is merely annotated in the class under
                # verification): reading it raises AttributeError on the others.  Presence is a ghost flag per object.
                has = self.read_field(st, base, 'has$' + attr, BOOL)
                ok, bad = self.guard(st, has.t, 'builtins:AttributeError')
                out = [(bad, None)] if bad is not None else []
                if ok is not None:
                    out.append((ok, self.read_field(ok, base, attr, d0.fields[attr])))
                return out
            return [(st, self.read_field(st, base, attr, d0.fields[attr]))]
        if d0 is not None and d0.opaque:
            # objects of the environment (transports, loops, ...): method calls go to assumed contracts
            return [(st, VFunc('ext', name='%s.%s' % (d0.short, attr), bound=base))]
        # 2. the class hierarchy, in MRO order: declared fields, properties, methods, class constants
        if cls is not None:
            for ci in self.mro_infos(cls):
                d = self.reg.class_by_key.get('%s:%s' % (ci.module.name, ci.qualname))
                if d is not None and attr in d.fields:
                    return [(st, self.read_field(st, base, attr, d.fields[attr]))]
                e = ci.class_attrs.get(attr)
                if e is not None and isinstance(e, ast.Call) and isinstance(e.func, ast.Name) and e.func.id == 'property' and e.args:
                    return self.call_accessor(st, ci, e.args[0], [base], node)
                if attr in ci.methods:
                    f = ci.methods[attr]
                    if f.kind == 'property':
                        return self.call_repo(st, f, [base], {}, node)
                    if f.kind == 'static':
                        return [(st, VFunc('repo', info=f, bound=None))]
                    if f.kind == 'class':
                        return [(st, VFunc('repo', info=f, bound=VFunc('class', pyobj=self.pyclass(cls), key=self.class_key(cls))))]
                    return [(st, VFunc('repo', info=f, bound=base))]
                if e is not None:
                    v = self.eval_const_expr(st, ci, e, node)
                    if not getattr(base, 'exact', False) and isinstance(v, (VInt, VBool, VStr)) and self.overridden_below(cls, attr):
                        # subclasses override this class constant: its value depends on the object's dynamic class
                        f = z3.Function('clsattr:' + attr, I, sort_of(v.ty))
                        return [(st, from_term(v.ty, f(base.t)))]
                    if not getattr(base, 'exact', False) and isinstance(v, (VInt, VBool, VStr)) and not getattr(self, 'no_facts', 0):
                        # no subclass overrides it: the dynamic-class view of the attribute is this constant
                        f = z3.Function('clsattr:' + attr, I, sort_of(v.ty))
                        st.fact(f(base.t) == v.t)
                    return [(st, v)]
                q = ci.qualname + '.' + attr
                if q in ci.module.classes:
                    return [(st, VFunc('class', pyobj=None, key='%s:%s' % (ci.module.name, q)))]
            pc = self.pyclass(cls)
            if pc is not None and hasattr(pc, attr) and (not callable(getattr(pc, attr)) or isinstance(getattr(pc, attr), type)):
                return [(st, self.lift(st, getattr(pc, attr), node))]
        ty = self.reg.field_type(cls, attr) if cls else None
        if ty is None:
            ty = self.infer_field_type(cls, attr)
        if ty is not None:
            return [(st, self.read_field(st, base, attr, ty))]
        pc = self.pyclass(cls) if cls else None
        if not getattr(base, 'exact', False) and pc is not None and isinstance(pc, type) and issubclass(pc, BaseException):
            # an attribute the static exception class does not have: a subclass may define it (duck typing):
            # an unknown callable; without it Python raises AttributeError
            h = VFunc('opaque')
            h.t = z3.Int(fresh_name('dynattr_' + attr))
            s2 = st.copy()
            self.raise_exc(s2, 'builtins:AttributeError')
            st.log.append(('getattr_dynamic', base, h))
            return [(st, h), (s2, None)]
        self.unsupported(node, 'no declared type for field %s.%s' % (cls, attr))

    # ------------------------------------------------------------------ calls
    def is_log_call(self, f):
        # self.log.debug(...), _alglog.info(...), warnings.warn(...), warn(...)
        if isinstance(f, ast.Attribute):
            v = f.value
            if isinstance(v, ast.Attribute) and v.attr in LOG_NAMES:
                return True
            if isinstance(v, ast.Name) and (v.id in LOG_NAMES or v.id == 'warnings' and f.attr == 'warn'):
                return True
        if isinstance(f, ast.Name) and f.id == 'warn':
            return True
        return False

    def e_Call(self, st, e):
        f = e.func
        if self.is_log_call(f):
            self.dropped.add('logging/warning calls')
            return [(st, VNone())]
        if isinstance(f, ast.Name) and self.spec_mode and f.id in ('old', 'implies', 'forall', 'exists', 'iff', 'head', 'cur', 'is_new'):
            return self.spec_call(st, e)
        if isinstance(f, ast.Name):
            f._is_call_func = True
            h = getattr(self, 'b_' + f.id, None)
            v, _ = st.lookup(f.id)
            if h is not None and v is None:
                return h(st, e)
        if any(k.arg is None for k in e.keywords):
            self.unsupported(e, 'double-star arguments')
        if isinstance(f, ast.Name) and f.id == 'super' and not e.args:
            info = st.info()
            selfv, _ = st.lookup('self')
            if info is None or info.cls is None or selfv is None:
                self.unsupported(e, 'super() outside a method')
            return [(st, VFunc('super', obj=selfv, after='%s:%s' % (info.cls.module.name, info.cls.qualname)))]
        out = []
        for s, fv in self.eval(st, f):
            if s.exc is not None:
                out.append((s, None))
                continue
            arg_exprs = [a.value if isinstance(a, ast.Starred) else a for a in e.args]
            for s2, vals in self.eval_many(s, arg_exprs + [k.value for k in e.keywords]):
                if s2.exc is not None:
                    out.append((s2, None))
                    continue
                args = []
                for a, v in zip(e.args, vals):
                    if isinstance(a, ast.Starred):
                        if not isinstance(v, VTuple):
                            self.unsupported(e, 'star argument of unknown length')
                        args.extend(v.items)
                    else:
                        args.append(v)
                kwargs = {k.arg: v for k, v in zip(e.keywords, vals[len(e.args):])}
                out.extend(self.call(s2, fv, args, kwargs, e))
        return out

    def call(self, st, f, args, kwargs, node):
        if isinstance(f, VOpt):
            out = []
            for s, g in self.force(st, f, node):
                if s.exc is not None:
                    out.append((s, None))
                else:
                    out.extend(self.call(s, g, args, kwargs, node))
            return out
        if isinstance(f, VNone):
            return [(self.raise_exc(st, 'builtins:TypeError'), None)]
        if not isinstance(f, VFunc):
            self.unsupported(node, 'call of non-callable %r' % (f,))
        if f.kind == 'repo':
            a = list(args)
            if f.bound is not None:
                a = [f.bound] + a
            return self.call_repo(st, f.info, a, kwargs, node)
        if f.kind == 'closure':
            return self.call_closure(st, f, args, kwargs, node)
        if f.kind == 'ext':
            a = list(args)
            if f.bound is not None:
                a = [f.bound] + a
            return self.call_external(st, f.name, a, kwargs, node)
        if f.kind == 'class':
            return self.construct(st, f, args, kwargs, node)
        if f.kind == 'spec':
            return [(st, self.reg.specfuncs[f.name](self, st, *args, **kwargs))]
        if f.kind == 'partial':
            kw = dict(f.kwargs)
            kw.update(kwargs)
            return self.call(st, f.func, list(f.args) + list(args), kw, node)
        if f.kind == 'opaque':
            return self.call_opaque(st, f, args, kwargs, node)
        if f.kind == 'dispatch':
            out = []
            rest = st
            for cond, target in f.table:
                if rest is None:
                    break
                st_t, rest = self.branch(rest, cond)
                if st_t is not None:
                    out.extend(self.call(st_t, target, args, kwargs, node))
            if rest is not None:
                out.extend(self.call(rest, f.default, args, kwargs, node))
            return out
        self.unsupported(node, 'call of %r' % (f,))

    def call_opaque(self, st, f, args, kwargs, node):
        """An unknown callable (callback handed in from outside).  Its invocation is
        recorded in the ghost log; A-CALLBACK: it returns normally and does not
        modify the state of the object under verification (re-entrancy is not modelled)."""
        known = st.ghost.get('$callables', {}).get(z3.simplify(f.t).get_id())
        if known is not None and known is not f:
            return self.call(st, known, args, kwargs, node)
        h = self.reg.externals.get('$opaque_call')
        if h is not None:
            return h(self, st, [f] + list(args), kwargs, node)
        st.log.append(('call', f.t, tuple(args)))
        self.reg.assume('A-CALLBACK: opaque callbacks return normally and do not re-enter the object under verification')
        rty = (getattr(self.cur_contract, 'hints', None) or {}).get('opaque_returns')
        if rty is not None:
            # the code under contract looks at what its callbacks return: an arbitrary value of the stated type
            return [(st, self.fresh_val(st, rty, 'cbresult'))]
        return [(st, VNone())]

    def call_external(self, st, name, args, kwargs, node):
        h = self.reg.externals.get(name)
        if h is None and name.startswith('builtins.'):
            h = self.reg.externals.get(name[len('builtins.'):])
        if h is None:
            self.unsupported(node, 'no contract for external %s' % name)
        self.used_externals.add(name)
        res = h(self, st, args, kwargs, node)
        return res

    def construct(self, st, c, args, kwargs, node):
        key = c.key
        short = key.split(':')[1]
        h = self.reg.externals.get('new:' + key) or self.reg.externals.get('new:' + short) or self.reg.externals.get(key.replace(':', '.'))
        if h is not None:
            self.used_externals.add('new:' + key)
            return h(self, st, args, kwargs, node)
        pc = c.pyobj if c.pyobj is not None else self.pyclass(key)
        if pc is not None and isinstance(pc, type) and issubclass(pc, BaseException):
            v = self.new_object(st, key)
            v.args = args
            aty = self.reg.field_type(key, 'args')
            if aty is not None:
                self.write_field(st, v, 'args', aty, VTuple(list(args)))
            init = self.find_method(key, '__init__')
            if init is not None:
                # exception classes of the repository with their own __init__ (e.g. ContinueException(block1))
                out = []
                for s2, _ in self.call_repo(st, init, [v] + list(args), kwargs, node):
                    out.append((s2, v if s2.exc is None else None))
                return out
            return [(st, v)]
        if pc is not None:
            import enum
            if issubclass(pc, enum.IntEnum):
                if len(args) == 1 and isinstance(args[0], VInt):
                    return self.enum_lookup(st, pc, key, args[0], node)
            if pc is type and len(args) == 1:
                return self.call_external(st, 'builtins.type', args, kwargs, node)
            if pc is int and len(args) == 1:
                return self.call_external(st, 'builtins.int', args, kwargs, node)
            if pc is bool and len(args) == 1:
                return [(st, VBool(self.truth(st, args[0])))]
            if pc is bytes:
                return self.call_external(st, 'builtins.bytes', args, kwargs, node)
            if pc is tuple:
                return self.call_external(st, 'builtins.tuple', args, kwargs, node)
            if pc is list:
                return self.call_external(st, 'builtins.list', args, kwargs, node)
            if pc is set and not args:
                ty = self.hint_type(node)
                if ty is None:
                    self.unsupported(node, 'set() without declared element type (add `hints`)')
                return [(st, self.new_dict(st, ty[1], ty[2], ty[3] if len(ty) > 3 else None))]
            if pc is object and not args:
                return [(st, self.new_object(st, 'builtins:object'))]
            if pc is str:
                return [(st, VStr(fresh(STR, 'str')))]
            if pc is range and 1 <= len(args) <= 2 and not kwargs and all(isinstance(a, (VInt, VBool)) for a in args):
                lo = z3.IntVal(0) if len(args) == 1 else self.as_int(args[0], node)
                return [(st, VFunc('range', lo=lo, hi=self.as_int(args[-1], node)))]
        ci = self.classinfo(key)
        if ci is None and pc is None:
            # exception classes of non importable modules
            if self.issub(key, 'builtins:BaseException'):
                return [(st, self.new_object(st, key))]
        d = self.reg.class_by_key.get(key)
        if d is not None and d.nt is not None:
            # namedtuple-like class: positional / keyword fields
            items = list(args)
            for n in d.nt[len(items):]:
                if n not in kwargs:
                    self.unsupported(node, 'namedtuple construction with missing field %s' % n)
                items.append(kwargs[n])
            v = VTuple(items)
            v.ty = ('tuple', tuple(i.ty for i in items), d.short)
            return [(st, v)]
        if ci is not None:
            init = self.find_method(key, '__init__')
            if ci is not None and self.issub(key, 'builtins:BaseException') and init is None:
                return [(st, self.new_object(st, key))]
            obj = self.new_object(st, d.short if d is not None else key)
            if init is None:
                return [(st, obj)]
            out = []
            for s, _ in self.call_repo(st, init, [obj] + list(args), kwargs, node):
                out.append((s, obj if s.exc is None else None))
            return out
        self.unsupported(node, 'construction of %s' % key)

    def enum_lookup(self, st, pc, key, v, node):
        """IntEnum(value): Type() raises ValueError outside its members, the Extensible
        enums of aiocoap accept every int (A-ENUM: read from ExtensibleIntEnum._missing_)."""
        members = sorted(int(m) for m in pc)
        ext = any(k.__name__ == 'ExtensibleIntEnum' for k in pc.__mro__)
        if ext:
            self.reg.assume('A-ENUM: ExtensibleIntEnum(value) is total on ints (one member per value)')
            return [(st, VEnum(key, v.t))]
        ok, ex = self.guard(st, z3.Or(*[v.t == m for m in members]), 'builtins:ValueError')
        out = []
        if ok is not None:
            out.append((ok, VEnum(key, v.t)))
        if ex is not None:
            out.append((ex, None))
        return out

    # ------------------------------------------------------- repo functions
    def bind_params(self, st, node_args, args, kwargs, node, defaults_frame_info=None):
        """python calling convention -> dict name -> Val (defaults evaluated lazily)."""
        a = node_args
        if a.vararg is not None:
            self.unsupported(node, 'callee with *args')
        names = [x.arg for x in a.posonlyargs + a.args]
        bound = {}
        if len(args) > len(names):
            self.unsupported(node, 'too many positional arguments')
        for n, v in zip(names, args):
            bound[n] = v
        kwonly = [x.arg for x in a.kwonlyargs]
        extra = {}
        for k, v in kwargs.items():
            if k in names or k in kwonly:
                if k in bound:
                    self.unsupported(node, 'duplicate argument %s' % k)
                bound[k] = v
            elif a.kwarg is not None:
                extra[k] = v
            else:
                self.unsupported(node, 'unexpected keyword %s' % k)
        defaults = dict(zip(names[len(names) - len(a.defaults):], a.defaults))
        for n, d in zip(kwonly, a.kw_defaults):
            if d is not None:
                defaults[n] = d
        missing = []
        for n in names + kwonly:
            if n not in bound:
                if n in defaults:
                    missing.append((n, defaults[n]))
                else:
                    self.unsupported(node, 'missing argument %s' % n)
        if a.kwarg is not None:
            kw = VFunc('kwargs', items=extra)
            bound[a.kwarg.arg] = kw
        return bound, missing

    def call_repo(self, st, info, args, kwargs, node):
        h = self.reg.externals.get('repo:' + info.key)
        if h is not None and not (self.cur_info is not None and self.cur_info.key == info.key and st.depth == 0):
            # an assumed contract given as a handler (functions whose calling convention is too dynamic to verify)
            self.used_externals.add('repo:' + info.key)
            return h(self, st, args, kwargs, node)
        c = self.reg.contract_for(info.key)
        use_contract = c is not None and c.use_at_calls and not (self.cur_contract is c and st.depth == 0)
        if use_contract:
            bound, missing = self.bind_params(st, info.node.args, args, kwargs, node)
            out = []
            for s, b in self.eval_defaults(st, info, bound, missing):
                out.extend(self.apply_contract(s, c, info, b, node))
            return out
        if any(d.endswith('abstractmethod') for d in info.decorators):
            self.unsupported(node, 'call of abstract method %s without an interface contract' % info.key)
        if info.is_async and not getattr(self, '_awaiting', False):
            return [(st, VFunc('coro', info=info, args=args, kwargs=kwargs))]
        import re
        HARMLESS = r'^(staticmethod|classmethod|property|\w+\.(setter|getter|deleter)|abc\.abstractmethod|abstractmethod|abc\.abstractproperty|' \
                   r'abc\.abstractclassmethod|abc\.abstractstaticmethod|_requires_ua|wraps\(.*\)|functools\.wraps\(.*\)|final|typing\.final|override|typing\.override)$'
        MEMO = r'^(functools\.)?(lru_cache|cache|cached_property)(\(.*\))?$'
        memo = [d for d in info.decorators if re.match(MEMO, d)]
        other = [d for d in info.decorators if not re.match(MEMO, d) and not re.match(HARMLESS, d)]
        if other:
            self.unsupported(node, 'call of %s, decorated with %s (the effect of that decorator is not modelled)' % (info.key, ', '.join(other)))
        outs = self.inline(st, info, args, kwargs, node)
        if memo:
            # a memoising decorator: the object handed out may be one handed out (and changed by its holders) before -- an arbitrary
            # object of the same class, about which nothing is known (in particular it is not new)
            res = []
            for s, v in outs:
                if s.exc is None and isinstance(v, VRef):
                    v = self.fresh_val(s, v.ty, 'memoised')
                res.append((s, v))
            return res
        return outs

    def eval_defaults(self, st, info, bound, missing):
        res = [(st, dict(bound))]
        for name, dexpr in missing:
            nxt = []
            for s, b in res:
                fid = s.new_frame(None, info)
                save = s.cur
                s.cur = fid
                r = self.eval(s, dexpr)
                for s2, v in r:
                    s2.cur = save
                    s2.frames.pop(fid, None)
                    b2 = dict(b)
                    b2[name] = v
                    nxt.append((s2, b2))
            res = nxt
        return res

    def inline(self, st, info, args, kwargs, node, parent_frame=None):
        limit = self.cur_contract.inline_depth if self.cur_contract else 4
        if st.depth >= limit:
            self.unsupported(node, 'inlining depth exceeded at %s' % info.key)
        self.inlined.add(info.key)
        bound, missing = self.bind_params(st, info.node.args, args, kwargs, node)
        out = []
        for s, b in self.eval_defaults(st, info, bound, missing):
            out.extend(self.run_body(s, info, info.node, b, parent_frame))
        return out

    def run_body(self, st, info, fnode, bound, parent_frame):
        caller = st.cur
        fid = st.new_frame(parent_frame, info)
        st.frames[fid].update(bound)
        st.cur = fid
        st.depth += 1
        save_spec = self.spec_mode
        if self.spec_mode:
            # spec functions written in python are executed as total functions
            pass
        body = fnode.body if not isinstance(fnode, ast.Lambda) else [ast.Return(value=fnode.body)]
        if not isinstance(fnode, ast.Lambda):
            self.scan_scopes(st, fnode, fid)
        res = self.exec_block(st, body)
        out = []
        for s in res:
            s.cur = caller
            s.depth -= 1
            s.frames.pop(fid, None) if not s.frames[fid].get('$captured') else None
            if s.exc is None:
                out.append((s, VNone()))
            elif s.exc[0] == 'return':
                v = s.exc[1]
                s.exc = None
                out.append((s, v))
            elif s.exc[0] == 'raise':
                out.append((s, None))
            else:
                raise Unsupported('break/continue escaping function body')
        self.spec_mode = save_spec
        return out

    def scan_scopes(self, st, fnode, fid):
        nl = set()
        for n in ast.walk(fnode):
            if isinstance(n, ast.Nonlocal):
                nl.update(n.names)
            if isinstance(n, (ast.FunctionDef, ast.AsyncFunctionDef, ast.Lambda)) and n is not fnode:
                st.frames[fid]['$captured'] = True
        if nl:
            # only names declared nonlocal directly in this function (not nested)
            own = set()
            for n in fnode.body:
                for m in ast.walk(n):
                    if isinstance(m, ast.Nonlocal):
                        own.update(m.names)
            st.frames[fid]['$nonlocal'] = own

    def call_closure(self, st, f, args, kwargs, node):
        fnode = f.node
        bound, missing = self.bind_params(st, fnode.args, args, kwargs, node)
        if f.frame not in st.frames:
            self.unsupported(node, 'closure called after its defining frame was dropped')
        out = []
        # defaults of closures were evaluated at definition time
        b = dict(bound)
        for name, dexpr in missing:
            if f.defaults is not None and name in f.defaults:
                b[name] = f.defaults[name]
            else:
                self.unsupported(node, 'closure default not captured')
        limit = self.cur_contract.inline_depth if self.cur_contract else 4
        if st.depth >= limit + 2:
            self.unsupported(node, 'inlining depth exceeded in closure')
        return self.run_body(st, f.info, fnode, b, f.frame)

    def call_spec_python(self, st, info, args, node=None):
        """Execute a spec function written in the supported subset (the very text that the
        replays run natively) as a total function and merge its paths into one value."""
        base = st.copy()
        n0 = len(base.pc)
        if info.qualname not in getattr(self.reg, 'spec_optional_args', ()):
            # by default a spec function is written over present values; functions listed in reg.spec_optional_args
            # take Optional parameters and test them with `is None` themselves
            args = [a.some() if isinstance(a, VOpt) else a for a in args]
        args = [VInt(a.t) if isinstance(a, VEnum) else a for a in args]
        save = self.cur_contract, self.collect_only
        self.spec_mode += 1
        try:
            res = self.inline(base, info, args, {}, node)
        finally:
            self.spec_mode -= 1
        outs = []
        for s, v in res:
            if s.exc is not None:
                continue
            conds = []
            for f in s.pc[n0:]:
                if f.get_id() in s.fact_ids:
                    st.fact(f)          # universally valid: export to the caller's state
                else:
                    conds.append(f)
            outs.append((z3.And(*conds) if conds else z3.BoolVal(True), v))
        if not outs:
            self.unsupported(node, 'spec function %s has no normal path' % info.key)
        merged = outs[-1][1]
        for cond, v in reversed(outs[:-1]):
            merged = ite_val(cond, v, merged)
        return merged

    # ----------------------------------------------------- contracts at calls
    def spec_frame(self, st, env, info):
        fid = st.new_frame(None, info)
        st.frames[fid].update(env)
        return fid

    def eval_clause(self, st, clause, env, info, old_st=None, result=None):
        """Evaluate a contract clause (python text or callable) to a z3 Bool in state st."""
        if callable(clause):
            ctx = SpecCtx(self, st, env, old_st, result)
            r = clause(ctx)
            return r.t if isinstance(r, Val) else r
        tree = ast.parse(clause.strip(), mode='eval').body
        save_cur, save_ctx = st.cur, getattr(self, 'spec_ctx', None)
        e2 = dict(env)
        if result is not None:
            e2['result'] = result
        fid = self.spec_frame(st, e2, info)
        st.cur = fid
        self.spec_mode += 1
        self.spec_ctx = (old_st, env, info)
        try:
            res = self.eval(st, tree)
        finally:
            self.spec_mode -= 1
            self.spec_ctx = save_ctx
            st.cur = save_cur
            st.frames.pop(fid, None)
        if len(res) != 1:
            raise Unsupported('contract clause forks: %s' % clause)
        s, v = res[0]
        if s.exc is not None:
            raise Unsupported('contract clause raises: %s' % clause)
        return self.truth(st, v)

    def spec_val(self, st, text, env=None, result=None, old_st=None):
        """evaluate python spec text in state st -> Val (locals of the current frame are visible)"""
        env = dict(self.visible_env(st) if env is None else env)
        if result is not None:
            env['result'] = result
        tree = ast.parse(text.strip(), mode='eval').body
        info = self.cur_info
        fid = self.spec_frame(st, env, info)
        save, sc = st.cur, getattr(self, 'spec_ctx', None)
        st.cur = fid
        self.spec_mode += 1
        self.spec_ctx = (old_st or self.entry_state, env, info)
        try:
            res = self.eval(st, tree)
        finally:
            self.spec_mode -= 1
            self.spec_ctx = sc
            st.cur = save
            st.frames.pop(fid, None)
        if len(res) != 1 or res[0][0].exc is not None:
            raise Unsupported('spec expression forks: %s' % text)
        return res[0][1]

    def spec_call(self, st, e):
        name = e.func.id
        old_st, env, info = self.spec_ctx
        if name == 'old':
            if old_st is None:
                self.unsupported(e, 'old() outside a postcondition')
            o = old_st.copy()
            fid = self.spec_frame(o, dict(env, **getattr(self, 'qvars', {})), info)
            o.cur = fid
            res = self.eval(o, e.args[0])
            if len(res) != 1 or res[0][0].exc is not None:
                self.unsupported(e, 'old() expression forks')
            # facts learnt about old-state reads are sound in the current state too
            for f in res[0][0].pc[len(old_st.pc):]:
                st.assume(f)
            return [(st, res[0][1])]
        if name == 'is_new':
            # is_new(x): the object was allocated during the call (postconditions only)
            if old_st is None:
                self.unsupported(e, 'is_new() outside a postcondition')
            (s, v), = self.eval(st, e.args[0])
            if isinstance(v, VOpt):
                return [(st, VBool(z3.And(z3.Not(v.is_none()), v.some().t >= old_st.alloc)))]
            return [(st, VBool(v.t >= old_st.alloc))]
        if name == 'cur':
            # value of an expression over the *current* locals of the function under verification
            fin = getattr(self, 'cur_final', None)
            if fin is None:
                self.unsupported(e, 'cur() outside an exit clause')
            o = fin.copy()
            n0 = len(fin.pc)
            o.frames[o.cur].update(getattr(self, 'qvars', {}))
            res = self.eval(o, e.args[0])
            if len(res) != 1 or res[0][0].exc is not None:
                self.unsupported(e, 'cur() expression forks')
            for f in res[0][0].pc[n0:]:
                st.assume(f)
            return [(st, res[0][1])]
        if name == 'head':
            snap = st.ghost.get('$head')
            if len(e.args) == 2:
                snap = st.ghost.get('$head%d' % e.args[1].value)    # head(expr, k): state at the head of loop k
            if snap is None:
                self.unsupported(e, 'head() before any loop head was passed')
            o = snap.copy()
            n0 = len(snap.pc)
            o.frames[o.cur].update(getattr(self, 'qvars', {}))
            res = self.eval(o, e.args[0])
            if len(res) != 1 or res[0][0].exc is not None:
                self.unsupported(e, 'head() expression forks')
            for f in res[0][0].pc[n0:]:
                st.assume(f)
            return [(st, res[0][1])]
        if name in ('implies', 'iff'):
            (s, vals), = self.eval_many(st, e.args)
            a, b = self.truth(s, vals[0]), self.truth(s, vals[1])
            return [(s, VBool(z3.Implies(a, b) if name == 'implies' else a == b))]
        if name in ('forall', 'exists'):
            # forall(i, lo, hi, body)   lo <= i < hi       or  forall(i, body) over all ints
            var = e.args[0].id
            x = z3.Int(fresh_name('q_' + var))
            st.frames[st.cur][var] = VInt(x)
            if not hasattr(self, 'qvars'):
                self.qvars = {}
            saved_q = dict(self.qvars)
            self.qvars[var] = VInt(x)
            BINDER_DEPTH[0] += 1
            try:
                if len(e.args) == 4:
                    (s, vals), = self.eval_many(st, e.args[1:])
                    rng = z3.And(self.as_int(vals[0]) <= x, x < self.as_int(vals[1]))
                    body = self.truth(s, vals[2])
                else:
                    (s, vals), = self.eval_many(st, e.args[1:])
                    rng = z3.BoolVal(True)
                    body = self.truth(s, vals[0])
            finally:
                BINDER_DEPTH[0] -= 1
                st.frames[st.cur].pop(var, None)
                self.qvars = saved_q
            if name == 'forall':
                return [(st, VBool(z3.ForAll([x], z3.Implies(rng, body))))]
            return [(st, VBool(z3.Exists([x], z3.And(rng, body))))]
        self.unsupported(e, 'spec call')

    def havoc(self, st, spec, env, info, node, pre=None):
        """havoc one `modifies` entry (its location expression is evaluated in the pre-state `pre`)"""
        if spec == '*':
            for k in list(st.heap.keys()):
                self.heap_set(st, k, z3.Const(fresh_name('H:' + ':'.join(map(str, k))), st.heap[k].sort()))
            return
        if spec == '*dicts':
            # the content of any dictionary (callbacks that unregister things), no object field
            for k in list(st.heap.keys()):
                if k[0] in ('dd', 'dv'):
                    self.heap_set(st, k, z3.Const(fresh_name('H:' + ':'.join(map(str, k))), st.heap[k].sort()))
            return
        if spec == '*lists':
            for k in list(st.heap.keys()):
                if k[0] in ('ll', 'le', 'lj'):
                    self.heap_set(st, k, z3.Const(fresh_name('H:' + ':'.join(map(str, k))), st.heap[k].sort()))
            return
        if spec.startswith('field:'):
            attr = spec[6:]
            for k in list(st.heap.keys()):
                if k[0] == 'f' and k[1] == attr:
                    self.heap_set(st, k, z3.Const(fresh_name('H:' + attr), st.heap[k].sort()))
            return
        kind = 'field'
        text = spec
        if spec.startswith('dict:'):
            kind, text = 'dict', spec[5:]
        elif spec.startswith('list:'):
            kind, text = 'list', spec[5:]
        tree = ast.parse(text, mode='eval').body
        loc = pre.copy() if pre is not None else st
        fid = self.spec_frame(loc, env, info)
        save = loc.cur
        loc.cur = fid
        self.spec_mode += 1
        try:
            if kind == 'field':
                if not isinstance(tree, ast.Attribute):
                    self.unsupported(node, 'modifies entry %s' % spec)
                (s, base), = self.eval(loc, tree.value)
                if isinstance(base, VOpt):
                    base = base.some()
                ty = self.field_type(node, base, tree.attr)
                key = ('f', tree.attr, tyname(ty))
                arr = self.heap_get(st, key, z3.ArraySort(I, sort_of(ty)))
                self.heap_set(st, key, z3.Store(arr, base.t, fresh(ty, 'hv_' + tree.attr)))
            else:
                (s, v), = self.eval(loc, tree)
                absent = None
                if isinstance(v, VOpt):
                    absent = v.is_none()         # `dict:x` where x is None: nothing to modify
                    v = v.some()
                if kind == 'dict':
                    kd, dd = self._dd(st, v)
                    kv, dv = self._dv(st, v)
                    nd = z3.Store(dd, v.t, z3.Const(fresh_name('hv_dom'), z3.ArraySort(sort_of(v.k), Bo)))
                    nv = z3.Store(dv, v.t, z3.Const(fresh_name('hv_val'), z3.ArraySort(sort_of(v.k), sort_of(v.v))))
                    self.heap_set(st, kd, nd if absent is None else z3.If(absent, dd, nd))
                    self.heap_set(st, kv, nv if absent is None else z3.If(absent, dv, nv))
                else:
                    self.list_store(st, v, z3.Int(fresh_name('hv_len')), z3.Const(fresh_name('hv_arr'), z3.ArraySort(I, sort_of(v.e))))
        finally:
            self.spec_mode -= 1
            loc.cur = save
            loc.frames.pop(fid, None)

    def apply_contract(self, st, c, info, bound, node):
        self.used_contracts.add(c.target)
        caller = self.cur_contract.target if self.cur_contract else '?'
        env = dict(bound)
        # coerce arguments to the declared parameter types (so that optional parameters can be compared)
        for i, r in enumerate(c.requires):
            g = self.eval_clause(st, r, env, info)
            self.check(st, g, '%s/call:%s/requires[%d]' % (caller, info.qualname, i), note=str(r))
        old = st.copy()
        for m in c.modifies:
            self.havoc(st, m, env, info, node, pre=old)
        # the callee may have allocated objects: anything it returns or stores is below the new allocation mark
        a = z3.Int(fresh_name('alloc'))
        st.assume(a >= st.alloc)
        st.alloc = a
        result = VNone()
        if c.result is not None:
            result = self.fresh_val(st, c.result, 'ret_' + info.node.name)
        outcomes = []
        # exceptional outcomes
        for cls, cond in c.raises.items():
            s = st.copy()
            if cond != MAY:
                try:
                    pv = s.copy()
                    pv.heap = dict(old.heap)       # conditions of `raises` speak about the pre-state
                    n0 = len(pv.pc)
                    s.assume(self.eval_clause(pv, cond, env, info, old_st=old))
                    for f in pv.pc[n0:]:
                        s.assume(f)
                except Unsupported:
                    pass
            for nm, cl in c.raises_post.get(cls, {}).items():
                try:
                    s.assume(self.eval_clause(s, cl, env, info, old_st=old))
                except Unsupported:
                    pass    # clause speaks about the callee's internals (head/cur): not usable at a call site
            if feasible(s.pc):
                if c.ghost_exc is not None:
                    c.ghost_exc(self, s, env, cls)
                self.raise_exc(s, self.resolve_class_name(info, cls))
                if not c.verify and cls in ('Exception', 'BaseException'):
                    s.exc[1].exact = False      # an assumed contract that names the root class: any subclass may be raised
                outcomes.append((s, None))
        # normal outcome
        for cls, cond in c.raises.items():
            if cond != MAY:
                try:
                    pv = st.copy()
                    pv.heap = dict(old.heap)
                    n0 = len(pv.pc)
                    st.assume(z3.Not(self.eval_clause(pv, cond, env, info, old_st=old)))
                    for f in pv.pc[n0:]:
                        st.assume(f)
                except Unsupported:
                    pass
        for nm, cl in c.ensures.items():
            try:
                d = self.definitional(st, c, cl, env, info, old)
                if d is not None:
                    result = d
                    continue
                st.assume(self.eval_clause(st, cl, env, info, old_st=old, result=result))
            except Unsupported:
                pass    # clause about the callee's internals (head/cur): not usable at a call site
        if c.ghost is not None:
            c.ghost(self, st, env, result)
        if feasible(st.pc):
            outcomes.append((st, result))
        return outcomes

    def definitional(self, st, c, clause, env, info, old):
        """`result == EXPR` as a callee postcondition defines the result (no fresh symbol, no equation)"""
        if not isinstance(clause, str) or c.result is None:
            return None
        tree = ast.parse(clause.strip(), mode='eval').body
        if not (isinstance(tree, ast.Compare) and len(tree.ops) == 1 and isinstance(tree.ops[0], ast.Eq)
                and isinstance(tree.left, ast.Name) and tree.left.id == 'result'):
            return None
        if any(isinstance(m, ast.Name) and m.id == 'result' for m in ast.walk(tree.comparators[0])):
            return None
        v = self.spec_val(st, ast.unparse(tree.comparators[0]), env=env, old_st=old)
        if isinstance(v, VOpt) and c.result[0] != 'opt':
            v = v.some()
        try:
            return coerce(v, c.result)
        except Unsupported:
            return None

    def resolve_class_name(self, info, name):
        if ':' in name:
            return name
        if name in self.reg.classes:
            return self.reg.classes[name].key
        import builtins
        if isinstance(getattr(builtins, name, None), type) and issubclass(getattr(builtins, name), BaseException):
            return 'builtins:' + name
        # look in the function's module and in aiocoap.error
        for modname in ([info.module.name] if info else []) + ['aiocoap.error']:
            mi = self.prog.module(modname)
            if mi is not None:
                if name in mi.classes:
                    return '%s:%s' % (modname, name)
                if name in mi.imports and mi.imports[name][0] == 'from':
                    return '%s:%s' % (mi.imports[name][1], mi.imports[name][2])
        if name == 'struct.error':
            return 'struct:error'
        if name == 'CancelledError':
            return 'asyncio:CancelledError'
        raise Unsupported('cannot resolve exception class %s' % name)


class _ModuleScope:
    """minimal stand-in for FuncInfo when evaluating module/class level constants"""

    def __init__(self, module):
        self.module = module
        self.qualname = '<module>'
        self.key = module.name + ':<module>'


class SpecCtx:
    """Handed to callable contract clauses."""

    def __init__(self, ex, st, env, old_st, result):
        self.ex = ex
        self.st = st
        self.env = env
        self.old_st = old_st
        self.result = result

    def __getitem__(self, name):
        return self.env[name]

    def field(self, obj, attr, ty=None, old=False):
        st = self.old_st if old else self.st
        ty = ty or self.ex.field_type(None, obj, attr)
        return self.ex.read_field(st, obj, attr, ty)

    def ev(self, text, old=False, **extra):
        """evaluate python text in the clause environment -> Val"""
        st = self.old_st.copy() if old else self.st
        env = dict(self.env)
        env.update(extra)
        if self.result is not None:
            env['result'] = self.result
        tree = ast.parse(text.strip(), mode='eval').body
        fid = self.ex.spec_frame(st, env, self.ex.cur_info)
        save = st.cur
        st.cur = fid
        self.ex.spec_mode += 1
        sc = getattr(self.ex, 'spec_ctx', None)
        self.ex.spec_ctx = (self.old_st, env, self.ex.cur_info)
        try:
            (s, v), = self.ex.eval(st, tree)
        finally:
            self.ex.spec_mode -= 1
            self.ex.spec_ctx = sc
            st.cur = save
            st.frames.pop(fid, None)
        return v
