"""Expression evaluation."""
import ast
import enum
import types
import z3

from .values import *  # noqa

POW2 = {}


def is_const_int(t):
    return z3.is_int_value(t)


class ExprMixin:
    # ------------------------------------------------------------ conversions
    def lift(self, st, obj, node=None):
        """python object found in a really imported module -> Val"""
        if obj is None:
            return VNone()
        if isinstance(obj, bool):
            return VBool(obj)
        if isinstance(obj, enum.IntEnum):
            return VEnum('%s:%s' % (type(obj).__module__, type(obj).__qualname__), z3.IntVal(int(obj)))
        if isinstance(obj, enum.Enum):
            # plain enums: identify members by their index in the class
            cls = type(obj)
            return VEnum('%s:%s' % (cls.__module__, cls.__qualname__), z3.IntVal(list(cls).index(obj)))
        if isinstance(obj, int):
            return VInt(obj)
        if isinstance(obj, float):
            return VReal(obj)
        if isinstance(obj, bytes):
            return VBytes.const(obj)
        if isinstance(obj, str):
            return str_lit(obj)
        if isinstance(obj, tuple) and not hasattr(obj, '_fields'):
            return VTuple([self.lift(st, o, node) for o in obj])
        if isinstance(obj, types.ModuleType):
            return VModule(obj.__name__, obj)
        if isinstance(obj, type):
            return VFunc('class', pyobj=obj, key='%s:%s' % (obj.__module__, obj.__qualname__))
        if isinstance(obj, (types.FunctionType, types.MethodType)):
            fi = self.prog.func_by_pyobj(obj)
            if fi is not None:
                bound = None
                if isinstance(obj, types.MethodType) and isinstance(obj.__self__, type):
                    bound = VFunc('class', pyobj=obj.__self__, key='%s:%s' % (obj.__self__.__module__, obj.__self__.__qualname__))
                return VFunc('repo', info=fi, bound=bound)
            return VFunc('ext', name='%s.%s' % (obj.__module__, obj.__qualname__), bound=None)
        if isinstance(obj, (types.BuiltinFunctionType, types.BuiltinMethodType)):
            mod = getattr(obj, '__module__', None) or 'builtins'
            return VFunc('ext', name='%s.%s' % (mod, obj.__qualname__), bound=None)
        # other module-level singletons (sentinels, default instances): an opaque object identified by its name
        key = 'singleton:%s:%s' % (type(obj).__module__, getattr(obj, '_name', None) or type(obj).__qualname__)
        tab = self.__dict__.setdefault('_singletons', {})
        if id(obj) not in tab:
            tab[id(obj)] = VRef(z3.IntVal(-(len(tab) + 1)), None)     # negative references never collide with allocated objects
        return tab[id(obj)]

    def truth(self, st, v):
        if isinstance(v, VBool):
            return v.t
        if isinstance(v, VInt):
            return v.t != 0
        if isinstance(v, VReal):
            return v.t != 0
        if isinstance(v, VNone):
            return z3.BoolVal(False)
        if isinstance(v, VBytes):
            return v.len > 0
        if isinstance(v, VSeq):
            return v.len > 0
        if isinstance(v, VTuple):
            return z3.BoolVal(len(v.items) > 0)
        if isinstance(v, VOpt):
            return z3.And(z3.Not(v.is_none()), self.truth(st, v.some()))
        if isinstance(v, VList):
            return self.list_len(st, v) > 0
        if isinstance(v, VDict):
            c = self.dict_card(st, v)
            if not getattr(self, 'no_facts', 0):
                # an empty dictionary (cardinality 0) has no keys
                k = z3.Const(fresh_name('ek'), sort_of(v.k))
                st.fact(z3.ForAll([k], z3.Implies(z3.Select(self.dict_dom(st, v), k), c > 0)))
            return c > 0
        if isinstance(v, VRef) and v.cls is not None:
            d = self.reg.classes.get(v.cls) or self.reg.class_by_key.get(v.cls)
            if d is not None and d.short in getattr(self.reg, 'unknown_truthiness', ()):
                # an object supplied by the application (a resource / site implementation): its class may define __bool__ or
                # __len__, so whether it counts as true is not known
                return z3.Function('obj_truthy', I, Bo)(v.t)
        if isinstance(v, (VRef, VFunc)):
            return z3.BoolVal(True)
        if isinstance(v, VStr):
            if v.lit is not None:
                return z3.BoolVal(len(v.lit) > 0)
            return v.t != str_lit('').t       # exact: a str is false exactly when it is the empty string
        if isinstance(v, VBits):
            # an int viewed as its set of one-bits is non-zero iff some bit is set
            i = z3.Int(fresh_name('tb'))
            return z3.Exists([i], z3.And(i >= 0, v.at(i)))
        raise Unsupported('truthiness of %r' % (v,))

    def as_int(self, v, node=None):
        if isinstance(v, VInt):
            return v.t
        if isinstance(v, VBool):
            return z3.If(v.t, 1, 0)
        self.unsupported(node, 'expected int, got %r' % (v,))

    def is_numeric(self, v):
        return isinstance(v, (VInt, VBool, VReal))

    def num(self, v):
        """(term, is_real)"""
        if isinstance(v, VReal):
            return v.t, True
        if isinstance(v, VInt):
            return v.t, False
        if isinstance(v, VBool):
            return z3.If(v.t, 1, 0), False
        raise Unsupported('expected number, got %r' % (v,))

    # --------------------------------------------------------------- equality
    def eq(self, st, a, b, node=None):
        """python == as z3 Bool (no forks)"""
        if isinstance(a, VOpt) or isinstance(b, VOpt):
            if isinstance(a, VOpt) and isinstance(b, VOpt):
                return z3.Or(z3.And(a.is_none(), b.is_none()),
                             z3.And(z3.Not(a.is_none()), z3.Not(b.is_none()), self.eq(st, a.some(), b.some(), node)))
            o, x = (a, b) if isinstance(a, VOpt) else (b, a)
            if isinstance(x, VNone):
                return o.is_none()
            return z3.And(z3.Not(o.is_none()), self.eq(st, o.some(), x, node))
        if isinstance(a, VNone) or isinstance(b, VNone):
            return z3.BoolVal(isinstance(a, VNone) and isinstance(b, VNone))
        if self.is_numeric(a) and self.is_numeric(b):
            (x, xr), (y, yr) = self.num(a), self.num(b)
            if isinstance(a, VBool) and isinstance(b, VBool):
                return a.t == b.t
            if xr != yr:
                x = z3.ToReal(x) if not xr else x
                y = z3.ToReal(y) if not yr else y
            return x == y
        if isinstance(a, VBytes) and isinstance(b, VBytes):
            return self.bytes_eq(a, b)
        if isinstance(a, VBKey) or isinstance(b, VBKey):
            x = a if isinstance(a, VBKey) else coerce(a, BKEY)
            y = b if isinstance(b, VBKey) else coerce(b, BKEY)
            return x.t == y.t
        if isinstance(a, VStr) and isinstance(b, VStr):
            if a.lit is not None and b.lit is not None:
                return z3.BoolVal(a.lit == b.lit)
            return a.t == b.t
        if isinstance(a, VTuple) and isinstance(b, VTuple):
            if len(a.items) != len(b.items):
                return z3.BoolVal(False)
            return z3.And(*[self.eq(st, x, y, node) for x, y in zip(a.items, b.items)]) if a.items else z3.BoolVal(True)
        if isinstance(a, VSeq) and isinstance(b, VSeq) and a.e == b.e:
            return a.t == b.t
        if isinstance(a, VSeq) and isinstance(b, VTuple) or isinstance(a, VTuple) and isinstance(b, VSeq):
            s, t = (a, b) if isinstance(a, VSeq) else (b, a)
            conj = [s.len == len(t.items)]
            for n, it in enumerate(t.items):
                conj.append(self.eq(st, s.at(z3.IntVal(n)), it, node))
            return z3.And(*conj)
        if isinstance(a, (VRef, VDict, VList)) and isinstance(b, (VRef, VDict, VList)):
            if isinstance(a, VList) and isinstance(b, VList):
                # value equality of lists: same length and same elements
                if getattr(a, 'pending', False) or getattr(b, 'pending', False):
                    # comparison with an empty list literal
                    x, y = (b, a) if getattr(a, 'pending', False) else (a, b)
                    if getattr(x, 'pending', False):
                        return z3.BoolVal(True)
                    return z3.And(self.list_len(st, x) == 0, self.list_len(st, y) == 0)
                if a.e != b.e:
                    return z3.BoolVal(False)
                la, lb = self.list_len(st, a), self.list_len(st, b)
                j = z3.Int(fresh_name('lj'))
                return z3.And(la == lb, z3.ForAll([j], z3.Implies(z3.And(0 <= j, j < la), z3.Select(self.list_arr(st, a), j) == z3.Select(self.list_arr(st, b), j))))
            return a.t == b.t
        if isinstance(a, VList) and isinstance(b, VTuple) and not b.items or isinstance(b, VList) and isinstance(a, VTuple) and not a.items:
            return z3.BoolVal(False)
        if isinstance(a, VAny) and isinstance(b, VAny):
            return a.t == b.t
        if isinstance(a, VFunc) and isinstance(b, VFunc):
            if a is b:
                return z3.BoolVal(True)
            return a.t == b.t
        # values of different kinds never compare equal in the subset we support
        kinds = {type(a).__name__, type(b).__name__}
        if kinds & {'VAny'}:
            self.unsupported(node, 'equality on opaque values %r %r' % (a, b))
        return z3.BoolVal(False)

    def bytes_eq(self, a, b):
        return a.t == b.t

    def same(self, st, a, b, node=None):
        """python `is`"""
        def is_false(v):
            return isinstance(v, VBool) and z3.is_false(z3.simplify(v.t))
        for x, y in ((a, b), (b, a)):
            if isinstance(x, VOpt) and x.inner[0] in ('list', 'dict') and is_false(y) and getattr(self.reg, 'false_as_none', None):
                # a field declared `container | False` is modelled as an optional container, None standing for False
                return x.is_none()
        if isinstance(a, VOpt) or isinstance(b, VOpt) or isinstance(a, VNone) or isinstance(b, VNone):
            return self.eq(st, a, b, node)
        if isinstance(a, (VInt, VBool)) and isinstance(b, (VInt, VBool)):
            return self.eq(st, a, b, node)   # enum members / small ints / True False
        if isinstance(a, (VRef, VDict, VList, VFunc)) and isinstance(b, (VRef, VDict, VList, VFunc)):
            return z3.BoolVal(True) if a is b else a.t == b.t
        return self.eq(st, a, b, node)

    # ------------------------------------------------------------- sequences
    def norm_index(self, idx, length):
        return z3.If(idx < 0, idx + length, idx)

    def bytes_index(self, st, v, idx, node):
        n = self.norm_index(idx, v.len)
        ok_st, ex_st = self.guard(st, z3.And(n >= 0, n < v.len), 'builtins:IndexError')
        out = []
        if ok_st is not None:
            t = z3.simplify(v.at(z3.simplify(n)))
            self.byte_fact(ok_st, t)
            out.append((ok_st, VInt(t)))
        if ex_st is not None:
            out.append((ex_st, None))
        return out

    def clamp(self, x, lo, hi):
        return z3.If(x < lo, lo, z3.If(x > hi, hi, x))

    def slice_bounds(self, lo, hi, length):
        """python slice semantics for step 1; lo/hi are z3 ints or None"""
        if lo is None:
            a = z3.IntVal(0)
        else:
            a = self.clamp(z3.If(lo < 0, lo + length, lo), z3.IntVal(0), length)
        if hi is None:
            b = length
        else:
            b = self.clamp(z3.If(hi < 0, hi + length, hi), z3.IntVal(0), length)
        n = z3.If(b > a, b - a, 0)
        return z3.simplify(a), z3.simplify(n)

    def bytes_slice(self, v, lo, hi):
        a, n = self.slice_bounds(lo, hi, v.len)
        # slices of slices are flattened to (root string, total offset, length) so that the same bytes reached
        # along different routes get the same name
        root, off = getattr(v, 'root', None) or (v, z3.IntVal(0))
        tot = z3.simplify(off + a)
        key = ('slice', root.key, tot.get_id(), n.get_id()) if getattr(root, 'key', None) is not None else None
        r = VBytes(n, lambda i, a=a, v=v: v.at(z3.simplify(i + a)), key=key)
        r.root = (root, tot)
        return r

    def bytes_concat(self, a, b):
        if is_const_int(a.len) and a.len.as_long() == 0:
            return b
        if is_const_int(b.len) and b.len.as_long() == 0:
            return a
        return VBytes(z3.simplify(a.len + b.len), lambda i, a=a, b=b: z3.If(i < a.len, a.at(i), b.at(z3.simplify(i - a.len))))

    def seq_slice(self, v, lo, hi):
        a, n = self.slice_bounds(lo, hi, v.len)
        return VSeq(n, lambda i, a=a, v=v: v.at(z3.simplify(i + a)), v.e)

    def seq_concat(self, a, b):
        if a.e != b.e:
            raise Unsupported('concatenation of sequences of different element types')
        e = a.e
        return VSeq(z3.simplify(a.len + b.len),
                    lambda i: from_term(e, z3.If(i < a.len, to_term(a.at(i)), to_term(b.at(z3.simplify(i - a.len))))), e)

    def list_as_seq(self, st, l):
        n = self.list_len(st, l)
        arr = self.list_arr(st, l)
        e = l.e
        return VSeq(n, lambda i: from_term(e, z3.Select(arr, i)), e)

    # --------------------------------------------------------------- the core
    def eval_many(self, st, exprs):
        res = [(st, [])]
        for e in exprs:
            nxt = []
            for s, vals in res:
                if s.exc is not None:
                    nxt.append((s, vals))
                    continue
                for s2, v in self.eval(s, e):
                    nxt.append((s2, vals + [v]))
            res = nxt
        return res

    def eval(self, st, e):
        m = getattr(self, 'e_' + type(e).__name__, None)
        if m is None:
            self.unsupported(e, 'expression kind %s' % type(e).__name__)
        return m(st, e)

    def e_Constant(self, st, e):
        v = e.value
        if v is None:
            return [(st, VNone())]
        if isinstance(v, bool):
            return [(st, VBool(v))]
        if isinstance(v, int):
            return [(st, VInt(v))]
        if isinstance(v, float):
            return [(st, VReal(v))]
        if isinstance(v, bytes):
            return [(st, VBytes.const(v))]
        if isinstance(v, str):
            return [(st, str_lit(v))]
        if v is Ellipsis:
            return [(st, VNone())]
        self.unsupported(e, 'constant')

    def e_Name(self, st, e):
        if self.spec_mode and e.id in self.reg.specfuncs and getattr(e, '_is_call_func', False):
            # in contract text a spec function is not shadowed by a local of the program that happens to carry its name
            return [(st, VFunc('spec', name=e.id))]
        v, _ = st.lookup(e.id)
        if v is not None:
            return [(st, v)]
        info = st.info()
        node = getattr(info, 'node', None)
        if node is not None and not self.spec_mode:
            loc = getattr(info, '_assigned', None)
            if loc is None:
                from .exec_stmt import assigned_names
                loc = assigned_names(node.body) if hasattr(node, 'body') and isinstance(node.body, list) else set()
                try:
                    info._assigned = loc
                except Exception:
                    pass
            if e.id in loc:
                # a local variable that is not bound on this path
                return [(self.raise_exc(st, 'builtins:UnboundLocalError'), None)]
        return [(st, self.global_name(st, e.id, e))]

    def global_name(self, st, name, node):
        if name in self.reg.specfuncs:
            return VFunc('spec', name=name)
        info = st.info()
        if self.spec_mode and name in ('result', 'implies', 'old', 'forall', 'exists'):
            self.unsupported(node, 'spec keyword %s used as value' % name)
        if info is not None:
            mi = info.module
            ov = getattr(self.reg, 'global_values', {}).get('%s:%s' % (mi.name, name))
            if ov is not None:
                # a module-level object the contracts give an abstract value (e.g. a sentinel)
                return ov(self, st) if callable(ov) else ov
            if name in mi.funcs and '.' not in name:
                return VFunc('repo', info=mi.funcs[name], bound=None)
            pm = mi.pymod()
            if pm is not None and hasattr(pm, name):
                return self.lift(st, getattr(pm, name), node)
            if name in mi.classes:
                return VFunc('class', pyobj=None, key='%s:%s' % (mi.name, name))
            if name in mi.imports:
                imp = mi.imports[name]
                if imp[0] == 'module':
                    return VModule(imp[1], None)
                m2 = self.prog.module(imp[1])
                if m2 is not None:
                    if imp[2] in m2.funcs:
                        return VFunc('repo', info=m2.funcs[imp[2]], bound=None)
                    if imp[2] in m2.classes:
                        return VFunc('class', pyobj=None, key='%s:%s' % (m2.name, imp[2]))
                    if imp[2] in m2.assigns:
                        try:
                            return self.lift(st, ast.literal_eval(m2.assigns[imp[2]]), node)
                        except Exception:
                            pass
                if imp[0] != 'module' and self.prog.is_repo_module(imp[1]):
                    # the importing module cannot be imported here (absent third-party dependency) but the module the name
                    # comes from can: constants such as aiocoap.numbers.POST are read from the live module
                    try:
                        import importlib
                        obj = getattr(importlib.import_module(imp[1]), imp[2])
                        if isinstance(obj, (int, bytes, str, bool, float)) or type(obj).__module__.startswith('aiocoap.numbers'):
                            return self.lift(st, obj, node)
                    except Exception:
                        pass
                return VFunc('ext', name='%s.%s' % (imp[1], imp[2]), bound=None)
            if name in mi.assigns:
                try:
                    return self.lift(st, ast.literal_eval(mi.assigns[name]), node)
                except Exception:
                    pass
                expr = mi.assigns[name]
                if not any(isinstance(m, (ast.Name, ast.Call, ast.Attribute)) for m in ast.walk(expr)):
                    # a constant expression such as 2**40 - 1 (modules that cannot be imported here are read from the AST only)
                    try:
                        return self.lift(st, eval(compile(ast.Expression(expr), '<const>', 'eval'), {'__builtins__': {}}), node)
                    except Exception:
                        pass
        import builtins
        if hasattr(builtins, name):
            obj = getattr(builtins, name)
            if isinstance(obj, type):
                return VFunc('class', pyobj=obj, key='builtins:%s' % name)
            return VFunc('ext', name='builtins.%s' % name, bound=None)
        self.unsupported(node, 'unresolved name %s' % name)

    def e_Tuple(self, st, e):
        if any(isinstance(x, ast.Starred) for x in e.elts):
            self.unsupported(e, 'starred tuple')
        return [(s, VTuple(vals) if s.exc is None else None) for s, vals in self.eval_many(st, e.elts)]

    def e_List(self, st, e):
        out = []
        for s, vals in self.eval_many(st, e.elts):
            if s.exc is not None:
                out.append((s, None))
                continue
            ety = self.hint_type(e) or (vals[0].ty if vals else None)
            if ety is not None and ety[0] == 'enum':
                ety = INT
            if ety is not None and self.hint_type(e) is None and any(v.ty[0] != ety[0] for v in vals if not isinstance(v, VEnum)):
                # a list literal of values of different kinds (e.g. a CBOR structure): an immutable tuple value
                out.append((s, VTuple(vals)))
                continue
            if ety is None:
                # element type fixed at first append
                l = VList(None, None)
                l.pending = True
                r = s.alloc
                s.alloc = s.alloc + 1
                l.t = r
                kl, ll = self._ll(s)
                self.heap_set(s, kl, z3.Store(ll, r, 0))
                self.set_list_joined(s, l, VBytes.const(b''))
                out.append((s, l))
            else:
                out.append((s, self.new_list(s, ety, vals)))
        return out

    def hint_type(self, node):
        """type hints for empty container literals: given by the contract under 'hints' keyed by line-independent text"""
        c = self.cur_contract
        hints = getattr(c, 'hints', None) if c else None
        return None if not hints else hints.get(ast.unparse(node))

    def e_Dict(self, st, e):
        if e.keys and all(isinstance(k, ast.Constant) and isinstance(k.value, str) for k in e.keys):
            # a small record with literal string keys (e.g. the JSON object written to a file): kept as a python-side
            # record value; only literal keys can be read or added
            out = []
            for s, vals in self.eval_many(st, e.values):
                if s.exc is not None:
                    out.append((s, None))
                else:
                    out.append((s, VRec({k.value: v for k, v in zip(e.keys, vals)})))
            return out
        if e.keys:
            self.unsupported(e, 'non-empty dict literal')
        ty = self.hint_type(e)
        if ty is None:
            ty, self._literal_hint = getattr(self, '_literal_hint', None), None
        if ty is None:
            self.unsupported(e, 'dict literal without declared type (add `hints`)')
        return [(st, self.new_dict(st, ty[1], ty[2], ty[3] if len(ty) > 3 else None))]

    def e_JoinedStr(self, st, e):
        # f-strings: an opaque string (content irrelevant to every contract; A-STR)
        return [(st, VStr(fresh(STR, 'fstr')))]

    def register_callable(self, st, f):
        """give a callable value created on this path an identity (a fresh reference) so that it can be
        stored in the heap and recognised when it is read back and called"""
        r = st.alloc
        st.alloc = st.alloc + 1
        f.t = r
        reg = dict(st.ghost.get('$callables', {}))
        reg[z3.simplify(r).get_id()] = f
        st.ghost['$callables'] = reg
        st.frames[st.cur]['$captured'] = True
        return f

    def e_Lambda(self, st, e):
        # default values of lambda parameters are evaluated at definition time
        defaults = {}
        a = e.args
        names = [x.arg for x in a.posonlyargs + a.args]
        cur = st
        for name, d in list(zip(names[len(names) - len(a.defaults):], a.defaults)) + \
                [(k.arg, d) for k, d in zip(a.kwonlyargs, a.kw_defaults) if d is not None]:
            res = self.eval(cur, d)
            if len(res) != 1 or res[0][0].exc is not None:
                self.unsupported(e, 'lambda default forks')
            cur, defaults[name] = res[0]
        f = VFunc('closure', node=e, frame=cur.cur, info=cur.info(), defaults=defaults)
        return [(cur, self.register_callable(cur, f))]

    def e_IfExp(self, st, e):
        if self.spec_mode:
            from .exec_call import ite_val
            (s, vals), = self.eval_many(st, [e.test, e.body, e.orelse])
            return [(s, ite_val(self.truth(s, vals[0]), vals[1], vals[2]))]
        out = []
        for s, c in self.eval(st, e.test):
            if s.exc is not None:
                out.append((s, None))
                continue
            st_t, st_f = self.branch(s, self.truth(s, c))
            if st_t is not None:
                out.extend(self.eval(st_t, e.body))
            if st_f is not None:
                out.extend(self.eval(st_f, e.orelse))
        return out

    def e_BoolOp(self, st, e):
        is_and = isinstance(e.op, ast.And)
        res = self.eval(st, e.values[0])
        for nxt in e.values[1:]:
            out = []
            for s, v in res:
                if s.exc is not None:
                    out.append((s, None))
                    continue
                tr = self.truth(s, v)
                if self.spec_mode:
                    # total, no forks: combine as booleans (a literally decided left side short-circuits)
                    trs = z3.simplify(tr)
                    if (z3.is_false(trs) and is_and) or (z3.is_true(trs) and not is_and):
                        out.append((s, VBool(trs)))
                        continue
                    for s2, v2 in self.eval(s, nxt):
                        t2 = self.truth(s2, v2)
                        out.append((s2, VBool(z3.And(tr, t2) if is_and else z3.Or(tr, t2))))
                    continue
                st_t, st_f = self.branch(s, tr)
                go, stop = (st_t, st_f) if is_and else (st_f, st_t)
                if stop is not None:
                    out.append((stop, v))
                if go is not None:
                    out.extend(self.eval(go, nxt))
            res = out
        return res

    def e_UnaryOp(self, st, e):
        out = []
        for s, v in self.eval(st, e.operand):
            if s.exc is not None:
                out.append((s, None))
                continue
            if isinstance(e.op, ast.Not):
                out.append((s, VBool(z3.simplify(z3.Not(self.truth(s, v))))))
            elif isinstance(e.op, ast.USub):
                t, r = self.num(v)
                out.append((s, VReal(-t) if r else VInt(z3.simplify(-t))))
            elif isinstance(e.op, ast.UAdd):
                out.append((s, v))
            else:
                self.unsupported(e, 'unary operator')
        return out

    def e_Compare(self, st, e):
        out = []
        for s, vals in self.eval_many(st, [e.left] + list(e.comparators)):
            if s.exc is not None:
                out.append((s, None))
                continue
            # ordering comparisons on optionals: None raises TypeError (total in spec mode)
            need = set()
            for i, op in enumerate(e.ops):
                if isinstance(op, (ast.Lt, ast.LtE, ast.Gt, ast.GtE)):
                    need.update((i, i + 1))
                elif isinstance(op, (ast.In, ast.NotIn)):
                    need.add(i + 1)      # `x in None` raises TypeError
            cands = [(s, list(vals))]
            presence = []
            for i in sorted(need):
                if not isinstance(vals[i], VOpt):
                    continue
                nxt = []
                for s1, vs in cands:
                    if s1.exc is not None:
                        nxt.append((s1, vs))
                        continue
                    if self.spec_mode:
                        # in specifications an ordering comparison with an absent value is false
                        presence.append(z3.Not(vs[i].is_none()))
                        vs[i] = vs[i].some()
                        nxt.append((s1, vs))
                        continue
                    for s2, inner in self.force(s1, vs[i], e):
                        v2 = list(vs)
                        v2[i] = inner
                        nxt.append((s2, v2))
                cands = nxt
            for s1, vs in cands:
                if s1.exc is not None:
                    out.append((s1, None))
                    continue
                conj = list(presence)
                for op, a, b in zip(e.ops, vs, vs[1:]):
                    conj.append(self.compare(s1, op, a, b, e))
                out.append((s1, VBool(z3.simplify(z3.And(*conj)) if len(conj) > 1 else z3.simplify(conj[0]))))
        return out

    def compare(self, st, op, a, b, node):
        if isinstance(op, ast.Eq):
            return self.eq(st, a, b, node)
        if isinstance(op, ast.NotEq):
            return z3.Not(self.eq(st, a, b, node))
        if isinstance(op, ast.Is):
            return self.same(st, a, b, node)
        if isinstance(op, ast.IsNot):
            return z3.Not(self.same(st, a, b, node))
        if isinstance(op, (ast.In, ast.NotIn)):
            r = self.contains(st, b, a, node)
            return r if isinstance(op, ast.In) else z3.Not(r)
        if isinstance(a, VOpt) or isinstance(b, VOpt):
            self.unsupported(node, 'ordering comparison on optional value')
        (x, xr), (y, yr) = self.num(a), self.num(b)
        if xr != yr:
            x = z3.ToReal(x) if not xr else x
            y = z3.ToReal(y) if not yr else y
        if isinstance(op, ast.Lt):
            return x < y
        if isinstance(op, ast.LtE):
            return x <= y
        if isinstance(op, ast.Gt):
            return x > y
        if isinstance(op, ast.GtE):
            return x >= y
        self.unsupported(node, 'comparison operator')

    def contains(self, st, container, item, node):
        if isinstance(container, VRef) and self.opaque_decl(container) is not None:
            h = self.reg.externals.get('%s.__contains__' % self.opaque_decl(container).short)
            if h is not None:
                return h(self, st, container, item)
        if isinstance(container, VDict):
            has = self.dict_has(st, container, item)
            self.dict_has_fact(st, container, has)
            return has
        if isinstance(container, VTuple):
            if not container.items:
                return z3.BoolVal(False)
            return z3.Or(*[self.eq(st, item, x, node) for x in container.items])
        if isinstance(container, VList):
            container = self.list_as_seq(st, container)
        if isinstance(container, VSeq):
            j = z3.Int(fresh_name('cj'))
            return z3.Exists([j], z3.And(0 <= j, j < container.len, self.eq(st, container.at(j), item, node)))
        if isinstance(container, VBytes) and isinstance(item, VInt):
            j = z3.Int(fresh_name('cj'))
            return z3.Exists([j], z3.And(0 <= j, j < container.len, container.at(j) == item.t))
        if isinstance(container, VStr) and isinstance(item, VStr):
            return z3.Function('str_contains', StrS, StrS, Bo)(container.t, item.t)
        self.unsupported(node, '`in` on %r' % (container,))

    def e_BinOp(self, st, e):
        out = []
        for s, vals in self.eval_many(st, [e.left, e.right]):
            if s.exc is not None:
                out.append((s, None))
                continue
            out.extend(self.binop(s, e.op, vals[0], vals[1], e))
        return out

    DUNDER = {ast.Add: '__add__', ast.Sub: '__sub__', ast.Mult: '__mul__'}

    def binop(self, st, op, a, b, node):
        if isinstance(a, VEnum) and type(op) in self.DUNDER and not self.spec_mode:
            f = self.find_method(a.cls, self.DUNDER[type(op)])
            if f is not None:
                return self.call_repo(st, f, [a, b], {}, node)
        if isinstance(a, VBits) or isinstance(b, VBits):
            return self.bits_op(st, op, a, b, node)
        # sequences
        if isinstance(op, ast.Add):
            if isinstance(a, VBytes) and isinstance(b, VBytes):
                return [(st, self.bytes_concat(a, b))]
            if isinstance(a, VTuple) and isinstance(b, VTuple):
                return [(st, VTuple(a.items + b.items))]
            if isinstance(a, (VSeq, VTuple)) and isinstance(b, (VSeq, VTuple)):
                ety = a.e if isinstance(a, VSeq) else b.e
                return [(st, self.seq_concat(coerce(a, ('seq', ety)), coerce(b, ('seq', ety))))]
            if isinstance(a, VStr) and isinstance(b, VStr):
                if a.lit is not None and b.lit is not None:
                    return [(st, str_lit(a.lit + b.lit))]
                return [(st, VStr(z3.Function('str_concat', StrS, StrS, StrS)(a.t, b.t)))]
        if isinstance(op, ast.Mod) and isinstance(a, VStr):
            items = b.items if isinstance(b, VTuple) else [b]
            if a.lit is not None and items and all(type(x) in (VStr, VInt) for x in items):
                # a literal format applied to strings / ints: a function of the arguments (one uninterpreted function per format text)
                f = z3.Function('fmt:' + a.lit, *([StrS if type(x) is VStr else I for x in items] + [StrS]))
                return [(st, VStr(f(*[x.t for x in items])))]
            return [(st, VStr(fresh(STR, 'fmt')))]
        if isinstance(op, ast.Mult) and ((isinstance(a, VBytes) and self.is_numeric(b)) or (isinstance(b, VBytes) and self.is_numeric(a))):
            # repetition of a one-byte string: max(n, 0) copies of that byte (longer patterns are not modelled)
            pat, cnt = (a, b) if isinstance(a, VBytes) else (b, a)
            ln = z3.simplify(pat.len)
            if not (is_const_int(ln) and ln.as_long() == 1):
                self.unsupported(node, 'repetition of a byte string that is not one byte long')
            n = self.as_int(cnt, node)
            byte = z3.simplify(pat.at(z3.IntVal(0)))
            return [(st, VBytes(z3.simplify(z3.If(n > 0, n, 0)), lambda i, byte=byte: byte))]
        if isinstance(op, ast.BitXor) and isinstance(a, VBool) and isinstance(b, VBool):
            return [(st, VBool(z3.Xor(a.t, b.t)))]
        if isinstance(op, ast.Div) and isinstance(a, (VRef, VAny)) and a.ty[0] in ('ref', 'any'):
            # pathlib-style division: handled by an external contract
            return self.call_external(st, 'operator.truediv', [a, b], {}, node)
        if not (self.is_numeric(a) and self.is_numeric(b)):
            if isinstance(a, VOpt) or isinstance(b, VOpt):
                # arithmetic on an optional: fork on None (TypeError)
                res = []
                for s2, a2 in self.force(st, a, node):
                    if s2.exc is not None:
                        res.append((s2, None))
                        continue
                    for s3, b2 in self.force(s2, b, node):
                        if s3.exc is not None:
                            res.append((s3, None))
                        else:
                            res.extend(self.binop(s3, op, a2, b2, node))
                return res
            if isinstance(a, VNone) or isinstance(b, VNone):
                return [(self.raise_exc(st, 'builtins:TypeError'), None)]
            self.unsupported(node, 'binary operator on %r, %r' % (a, b))
        (x, xr), (y, yr) = self.num(a), self.num(b)
        if xr or yr or isinstance(op, ast.Div):
            x = z3.ToReal(x) if not xr else x
            y = z3.ToReal(y) if not yr else y
            if isinstance(op, ast.Add):
                return [(st, VReal(x + y))]
            if isinstance(op, ast.Sub):
                return [(st, VReal(x - y))]
            if isinstance(op, ast.Mult):
                return [(st, VReal(x * y))]
            if isinstance(op, ast.Div):
                ok, ex = self.guard(st, y != 0, 'builtins:ZeroDivisionError')
                res = []
                if ok is not None:
                    res.append((ok, VReal(x / y)))
                if ex is not None:
                    res.append((ex, None))
                return res
            if isinstance(op, ast.Pow) and not yr:
                pass
            self.unsupported(node, 'real arithmetic operator')
        if isinstance(op, ast.Add):
            return [(st, VInt(z3.simplify(x + y)))]
        if isinstance(op, ast.Sub):
            r = VInt(z3.simplify(x - y))
            if getattr(a, 'single_bit', None) is not None and is_const_int(y) and y.as_long() == 1:
                r.low_mask = a.single_bit        # (1 << k) - 1: remembered for use as a mask of the k low bits
            return [(st, r)]
        if isinstance(op, ast.Mult):
            return [(st, VInt(z3.simplify(x * y)))]
        if isinstance(op, (ast.FloorDiv, ast.Mod)):
            ok, ex = self.guard(st, y != 0, 'builtins:ZeroDivisionError')
            res = []
            if ok is not None:
                # python floor division / modulo (sign of divisor); z3 div/mod are euclidean
                if is_const_int(y) and y.as_long() > 0:
                    q, r = x / y, x % y
                else:
                    q = z3.If(y > 0, x / y, (-x) / (-y))
                    r = z3.If(y > 0, x % y, -((-x) % (-y)))
                res.append((ok, VInt(z3.simplify(q if isinstance(op, ast.FloorDiv) else r))))
            if ex is not None:
                res.append((ex, None))
            return res
        if isinstance(op, (ast.LShift, ast.RShift)):
            ok, ex = self.guard(st, y >= 0, 'builtins:ValueError')
            res = []
            if ok is not None:
                if is_const_int(y):
                    p = z3.IntVal(2 ** y.as_long())
                else:
                    p = self.pow2(ok, y)
                r = VInt(z3.simplify(x * p if isinstance(op, ast.LShift) else x / p))
                if isinstance(op, ast.LShift) and is_const_int(x) and x.as_long() == 1:
                    r.single_bit = y          # 1 << k: remembered for use as a bit set
                res.append((ok, r))
            if ex is not None:
                res.append((ex, None))
            return res
        if isinstance(op, ast.BitAnd):
            return [(st, VInt(self.bitand_val(st, a, b, node)))]
        if isinstance(op, ast.BitOr):
            return [(st, VInt(self.bitor(st, x, y, node)))]
        if isinstance(op, ast.Pow):
            if is_const_int(x) and x.as_long() == 2:
                # spec functions are total over the integers they are applied to (as before: no fork inside a specification)
                nonneg, neg = (st, None) if self.spec_mode else self.branch(st, y >= 0)
                res = []
                if nonneg is not None:
                    res.append((nonneg, VInt(z3.IntVal(2 ** y.as_long()) if is_const_int(y) else self.pow2(nonneg, y))))
                if neg is not None:
                    # a negative exponent gives the float 1 / 2**(-e) (exact in binary floating point down to 2**-1074; A-REAL)
                    d = z3.IntVal(2 ** (-y.as_long())) if is_const_int(y) else self.pow2(neg, -y)
                    res.append((neg, VReal(1 / z3.ToReal(d))))
                return res
            if is_const_int(x) and is_const_int(y) and y.as_long() >= 0:
                return [(st, VInt(x.as_long() ** y.as_long()))]
            self.unsupported(node, 'power operator')
        self.unsupported(node, 'binary operator %s' % type(op).__name__)

    def bits_op(self, st, op, a, b, node):
        """ints used as bit sets: >> k, << k, | (1 << k), & 1"""
        if isinstance(op, (ast.RShift, ast.LShift)) and isinstance(a, VBits) and isinstance(b, (VInt, VBool)):
            k = self.as_int(b, node)
            ok, ex_ = self.guard(st, k >= 0, 'builtins:ValueError')
            res = []
            if ok is not None:
                if isinstance(op, ast.RShift):
                    res.append((ok, VBits(at=lambda i, a=a, k=k: z3.And(i >= 0, a.at(i + k)))))
                else:
                    res.append((ok, VBits(at=lambda i, a=a, k=k: z3.And(i >= k, a.at(i - k)))))
            if ex_ is not None:
                res.append((ex_, None))
            return res
        if isinstance(op, ast.BitAnd):
            x, y = (a, b) if isinstance(a, VBits) else (b, a)
            if isinstance(y, VInt) and z3.is_int_value(z3.simplify(y.t)) and z3.simplify(y.t).as_long() == 1:
                return [(st, VInt(z3.If(x.at(z3.IntVal(0)), 1, 0)))]
        if isinstance(op, ast.BitOr):
            x, y = (a, b) if isinstance(a, VBits) else (b, a)
            try:
                y = coerce(y, BITS)
            except Unsupported:
                self.unsupported(node, 'bit-or of a bit set with a symbolic int')
            return [(st, VBits(at=lambda i, x=x, y=y: z3.Or(x.at(i), y.at(i))))]
        self.unsupported(node, 'operation on an int used as bit set')

    def pow2(self, st, e):
        """2**e for symbolic e >= 0: uninterpreted function with the defining facts for the
        values 0..64 and monotonicity/positivity instantiated at e."""
        f = z3.Function('pow2', I, I)
        e = z3.simplify(e)
        k = ('pow2', e.get_id())
        if k not in st.facts_seen:
            st.facts_seen.add(k)
            facts = [f(e) >= 1]
            for n in range(0, 41):
                facts.append(z3.Implies(e == n, f(e) == 2 ** n))
            facts.append(z3.Implies(e > 40, f(e) > 2 ** 40))
            st.fact(*facts)
        return f(e)

    def bitand_val(self, st, a, b, node):
        """x & (1 << k): the k-th bit of x, in place"""
        for u, v in ((a, b), (b, a)):
            k = getattr(v, 'single_bit', None)
            if k is not None:
                x = self.as_int(u, node)
                p = self.pow2(st, k) if not is_const_int(k) else z3.IntVal(2 ** k.as_long())
                return z3.simplify(((x / p) % 2) * p)
            k = getattr(v, 'low_mask', None)
            if k is not None:
                # x & ((1 << k) - 1): the k low bits of a non-negative x (of any x in two's complement: Python's % is floor-mod)
                x = self.as_int(u, node)
                p = self.pow2(st, k) if not is_const_int(k) else z3.IntVal(2 ** k.as_long())
                return z3.simplify(x % p)
        return self.bitand(st, self.as_int(a, node), self.as_int(b, node), node)

    def bitand(self, st, x, y, node):
        # x & mask with constant mask of the form 2^k-1 (low bits), or high-bit masks of a byte/known-range value
        if is_const_int(x) and not is_const_int(y):
            x, y = y, x
        if is_const_int(y):
            m = y.as_long()
            if is_const_int(x):
                return z3.IntVal(x.as_long() & m)
            if m >= 0 and (m & (m + 1)) == 0:       # 2^k - 1
                return z3.simplify(x % (m + 1))
            if m > 0:
                # contiguous run of ones  (e.g. 0xF0, 0x30, 0xC0, 0x08): ((x >> lo) mod 2^w) << lo
                lo = (m & -m).bit_length() - 1
                run = m >> lo
                if (run & (run + 1)) == 0:
                    return z3.simplify(((x / (2 ** lo)) % (run + 1)) * (2 ** lo))
        self.unsupported(node, 'bitwise and with non-mask operand')

    def bitor(self, st, x, y, node):
        if is_const_int(x) and is_const_int(y):
            return z3.IntVal(x.as_long() | y.as_long())
        # a | b == a + b when the operands occupy disjoint bit ranges: a % 2^k == 0 and 0 <= b < 2^k
        from .solve import prove
        for a, b in ((x, y), (y, x)):
            for k in (4, 8, 1, 2, 3, 5, 6, 7, 16):
                v, _, _, _ = prove(st.pc, z3.And(a % (2 ** k) == 0, a >= 0, b >= 0, b < 2 ** k), timeout=2000)
                if v == 'proved':
                    return z3.simplify(a + b)
        self.unsupported(node, 'bitwise or of operands whose bit ranges are not provably disjoint')

    def force(self, st, v, node, exc='builtins:TypeError'):
        """case split an optional: [(st, inner)] plus a raising state for None"""
        if not isinstance(v, VOpt):
            return [(st, v)]
        ok, ex = self.guard(st, z3.Not(v.is_none()), exc)
        out = []
        if ok is not None:
            out.append((ok, self.wf(ok, v.some())))
        if ex is not None:
            out.append((ex, None))
        return out

    def e_Subscript(self, st, e):
        out = []
        for s, base in self.eval(st, e.value):
            if s.exc is not None:
                out.append((s, None))
                continue
            for s1, base1 in self.force(s, base, e):
                if s1.exc is not None:
                    out.append((s1, None))
                    continue
                out.extend(self.subscript(s1, base1, e.slice, e))
        return out

    def eval_opt_int(self, st, e):
        if e is None:
            return [(st, None)]
        return [(s, (self.as_int(v, e) if s.exc is None else None)) for s, v in self.eval(st, e)]

    def subscript(self, st, base, sl, node):
        out = []
        if isinstance(sl, ast.Slice):
            if sl.step is not None:
                self.unsupported(node, 'slice step')
            for s, lo in self.eval_opt_int(st, sl.lower):
                if s.exc is not None:
                    out.append((s, None))
                    continue
                for s2, hi in self.eval_opt_int(s, sl.upper):
                    if s2.exc is not None:
                        out.append((s2, None))
                        continue
                    if isinstance(base, VBytes):
                        out.append((s2, self.bytes_slice(base, lo, hi)))
                    elif isinstance(base, VSeq):
                        out.append((s2, self.seq_slice(base, lo, hi)))
                    elif isinstance(base, VList):
                        sq = self.seq_slice(self.list_as_seq(s2, base), lo, hi)
                        nl = self.new_list(s2, base.e)
                        self.list_store(s2, nl, sq.len, z3.Select(sort_of(sq.ty).accessor(0, 1)(sq.t), 0) if False else self._seq_arr(sq))
                        out.append((s2, nl))
                    elif isinstance(base, VStr):
                        out.append((s2, VStr(fresh(STR, 'substr'))))      # A-STR: substrings are opaque
                    elif isinstance(base, VTuple):
                        if (lo is None or is_const_int(lo)) and (hi is None or is_const_int(hi)):
                            a = None if lo is None else lo.as_long()
                            b = None if hi is None else hi.as_long()
                            out.append((s2, VTuple(base.items[a:b])))
                        else:
                            self.unsupported(node, 'symbolic slice of a fixed tuple')
                    else:
                        self.unsupported(node, 'slice of %r' % (base,))
            return out
        for s, idx in self.eval(st, sl):
            if s.exc is not None:
                out.append((s, None))
                continue
            if isinstance(base, VBytes):
                out.extend(self.bytes_index(s, base, self.as_int(idx, node), node))
            elif isinstance(base, VTuple):
                it = self.as_int(idx, node)
                if is_const_int(it):
                    n = it.as_long()
                    if -len(base.items) <= n < len(base.items):
                        out.append((s, base.items[n]))
                    else:
                        out.append((self.raise_exc(s, 'builtins:IndexError'), None))
                else:
                    self.unsupported(node, 'symbolic index into fixed tuple')
            elif isinstance(base, (VSeq, VList)):
                sq = base if isinstance(base, VSeq) else self.list_as_seq(s, base)
                it = self.norm_index(self.as_int(idx, node), sq.len)
                ok, ex = self.guard(s, z3.And(it >= 0, it < sq.len), 'builtins:IndexError')
                if ok is not None:
                    out.append((ok, self.wf(ok, sq.at(z3.simplify(it)))))
                if ex is not None:
                    out.append((ex, None))
            elif isinstance(base, VRec):
                if not (isinstance(idx, VStr) and idx.lit is not None):
                    self.unsupported(node, 'record access with a computed key')
                if idx.lit in base.fields:
                    out.append((s, base.fields[idx.lit]))
                else:
                    out.append((self.raise_exc(s, 'builtins:KeyError'), None))
            elif isinstance(base, VDict):
                has = self.dict_has(s, base, idx)
                ok, ex = self.guard(s, has, 'builtins:KeyError')
                if ok is not None:
                    self.dict_has_fact(ok, base, has)
                    out.append((ok, self.dict_get(ok, base, idx)))
                if ex is not None:
                    out.append((ex, None))
            elif isinstance(base, VRef) and base.cls is not None and self.find_method(base.cls, '__getitem__') is not None:
                out.extend(self.call_repo(s, self.find_method(base.cls, '__getitem__'), [base, idx], {}, node))
            elif isinstance(base, VRef) and self.opaque_decl(base) is not None:
                out.extend(self.call_external(s, '%s.__getitem__' % self.opaque_decl(base).short, [base, idx], {}, node))
            else:
                self.unsupported(node, 'subscript of %r' % (base,))
        return out

    def e_DictComp(self, st, e):
        """{k: v for (k, v) in D.items() if COND}: the restriction of D to the keys satisfying COND
        (COND must be side-effect free; evaluated as a formula over an arbitrary key)"""
        if len(e.generators) != 1:
            self.unsupported(e, 'dict comprehension form')
        g = e.generators[0]
        tgt = g.target
        if not (isinstance(tgt, ast.Tuple) and len(tgt.elts) == 2 and all(isinstance(x, ast.Name) for x in tgt.elts)
                and isinstance(e.key, ast.Name) and isinstance(e.value, ast.Name)
                and e.key.id == tgt.elts[0].id and e.value.id == tgt.elts[1].id):
            self.unsupported(e, 'dict comprehension other than a filtered copy')
        out = []
        for s, it in self.eval(st, g.iter):
            if s.exc is not None:
                out.append((s, None))
                continue
            if not (isinstance(it, VFunc) and it.kind == 'dictiter' and it.mode == 'items'):
                self.unsupported(e, 'dict comprehension over %r' % (it,))
            d = it.dict
            ks = sort_of(d.k)
            kv = z3.Const(fresh_name('ck'), ks)
            key = from_term(d.k, kv)
            val = from_term(d.v, z3.Select(self.dict_vals(s, d), kv))
            fid = s.new_frame(s.cur, None)
            save = s.cur
            s.cur = fid
            self.spec_mode += 1
            self.no_facts = getattr(self, 'no_facts', 0) + 1
            try:
                s.frames[fid][tgt.elts[0].id] = key
                s.frames[fid][tgt.elts[1].id] = val
                conds = []
                for c in g.ifs:
                    (s2, cv), = self.eval(s, c)
                    conds.append(self.truth(s, cv))
            finally:
                self.no_facts -= 1
                self.spec_mode -= 1
                s.cur = save
                s.frames.pop(fid, None)
            nd = self.new_dict(s, d.k, d.v, getattr(d, 'tag', None))
            kd, dd = self._dd(s, nd)
            kvk, dv = self._dv(s, nd)
            newdom = z3.Lambda([kv], z3.And(z3.Select(self.dict_dom(s, d), kv), *conds))
            self.heap_set(s, kd, z3.Store(dd, nd.t, newdom))
            self.heap_set(s, kvk, z3.Store(dv, nd.t, self.dict_vals(s, d)))
            out.append((s, nd))
        return out

    def opaque_decl(self, v):
        d = (self.reg.classes.get(v.cls) or self.reg.class_by_key.get(v.cls)) if getattr(v, 'cls', None) else None
        return d if d is not None and d.opaque else None

    def _seq_arr(self, sq):
        return sort_of(sq.ty).accessor(0, 1)(sq.t)

    def e_Attribute(self, st, e):
        out = []
        for s, base in self.eval(st, e.value):
            if s.exc is not None:
                out.append((s, None))
                continue
            out.extend(self.getattr(s, base, e.attr, e))
        return out

    def e_NamedExpr(self, st, e):
        out = []
        for s, v in self.eval(st, e.value):
            if s.exc is None:
                s.setvar(e.target.id, v)
            out.append((s, v))
        return out

    def e_Await(self, st, e):
        return self.do_await(st, e)

    def e_Yield(self, st, e):
        return self.do_yield(st, e)

    def e_Starred(self, st, e):
        self.unsupported(e, 'starred expression')

    def e_GeneratorExp(self, st, e):
        hints = getattr(self.cur_contract, 'hints', None) or {}
        if hints.get('exact_map') and not self.spec_mode and len(e.generators) == 1 and not e.generators[0].ifs:
            # a generator handed to a consumer that reads it once, in order (str.join): the list of its items (the element
            # expression must be free of side effects: checked by exact_map)
            return self.comprehension(st, e, 'list')
        self.unsupported(e, 'generator expression outside a supported consumer (any/all/tuple/sum)')

    def e_ListComp(self, st, e):
        return self.comprehension(st, e, 'list')
