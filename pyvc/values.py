"""Symbolic values, type descriptors and their z3 sorts.

Type descriptors are plain tuples:
  ('int',) ('bool',) ('real',) ('none',) ('bytes',) ('str',) ('any',)
  ('ref', cls|None) ('enum', cls) ('tuple', (t1, ..)) ('opt', t)
  ('dict', k, v) ('list', e) ('seq', e) ('callable',)
"""
import z3

I = z3.IntSort()
Bo = z3.BoolSort()
R = z3.RealSort()

INT = ('int',)
BOOL = ('bool',)
REAL = ('real',)
NONE = ('none',)
BYTES = ('bytes',)
STR = ('str',)
ANY = ('any',)
CALLABLE = ('callable',)
BKEY = ('bkey',)     # a byte string used only as (part of) a dictionary key: an injective integer code of it
SKEY = ('skey',)     # a tuple of strings used only as a dictionary key: an injective integer code of it
BITS = ('bits',)     # a non-negative python int used as a bit set: index -> bool


def Ref(cls=None):
    return ('ref', cls)


def Enum(cls):
    return ('enum', cls)


def Tuple(*ts):
    return ('tuple', tuple(ts))


def Opt(t):
    return ('opt', t)


def Dict(k, v, tag=None):
    """tag: a memory region name.  Dictionaries with different tags are assumed to be different objects
    (ownership, A-OWN) and their contents live in separate heap maps."""
    return ('dict', k, v) if tag is None else ('dict', k, v, tag)


def List(e):
    return ('list', e)


def Seq(e):
    return ('seq', e)


def SetOf(e):
    return ('dict', e, NONE)


_BytesS = z3.Datatype('Bytes')
_BytesS.declare('mkb', ('blen', I), ('barr', z3.ArraySort(I, I)))
BytesS = _BytesS.create()
StrS = z3.DeclareSort('Str')
AnyS = z3.DeclareSort('Any')
UnitS = z3.Datatype('Unit')
UnitS.declare('unit')
UnitS = UnitS.create()

_sort_cache = {}


def tyname(ty):
    k = ty[0]
    if k == 'raw':
        return 'raw_' + str(ty[1]).replace(' ', '').replace('(', '_').replace(')', '_').replace(',', '_')
    if k in ('int', 'bool', 'real', 'none', 'bytes', 'str', 'any', 'callable', 'bits'):
        return k
    if k in ('bkey', 'skey'):
        return 'int'
    if k == 'ref':
        return 'ref'
    if k == 'enum':
        return 'int'
    if k == 'tuple':
        return 'T_' + '_'.join(tyname(t) for t in ty[1]) + '_'
    if k == 'opt':
        return 'O_' + tyname(ty[1]) + '_'
    if k in ('dict', 'list'):
        return 'ref'
    if k == 'seq':
        return 'S_' + tyname(ty[1]) + '_'
    raise ValueError(ty)


def sort_of(ty):
    k = ty[0]
    if k == 'raw':
        return ty[1]
    if k in ('int', 'enum', 'ref', 'dict', 'list', 'callable', 'bkey', 'skey'):
        return I
    if k == 'bool':
        return Bo
    if k == 'bits':
        return z3.ArraySort(I, Bo)
    if k == 'real':
        return R
    if k == 'bytes':
        return BytesS
    if k == 'str':
        return StrS
    if k == 'any':
        return AnyS
    if k == 'none':
        return UnitS
    name = tyname(ty)
    if name in _sort_cache:
        return _sort_cache[name]
    if k == 'tuple':
        d = z3.Datatype(name)
        d.declare('mk' + name, *[('f%d%s' % (i, name), sort_of(t)) for i, t in enumerate(ty[1])])
        s = d.create()
    elif k == 'opt':
        d = z3.Datatype(name)
        d.declare('none' + name)
        d.declare('some' + name, ('val' + name, sort_of(ty[1])))
        s = d.create()
    elif k == 'seq':
        d = z3.Datatype(name)
        d.declare('mk' + name, ('len' + name, I), ('arr' + name, z3.ArraySort(I, sort_of(ty[1]))))
        s = d.create()
    else:
        raise ValueError(ty)
    _sort_cache[name] = s
    return s


DEFS = {}
BINDER_DEPTH = [0]     # > 0 while a quantifier body is being built: no named definitions there (they would capture bound variables)
_BYTES_BY_KEY = {}
INPUT_BYTES = {}     # id -> constant: symbolic input byte strings (their DEFS entry only states normal form)
_OPAQUE = {}


def opaque(name, formula):
    """a named boolean standing for a (large, quantified) formula.  Queries first run with the definition hidden
    and reveal it only when needed (see solve.py).  Structurally identical formulas share one name."""
    fid = formula.get_id()
    c = _OPAQUE.get(fid)
    if c is None:
        c = z3.Bool(fresh_name('def_' + name))
        _OPAQUE[fid] = c
        DEFS[c.get_id()] = (c, c == formula, [])
        _KEEP.append(formula)
    return c


_KEEP = []
_fresh_counter = [0]


def fresh_name(base):
    _fresh_counter[0] += 1
    return '%s!%d' % (base, _fresh_counter[0])


def fresh(ty, base='v'):
    return z3.Const(fresh_name(base), sort_of(ty))


class Unsupported(Exception):
    """A construct outside the supported subset: the function is undecided."""


class Val:
    ty = ANY


class VInt(Val):
    ty = INT

    def __init__(self, t):
        if isinstance(t, int):
            t = z3.IntVal(t)
        self.t = t

    def __repr__(self):
        return 'VInt(%s)' % self.t


class VEnum(VInt):
    def __init__(self, cls, t):
        VInt.__init__(self, t)
        self.cls = cls
        self.ty = ('enum', cls)


class VBool(Val):
    ty = BOOL

    def __init__(self, t):
        if isinstance(t, bool):
            t = z3.BoolVal(t)
        self.t = t

    def __repr__(self):
        return 'VBool(%s)' % self.t


class VReal(Val):
    ty = REAL

    def __init__(self, t):
        if isinstance(t, (int, float)):
            t = z3.RealVal(repr(t))
        self.t = t


class VNone(Val):
    ty = NONE
    t = UnitS.unit

    def __repr__(self):
        return 'VNone'


class VStr(Val):
    ty = STR

    def __init__(self, t, lit=None):
        self.t = t
        self.lit = lit

    def __repr__(self):
        return 'VStr(%s)' % (self.lit if self.lit is not None else self.t)


class VBits(Val):
    """a non-negative int viewed as the set of its one-bits (finite support is an invariant stated in contracts)"""
    ty = ('bits',)

    def __init__(self, at=None, term=None):
        self._at = at
        self._term = term

    def at(self, i):
        if self._at is not None:
            return self._at(i)
        return z3.Select(self._term, i)

    @property
    def t(self):
        if self._term is None:
            i = z3.Int(fresh_name('bt'))
            self._term = z3.Lambda([i], self._at(i))
        return self._term


class VBKey(Val):
    """key code of a byte string (bytes_id is injective: A-BKEY)"""
    ty = ('bkey',)

    def __init__(self, t):
        self.t = t


def bytes_id(b):
    return z3.Function('bytes_id', BytesS, I)(b.t)


class VRec(Val):
    """a record with literal string keys (python-side value, e.g. a JSON object under construction)"""
    ty = ('rec',)
    t = None

    def __init__(self, fields):
        self.fields = dict(fields)


class VRaw(Val):
    """a bare z3 term of arbitrary sort (ghost values)"""
    ty = ('raw',)

    def __init__(self, t):
        self.t = t


class VAny(Val):
    ty = ANY

    def __init__(self, t):
        self.t = t


_str_lits = {}


def str_lit(s):
    if s not in _str_lits:
        _str_lits[s] = z3.Const('str:%r' % s, StrS)
    return VStr(_str_lits[s], s)


def str_lit_distinct_axioms():
    ts = list(_str_lits.values())
    if len(ts) > 1:
        return [z3.Distinct(*ts)]
    return []


class VBytes(Val):
    """Shallow byte sequence: length term and an index closure (normalised:
    0 outside [0,len))."""
    ty = BYTES

    def __init__(self, length, at, term=None, key=None):
        self.len = length
        self._at = at
        self._term = term
        self.key = key if key is not None else (('term', term.get_id()) if term is not None else None)

    def at(self, i):
        return self._at(i)

    @property
    def t(self):
        if self._term is None and BINDER_DEPTH[0] > 0:
            i = z3.Int(fresh_name('bi'))
            return BytesS.mkb(self.len, z3.Lambda([i], z3.If(z3.And(0 <= i, i < self.len), self._at(i), 0)))
        if self._term is None and self.key is not None and self.key in _BYTES_BY_KEY:
            self._term = _BYTES_BY_KEY[self.key]      # the same slice of the same string: the same named constant
        if self._term is None:
            # a named constant; its exact (lambda) definition lives in DEFS and is only added to
            # queries that need it (see solve.py)
            i = z3.Int(fresh_name('bi'))
            exact = BytesS.mkb(self.len, z3.Lambda([i], z3.If(z3.And(0 <= i, i < self.len), self._at(i), 0)))
            ln = z3.simplify(self.len)
            if z3.is_int_value(ln) and ln.as_long() <= 16:
                # short constant-length strings: explicit store chain, no lambda needed
                arr = z3.K(I, z3.IntVal(0))
                for k in range(ln.as_long()):
                    arr = z3.Store(arr, k, z3.simplify(self._at(z3.IntVal(k))))
                self._term = BytesS.mkb(ln, arr)
                return self._term
            c = z3.Const(fresh_name('bdef'), BytesS)
            if self.key is not None:
                _BYTES_BY_KEY[self.key] = c
            import os, traceback
            if os.environ.get('PYVC_DEBUG_BDEF'):
                traceback.print_stack(limit=8)
            DEFS[c.get_id()] = (c, c == exact, [BytesS.blen(c) == self.len])
            self._term = c
        return self._term

    @staticmethod
    def const(b):
        n = len(b)
        if n == 0:
            return VBytes(z3.IntVal(0), lambda i: z3.IntVal(0))

        def at(i, b=b):
            e = z3.IntVal(0)
            for k in range(len(b) - 1, -1, -1):
                e = z3.If(i == k, z3.IntVal(b[k]), e)
            return e
        return VBytes(z3.IntVal(n), at)

    @staticmethod
    def from_term(t):
        if z3.is_app(t) and t.decl().name() == 'mkb':
            ln, arr = t.arg(0), t.arg(1)
        else:
            ln, arr = BytesS.blen(t), BytesS.barr(t)
        return VBytes(ln, lambda i: z3.Select(arr, i), t)

    def __repr__(self):
        return 'VBytes(len=%s)' % self.len


class VTuple(Val):
    def __init__(self, items):
        self.items = list(items)
        self.ty = ('tuple', tuple(i.ty for i in self.items))

    @property
    def t(self):
        s = sort_of(self.ty)
        return s.constructor(0)(*[to_term(i) for i in self.items])

    def __repr__(self):
        return 'VTuple(%r)' % (self.items,)


class VRef(Val):
    def __init__(self, t, cls=None):
        if isinstance(t, int):
            t = z3.IntVal(t)
        self.t = t
        self.cls = cls
        self.ty = ('ref', cls)

    def __repr__(self):
        return 'VRef(%s:%s)' % (self.t, self.cls)


class VOpt(Val):
    """A value of declared optional type that has not been case-split yet."""

    def __init__(self, inner, t):
        self.inner = inner
        self.t = t
        self.ty = ('opt', inner)

    def is_none(self):
        s = sort_of(self.ty)
        return s.recognizer(0)(self.t)

    def some(self):
        s = sort_of(self.ty)
        return from_term(self.inner, s.accessor(1, 0)(self.t))


class VDict(Val):
    def __init__(self, ref, k, v, tag=None):
        self.t = ref
        self.k = k
        self.v = v
        self.tag = tag
        self.ty = ('dict', k, v) if tag is None else ('dict', k, v, tag)


class VList(Val):
    def __init__(self, ref, e):
        self.t = ref
        self.e = e
        self.ty = ('list', e)


class VSeq(Val):
    """Immutable sequence (tuple of unknown length, frozen view of a list)."""

    def __init__(self, length, at, e, term=None):
        self.len = length
        self._at = at      # index term -> Val
        self.e = e
        self.ty = ('seq', e)
        self._term = term

    def at(self, i):
        return self._at(i)

    @property
    def t(self):
        if self._term is None and BINDER_DEPTH[0] > 0:
            s = sort_of(self.ty)
            i = z3.Int(fresh_name('si'))
            return s.constructor(0)(self.len, z3.Lambda([i], to_term(self._at(i))))
        if self._term is None:
            s = sort_of(self.ty)
            i = z3.Int(fresh_name('si'))
            exact = s.constructor(0)(self.len, z3.Lambda([i], to_term(self._at(i))))
            c = z3.Const(fresh_name('sdef'), s)
            DEFS[c.get_id()] = (c, c == exact, [s.accessor(0, 0)(c) == self.len])
            self._term = c
        return self._term

    @staticmethod
    def from_term(ty, t):
        s = sort_of(ty)
        ln = s.accessor(0, 0)(t)
        arr = s.accessor(0, 1)(t)
        if z3.is_app(t) and t.decl().name().startswith('mkS_'):
            ln, arr = t.arg(0), t.arg(1)
        return VSeq(ln, lambda i: from_term(ty[1], z3.Select(arr, i)), ty[1], t)


class VFunc(Val):
    """Callable values.  kind: 'repo' (info, bound self), 'closure' (node,
    cells, info), 'ext' (dotted name, bound), 'class' (ClassInfo or name),
    'partial' (func, args)."""
    ty = CALLABLE

    def __init__(self, kind, **kw):
        self.kind = kind
        self.__dict__.update(kw)
        self.t = z3.IntVal(0)

    def __repr__(self):
        return 'VFunc(%s,%s)' % (self.kind, {k: v for k, v in self.__dict__.items() if k not in ('kind', 't')})


class VModule(Val):
    def __init__(self, name, pyobj=None):
        self.name = name
        self.pyobj = pyobj
        self.t = z3.IntVal(0)


def to_term(v):
    return v.t


def from_term(ty, t):
    k = ty[0]
    if k == 'raw':
        r = VRaw(t)
        r.ty = ty
        return r
    if k == 'int':
        return VInt(t)
    if k == 'enum':
        return VEnum(ty[1], t)
    if k == 'bool':
        return VBool(t)
    if k == 'real':
        return VReal(t)
    if k == 'bits':
        return VBits(term=t)
    if k == 'bkey':
        return VBKey(t)
    if k == 'skey':
        r = VBKey(t)
        r.ty = ('skey',)
        return r
    if k == 'none':
        return VNone()
    if k == 'bytes':
        return VBytes.from_term(t)
    if k == 'str':
        return VStr(t)
    if k == 'any':
        return VAny(t)
    if k == 'ref':
        return VRef(t, ty[1])
    if k == 'tuple':
        s = sort_of(ty)
        if z3.is_app(t) and t.decl().name() == 'mk' + tyname(ty):
            v = VTuple([from_term(et, t.arg(i)) for i, et in enumerate(ty[1])])
        else:
            v = VTuple([from_term(et, s.accessor(0, i)(t)) for i, et in enumerate(ty[1])])
        v.ty = ty
        return v
    if k == 'opt':
        return VOpt(ty[1], t)
    if k == 'dict':
        return VDict(t, ty[1], ty[2], ty[3] if len(ty) > 3 else None)
    if k == 'list':
        return VList(t, ty[1])
    if k == 'seq':
        return VSeq.from_term(ty, t)
    if k == 'callable':
        f = VFunc('opaque')
        f.t = t
        return f
    raise ValueError(ty)


def coerce(v, ty):
    """Bring value v to declared type ty (e.g. wrap into option)."""
    if v.ty == ty:
        return v
    if ty[0] == 'raw' and isinstance(v, VRaw):
        return v
    if v.ty[0] == 'tuple' and ty[0] == 'tuple' and v.ty[1] == ty[1]:
        return v
    k = ty[0]
    if k == 'opt':
        s = sort_of(ty)
        if isinstance(v, VNone):
            return VOpt(ty[1], s.constructor(0)())
        if isinstance(v, VOpt):
            if v.inner == ty[1]:
                return v
            if sort_of(('opt', v.inner)) == s:
                return VOpt(ty[1], v.t)          # same representation (e.g. enum vs int inside the option)
            raise Unsupported('opt coercion %s -> %s' % (v.ty, ty))
        inner = coerce(v, ty[1])
        return VOpt(ty[1], s.constructor(1)(to_term(inner)))
    if k == 'bkey' and isinstance(v, VBytes):
        return VBKey(bytes_id(v))
    if k == 'skey' and isinstance(v, (VSeq, VTuple)):
        sq = coerce(v, ('seq', STR))
        r = VBKey(z3.Function('strseq_id', sort_of(('seq', STR)), I)(sq.t))
        r.ty = ('skey',)
        return r
    if k == 'skey' and isinstance(v, VBKey):
        return v
    if k == 'bits' and isinstance(v, VInt):
        sb = getattr(v, 'single_bit', None)
        if sb is not None:
            return VBits(at=lambda i, sb=sb: i == sb)
        c = z3.simplify(v.t)
        if z3.is_int_value(c) and c.as_long() >= 0:
            n = c.as_long()
            ones = [b for b in range(n.bit_length()) if (n >> b) & 1]
            return VBits(at=lambda i, ones=ones: z3.Or(*[i == b for b in ones]) if ones else z3.BoolVal(False))
        raise Unsupported('cannot view a symbolic int as a bit set')
    if k == 'ref' and v.ty[0] == 'ref':
        return VRef(v.t, ty[1] or v.ty[1])
    if k == 'int' and v.ty[0] in ('enum', 'int'):
        return VInt(v.t)
    if k == 'enum' and v.ty[0] in ('enum', 'int'):
        return VEnum(ty[1], v.t)
    if k == 'int' and v.ty[0] == 'bool':
        return VInt(z3.If(v.t, 1, 0))
    if k == 'real' and v.ty[0] in ('int', 'enum'):
        return VReal(z3.ToReal(v.t))
    if k == 'real' and v.ty[0] == 'real':
        return v
    if k == 'tuple' and isinstance(v, VTuple) and len(v.items) == len(ty[1]):
        r = VTuple([coerce(i, t) for i, t in zip(v.items, ty[1])])
        r.ty = ty
        return r
    if k == 'seq' and isinstance(v, VTuple):
        items = [coerce(i, ty[1]) for i in v.items]

        def at(i, items=items):
            if not items:
                return from_term(ty[1], fresh(ty[1], 'oob'))
            e = to_term(items[-1])
            for n in range(len(items) - 2, -1, -1):
                e = z3.If(i == n, to_term(items[n]), e)
            return from_term(ty[1], e)
        return VSeq(z3.IntVal(len(items)), at, ty[1])
    if k == 'seq' and isinstance(v, VSeq) and v.e == ty[1]:
        return v
    if k == 'any':
        return v
    if k == 'callable' and isinstance(v, VFunc):
        return v
    if k == 'list' and isinstance(v, VList) and getattr(v, 'pending', False):
        v.e = ty[1]
        v.ty = ty
        v.pending = False
        return v
    if k == 'dict' and isinstance(v, VDict):
        if len(ty) > 3 and v.tag is None:
            return VDict(v.t, v.k, v.v, ty[3])     # a dictionary stored into a tagged field lives in that region
        return v
    if k in ('dict', 'list') and v.ty[0] == k:
        return v
    raise Unsupported('cannot coerce %s to %s' % (v.ty, ty))
