"""Assembles the executor and drives the verification of one contract."""
import ast
import time
import traceback
import z3

from .values import *  # noqa
from .state import State
from .exec import Exec as _Base, Obligation
from .exec_expr import ExprMixin
from .exec_call import CallMixin, SpecCtx
from .exec_stmt import StmtMixin
from .solve import feasible, prove
from .registry import MAY


class Engine(_Base, ExprMixin, CallMixin, StmtMixin):

    # ------------------------------------------------------- builtins by name
    def _quant(self, st, e, is_all):
        """any(...)/all(...) over a generator expression or a sequence"""
        if len(e.args) != 1:
            self.unsupported(e, 'any/all arity')
        g = e.args[0]
        if not isinstance(g, ast.GeneratorExp) or len(g.generators) != 1 or g.generators[0].ifs and False:
            self.unsupported(e, 'any/all over non-generator')
        comp = g.generators[0]
        out = []
        for s, it in self.eval(st, comp.iter):
            if s.exc is not None:
                out.append((s, None))
                continue
            for s1, it1 in self.force(s, it, e):
                if s1.exc is not None:
                    out.append((s1, None))
                else:
                    hints = getattr(self.cur_contract, 'hints', None) or {}
                    if hints.get('exact_map') and not self.spec_mode:
                        out.extend(self.quant_raises(s1, it1, comp, g.elt, e))
                    out.append((s1, VBool(self.quant_over(s1, it1, comp, g.elt, is_all, e))))
        return out

    def str_chars(self, st, v):
        """the characters of a str as a sequence of one-character strings (uninterpreted)"""
        r = VSeq.from_term(Seq(STR), z3.Function('str_chars', StrS, sort_of(Seq(STR)))(v.t))
        st.fact(r.len >= 0)
        return r

    def quant_raises(self, st, it, comp, elt, node):
        """contract hint `exact_map`: the exceptional outcomes of any(...)/all(...) over a sequence -- the element expression evaluated
        (not in spec mode) at an ARBITRARY index of the source; that any/all stop at the first deciding element is ignored, which only
        adds exceptional paths (over-approximation)"""
        if isinstance(it, VList):
            it = self.list_as_seq(st, it)
        if isinstance(it, VStr):
            it = self.str_chars(st, it)
        if isinstance(it, VTuple):
            items = [(x, z3.BoolVal(True)) for x in it.items]
        elif isinstance(it, VSeq):
            j = z3.Int(fresh_name('rj'))
            items = [(it.at(j), z3.And(0 <= j, j < it.len))]
        else:
            return []
        res = []
        for item, rng in items:
            base = st.copy()
            base.assume(rng)
            fid = base.new_frame(base.cur, None)
            save = base.cur
            base.cur = fid
            states = self.assign(base, comp.target, item, node)
            for c in comp.ifs:
                nxt = []
                for s in states:
                    if s.exc is not None:
                        nxt.append(s)
                        continue
                    for s2, cv in self.eval(s, c):
                        if s2.exc is None:
                            s2.assume(self.truth(s2, cv))
                        nxt.append(s2)
                states = nxt
            for s in states:
                outs = [(s, None)] if s.exc is not None else self.eval(s, elt)
                for s2, v in outs:
                    if s2.exc is not None and s2.exc[0] == 'raise':
                        s2.cur = save
                        s2.frames.pop(fid, None)
                        res.append((s2, None))
        return res

    def quant_over(self, st, it, comp, elt, is_all, node):
        """pure (side-effect free, non raising) element predicate assumed; evaluated in spec mode"""
        def body(item_val, rng):
            fid = st.new_frame(st.cur, None)
            save = st.cur
            st.cur = fid
            self.spec_mode += 1
            try:
                sts = self.assign(st, comp.target, item_val, node)
                conds = [rng]
                for c in comp.ifs:
                    (s2, cv), = self.eval(st, c)
                    conds.append(self.truth(st, cv))
                n0 = len(st.pc)
                res = [(s2, v) for s2, v in self.eval(st, elt) if s2.exc is None]
                if len(res) == 1:
                    b = self.truth(st, res[0][1])
                else:
                    # the element expression forks (e.g. dict.get): its paths are exclusive and exhaustive
                    b = z3.Or(*[z3.And(*(list(s2.pc[n0:]) + [self.truth(s2, v)])) for s2, v in res]) if res else z3.BoolVal(False)
            finally:
                self.spec_mode -= 1
                st.cur = save
                st.frames.pop(fid, None)
            return z3.And(*conds), b
        if isinstance(it, VList):
            it = self.list_as_seq(st, it)
        if isinstance(it, VStr):
            it = self.str_chars(st, it)
        if isinstance(it, VTuple):
            parts = []
            for item in it.items:
                c, b = body(item, z3.BoolVal(True))
                parts.append(z3.Implies(c, b) if is_all else z3.And(c, b))
            if not parts:
                return z3.BoolVal(is_all)
            return z3.And(*parts) if is_all else z3.Or(*parts)
        if isinstance(it, VSeq):
            j = z3.Int(fresh_name('qj'))
            c, b = body(it.at(j), z3.And(0 <= j, j < it.len))
            return z3.ForAll([j], z3.Implies(c, b)) if is_all else z3.Exists([j], z3.And(c, b))
        if isinstance(it, VDict) or (isinstance(it, VFunc) and it.kind == 'dictiter'):
            d, mode = (it, 'keys') if isinstance(it, VDict) else (it.dict, it.mode)
            k = z3.Const(fresh_name('qk'), sort_of(d.k))
            key = from_term(d.k, k)
            val = from_term(d.v, z3.Select(self.dict_vals(st, d), k))
            item = {'items': VTuple([key, val]), 'keys': key, 'values': val}[mode]
            c, b = body(item, z3.Select(self.dict_dom(st, d), k))
            return z3.ForAll([k], z3.Implies(c, b)) if is_all else z3.Exists([k], z3.And(c, b))
        self.unsupported(node, 'any/all over %r' % (it,))

    def b_any(self, st, e):
        return self._quant(st, e, False)

    def b_all(self, st, e):
        return self._quant(st, e, True)

    def comprehension(self, st, e, kind):
        """[elt for x in source if cond]: a NEW list of unknown length (an over-approximation of the real one: order and
        multiplicity are not modelled).  When the element is the loop variable itself, every member is known to come from the
        source and to satisfy the filter.  Side effects inside a comprehension are not supported."""
        if kind != 'list' or len(e.generators) != 1 or e.generators[0].is_async:
            self.unsupported(e, 'comprehension')
        comp = e.generators[0]
        out = []
        sources = []
        for s0, it in self.eval(st, comp.iter):
            if s0.exc is None and isinstance(it, VOpt):
                sources.extend(self.force(s0, it, e, 'builtins:TypeError'))       # iterating over None is a TypeError
            else:
                sources.append((s0, it))
        for s0, it in sources:
            if s0.exc is not None:
                out.append((s0, None))
                continue
            if isinstance(it, VList):
                it = self.list_as_seq(s0, it)
            if isinstance(it, VDict):
                it = VFunc('dictiter', dict=it, mode='keys')
            hints = getattr(self.cur_contract, 'hints', None) or {}
            if hints.get('exact_map') and isinstance(it, VTuple) and not it.items:
                out.append((s0, VTuple([])))         # nothing to map: the empty sequence (its consumers take any sequence)
                continue
            if hints.get('exact_map') and isinstance(it, VSeq) and not comp.ifs and not self.spec_mode:
                out.extend(self.exact_map(s0, e, comp, it))
                continue
            # one arbitrary item of the source, to learn the element type and to state the membership fact
            if isinstance(it, VFunc) and it.kind == 'dictiter':
                d = it.dict
                k = z3.Const(fresh_name('ck'), sort_of(d.k))
                key = from_term(d.k, k)
                val = from_term(d.v, z3.Select(self.dict_vals(s0, d), k))
                item = {'items': VTuple([key, val]), 'keys': key, 'values': val}[it.mode]
                member = lambda kk, d=d: z3.Select(self.dict_dom(s0, d), kk)
                bound = k
            elif isinstance(it, VSeq):
                j = z3.Int(fresh_name('cj'))
                item, member, bound = it.at(j), None, None
            elif isinstance(it, VTuple) and it.items:
                item, member, bound = it.items[0], None, None
            else:
                self.unsupported(e, 'comprehension over %r' % (it,))
            fid = s0.new_frame(s0.cur, None)
            save = s0.cur
            s0.cur = fid
            self.spec_mode += 1
            try:
                self.assign(s0, comp.target, item, e)
                conds = []
                for c in comp.ifs:
                    (s2, cv), = self.eval(s0, c)
                    conds.append(self.truth(s0, cv))
                (s2, v), = self.eval(s0, e.elt)
            finally:
                self.spec_mode -= 1
                s0.cur = save
                s0.frames.pop(fid, None)
            ety = v.ty if not isinstance(v, VEnum) else INT
            l = self.new_list(s0, ety)
            n = z3.Int(fresh_name('clen'))
            arr = z3.Const(fresh_name('carr'), z3.ArraySort(I, sort_of(ety)))
            s0.assume(n >= 0)
            self.list_store(s0, l, n, arr)
            if hints.get('exact_map') and isinstance(it, VSeq) and hasattr(v, 't') and not isinstance(v, VEnum):
                # a filtered / rebuilt comprehension over a sequence: every item of the result is the element expression at some
                # source index that passes the filter (order and multiplicity stay unmodelled)
                i = z3.Int(fresh_name('ci'))
                s0.assume(z3.ForAll([i], z3.Implies(z3.And(0 <= i, i < n),
                                                    z3.Exists([j], z3.And(0 <= j, j < it.len, z3.Select(arr, i) == to_term(v), *conds)))))
            if member is not None and isinstance(e.elt, ast.Name) and isinstance(comp.target, ast.Name) and e.elt.id == comp.target.id and it.mode == 'keys':
                i = z3.Int(fresh_name('ci'))
                elem = z3.Select(arr, i)
                body = z3.And(member(elem), *[z3.substitute(c, (bound, elem)) for c in conds])
                s0.assume(z3.ForAll([i], z3.Implies(z3.And(0 <= i, i < n), body)))
            out.append((s0, l))
        return out

    def exact_map(self, s0, e, comp, it):
        """[elt for x in seq] with a side-effect free element expression (contract hint `exact_map`): the result has the length of the
        source and its i-th item is the element expression at the i-th source item; if the element expression can raise, the
        comprehension raises that exception for SOME index (the items before it are not stated to be fine: over-approximation) and
        returns normally only if no index raises."""
        j = z3.Int(fresh_name('mj'))
        base = s0.copy()
        base.assume(0 <= j, j < it.len)
        npc = len(base.pc)
        heap0 = dict(base.heap)
        fid = base.new_frame(base.cur, None)
        save = base.cur
        base.cur = fid
        states = self.assign(base, comp.target, it.at(j), e)
        outs = []
        for s in states:
            outs.extend(self.eval(s, e.elt) if s.exc is None else [(s, None)])
        res, oks = [], []
        for s, v in outs:
            s.cur = save
            s.frames.pop(fid, None)
            if s.exc is not None:
                res.append((s, None))
            else:
                oks.append((s, v))
        if len(oks) != 1:
            self.unsupported(e, 'exact_map comprehension whose element expression forks (%d normal outcomes)' % len(oks))
        s, v = oks[0]
        if any(s.heap.get(k) is not h for k, h in heap0.items()) or len(s.heap) != len(heap0):
            self.unsupported(e, 'exact_map comprehension with a heap effect in the element expression')
        if isinstance(v, VEnum) or not hasattr(v, 't'):
            self.unsupported(e, 'exact_map comprehension element %r' % (v,))
        conds = s.pc[npc:]
        new_events = s.log[len(s0.log):]
        if new_events:
            # ghost events of the element expression (calls of opaque callbacks, logged externals): they happen once per index, in
            # order; recorded as one quantified event (index variable, length, the events of the arbitrary index)
            s0.log.append(('forall', j, it.len, tuple(new_events)))
        if isinstance(v, VNone):
            s0.assume(*[z3.ForAll([j], z3.Implies(z3.And(0 <= j, j < it.len), c)) for c in conds])
            res.append((s0, VNone()))       # a list of Nones: only built for its effects (the callers here discard it)
            return res
        ety = v.ty
        i = z3.Int(fresh_name('mi'))
        arr = z3.Const(fresh_name('marr'), z3.ArraySort(I, sort_of(ety)))
        n = z3.Int(fresh_name('mlen'))
        body = z3.And(z3.Select(arr, i) == z3.substitute(to_term(v), (j, i)), *[z3.substitute(c, (j, i)) for c in conds])
        s0.assume(n == it.len, n >= 0)
        s0.assume(z3.ForAll([i], z3.Implies(z3.And(0 <= i, i < n), body), patterns=[z3.Select(arr, i)]))
        l = self.new_list(s0, ety)
        self.list_store(s0, l, n, arr)
        res.append((s0, l))
        return res

    def do_await(self, st, e):
        """`await x`: a scheduling point.  The awaited expression is evaluated; obligations attached to this point
        (contract.awaits[k]['check']) are emitted on the state just before control is given up; then everything the
        function does not own is havocked (other tasks / callbacks may run), the result is an arbitrary value of the
        declared type, and the await may raise CancelledError or any declared exception."""
        c = self.cur_contract
        if st.depth != 0 or c is None:
            self.unsupported(e, 'await inside an inlined callee')
        awaits = [m for m in ast.walk(self.cur_info.node) if isinstance(m, ast.Await)]
        awaits.sort(key=lambda m: (m.lineno, m.col_offset))
        k = [i for i, m in enumerate(awaits) if m is e][0]
        spec = c.awaits.get(k)
        if spec is None:
            self.unsupported(e, 'await #%d has no entry in the contract (awaits={...})' % k)
        out = []
        self._awaiting = True
        try:
            results = self.eval(st, e.value)
        finally:
            self._awaiting = False
        for s, v in results:
            if s.exc is not None:
                out.append((s, None))
                continue
            if spec.get('check') is not None and not self.collect_only:
                for nm, g in spec['check'](self, s, self.entry_state, self.entry_env):
                    self.check(s, g, '%s/await%d[%s]' % (c.target, k, nm))
            if spec.get('havoc', True):
                # objects the function owns across this await (A-IMMUT: nobody else mutates them meanwhile)
                owned = []
                for text in spec.get('owned', []):
                    ov = self.spec_val(s, text)
                    ov = ov.some() if isinstance(ov, VOpt) else ov
                    owned.append(ov.t)
                before = dict(s.heap)
                for key in list(s.heap.keys()):
                    self.heap_set(s, key, z3.Const(fresh_name('Ha:' + ':'.join(map(str, key))), s.heap[key].sort()))
                    if key[0] == 'f':
                        for o in owned:
                            s.heap[key] = z3.Store(s.heap[key], o, z3.Select(before[key], o))
                a = z3.Int(fresh_name('alloc'))
                s.assume(a >= s.alloc)
                s.alloc = a
                for inv in spec.get('assume', []):
                    s.assume(self.eval_clause(s, inv, self.visible_env(s), self.cur_info, old_st=self.entry_state))
            # 'no_cancel': the awaited expression is a coroutine call whose contract already accounts for cancellation
            # (CancelledError is delivered inside the callee, at one of ITS suspension points)
            for cls in ([] if spec.get('no_cancel') else ['asyncio:CancelledError']) + list(spec.get('raises', [])):
                s2 = s.copy()
                self.raise_exc(s2, self.resolve_class_name(self.cur_info, cls))
                s2.exc[1].exact = False          # any subclass may be raised
                s2.log.append(('await_raised', k, s2.exc[1]))
                out.append((s2, None))
            rty = spec.get('result')
            # awaiting a call of a coroutine function under contract / inlined: its result; awaiting a future: declared type
            rv = (v if (isinstance(e.value, ast.Call) and v is not None) else VNone()) if rty is None else self.fresh_val(s, rty, 'awaited')
            if spec.get('after') is not None:
                spec['after'](self, s, rv)
            for cl in spec.get('result_assume', []):
                s.assume(self.eval_clause(s, cl, dict(self.visible_env(s), result=rv), self.cur_info, old_st=self.entry_state))
            out.append((s, rv))
        return out

    def do_yield(self, st, e):
        """`x = yield v` in a generator driven by send(): a scheduling point like await.  The value sent in is an
        arbitrary value of the type declared in contract.yields[k]['result']."""
        c = self.cur_contract
        if st.depth != 0 or c is None or not c.yields:
            self.unsupported(e, 'yield outside a generator under contract')
        ys = [m for m in ast.walk(self.cur_info.node) if isinstance(m, ast.Yield)]
        ys.sort(key=lambda m: (m.lineno, m.col_offset))
        k = [i for i, m in enumerate(ys) if m is e][0]
        spec = c.yields.get(k)
        if spec is None:
            self.unsupported(e, 'yield #%d has no entry in the contract (yields={...})' % k)
        out = []
        results = self.eval(st, e.value) if e.value is not None else [(st, VNone())]
        for s, v in results:
            if s.exc is not None:
                out.append((s, None))
                continue
            s.log.append(('yielded', k, v))
            if spec.get('check') is not None and not self.collect_only:
                for nm, g in spec['check'](self, s, self.entry_state, self.entry_env):
                    self.check(s, g, '%s/yield%d[%s]' % (c.target, k, nm))
            owned = []
            for text in spec.get('owned', []):
                ov = self.spec_val(s, text)
                ov = ov.some() if isinstance(ov, VOpt) else ov
                owned.append(ov.t)
            before = dict(s.heap)
            for key in list(s.heap.keys()):
                self.heap_set(s, key, z3.Const(fresh_name('Hy:' + ':'.join(map(str, key))), s.heap[key].sort()))
                if key[0] == 'f':
                    for o in owned:
                        s.heap[key] = z3.Store(s.heap[key], o, z3.Select(before[key], o))
            a = z3.Int(fresh_name('alloc'))
            s.assume(a >= s.alloc)
            s.alloc = a
            rv = self.fresh_val(s, spec['result'], 'sent')
            for cl in spec.get('assume', []):
                s.assume(self.eval_clause(s, cl, dict(self.visible_env(s), result=rv), self.cur_info, old_st=self.entry_state))
            out.append((s, rv))
        return out

    # --------------------------------------------------------------- driver
    def find_func(self, key):
        """'mod:Class.method' or 'mod:outer.<locals>.inner'"""
        mod, q = key.split(':')
        if '.<locals>.' not in q:
            return self.prog.func(key), None
        outer_q, inner = q.split('.<locals>.', 1)
        outer = self.prog.func('%s:%s' % (mod, outer_q))
        if outer is None:
            return None, None
        node = outer.node
        for part in inner.split('.<locals>.'):
            found = None
            for m in ast.walk(node):
                if isinstance(m, (ast.FunctionDef, ast.AsyncFunctionDef)) and m.name == part and m is not node:
                    found = m
                    break
            if found is None:
                return None, None
            node = found
        from .program import FuncInfo
        fi = FuncInfo(outer.module, q, node, outer.cls)
        return fi, outer

    def verify(self, c):
        """Verify one contract.  Returns dict(status, obligations, ...)."""
        t0 = time.time()
        self.obligations = []
        self.cur_contract = c
        res = {'target': c.target, 'status': 'ok', 'error': None, 'paths': 0, 'covers': 0}
        try:
            if c.target.startswith('lemma:'):
                self.verify_lemma(c)
                res['obligations'] = self.obligations
                res['seconds'] = time.time() - t0
                res['covers'] = 1
                return res
            info, outer = self.find_func(c.func_key)
            if info is None:
                raise Unsupported('function %s not found in the source tree' % c.func_key)
            self.cur_info = info
            res['source_hash'] = info.source_hash()
            res['file'] = info.module.path
            res['line'] = info.node.lineno
            self._verify(c, info)
        except Unsupported as e:
            res['status'] = 'undecided'
            res['error'] = str(e)
            import os
            if os.environ.get('PYVC_DEBUG'):
                traceback.print_exc()
        except z3.Z3Exception as e:
            res['status'] = 'crash'
            res['error'] = 'z3: %s\n%s' % (e, traceback.format_exc())
        except Exception as e:
            res['status'] = 'crash'
            res['error'] = '%s: %s\n%s' % (type(e).__name__, e, traceback.format_exc())
        res['obligations'] = self.obligations
        res['paths'] = self.paths
        res['covers'] = self.covers
        res['seconds'] = time.time() - t0
        return res

    def verify_lemma(self, c):
        """A lemma over spec functions / contracts: forall params. requires => ensures (no code involved)."""
        from .exec_call import _ModuleScope
        info = _ModuleScope(self.prog.module('specs.rfc7252'))
        info.node = None
        self.cur_info = info
        st = State()
        st.cur = st.new_frame(None, info)
        env = {n: self.fresh_val(st, ty, n) for n, ty in c.params.items()}
        st.frames[st.cur].update(env)
        for r in c.requires:
            st.assume(self.eval_clause(st, r, env, info))
        if not feasible(st.pc):
            raise Unsupported('hypotheses of %s are unsatisfiable' % c.target)
        self.entry_state = st.copy()
        self.entry_env = env
        for nm, cl in c.ensures.items():
            self.check(st, self.eval_clause(st, cl, env, info, old_st=self.entry_state), '%s/%s' % (c.target, nm), note=str(cl))

    def entry_state_for(self, c, info):
        st = State()
        fid = st.new_frame(None, info)
        st.cur = fid
        a = info.node.args
        names = [x.arg for x in a.posonlyargs + a.args + a.kwonlyargs]
        env = {}
        for n in names:
            ty = c.params.get(n)
            if ty is None and n == 'self':
                sc = c.self_class or (info.cls.name if info.cls else None)
                ty = ('ref', sc)
            if ty is None and n == 'cls' and info.kind == 'class':
                env[n] = VFunc('class', pyobj=self.pyclass('%s:%s' % (info.module.name, info.cls.qualname)),
                               key='%s:%s' % (info.module.name, info.cls.qualname))
                continue
            if ty is None:
                ty = getattr(self.reg, 'param_defaults', {}).get(n)    # conventional parameter names (robustness to added parameters)
            if ty is None:
                raise Unsupported('no declared type for parameter %s of %s' % (n, c.target))
            if isinstance(ty, Val):
                env[n] = ty
            else:
                env[n] = self.fresh_val(st, ty, n)
        for n, ty in c.captures.items():
            env[n] = ty if isinstance(ty, Val) else self.fresh_val(st, ty, n)
        st.frames[fid].update(env)
        return st, env

    @staticmethod
    def ordered_locals(node):
        """names bound in the function body (not in nested functions), in source order of their first binding"""
        found = []

        def visit(n):
            for ch in ast.iter_child_nodes(n):
                if isinstance(ch, (ast.FunctionDef, ast.AsyncFunctionDef, ast.Lambda, ast.ClassDef)):
                    if isinstance(ch, (ast.FunctionDef, ast.AsyncFunctionDef, ast.ClassDef)):
                        found.append((ch.lineno, ch.col_offset, ch.name))
                    continue
                if isinstance(ch, ast.Name) and isinstance(ch.ctx, ast.Store):
                    found.append((ch.lineno, ch.col_offset, ch.id))
                if isinstance(ch, ast.ExceptHandler) and ch.name:
                    found.append((ch.lineno, ch.col_offset, ch.name))
                visit(ch)
        visit(node)
        out = []
        for _, _, name in sorted(found):
            if name not in out:
                out.append(name)
        return out

    def set_local_aliases(self, c, info):
        from .state import ALIASES
        ALIASES.clear()
        self.local_names = self.ordered_locals(info.node) if getattr(info, 'node', None) is not None else []
        was = (getattr(self.reg, 'baseline_locals', None) or {}).get(c.target)
        self.renamed_locals = {}
        if was and len(was) == len(self.local_names) and was != self.local_names:
            ren = {o: n for o, n in zip(was, self.local_names) if o != n}
            # a pure renaming: the old names are gone and the new ones did not exist before
            if all(o not in self.local_names for o in ren) and all(n not in was for n in ren.values()):
                ALIASES.update(ren)
                self.renamed_locals = ren

    def _verify(self, c, info):
        self.set_local_aliases(c, info)
        st, env = self.entry_state_for(c, info)
        post_setup = None
        if c.setup is not None:
            post_setup = c.setup(self, st, env)        # may return a callable: ghost updates that apply AFTER the preconditions
        for r in c.requires:
            st.assume(self.eval_clause(st, r, env, info))
        if not feasible(st.pc):
            raise Unsupported('precondition of %s is unsatisfiable (vacuous contract)' % c.target)
        if callable(post_setup):
            post_setup(self, st, env)
        entry = st.copy()
        self.entry_state = entry
        self.entry_env = env
        self.scan_scopes(st, info.node, st.cur)
        self.written = set()
        finals = self.exec_block(st, info.node.body)
        written, self.written = self.written, None
        self.check_exits(c, info, finals, entry, env)
        if c.use_at_calls or c.modifies:
            self.check_frame(c, info, finals, entry, env, written)

    def frame_sets(self, c, entry, env):
        """`modifies` resolved in the entry state: field name -> allowed object refs (None = any object),
        allowed dict refs, allowed list refs, all-lists flag; or None if everything may be modified"""
        mods = list(c.modifies)
        if not mods and '#' in c.target:
            summary = self.reg.contracts.get(c.func_key)
            if summary is not None:
                mods = list(summary.modifies)      # a body variant must stay within the frame of its call-site summary
        if '*' in mods:
            return None
        fields, dicts, lists, all_lists = {}, [], [], '*lists' in mods
        all_dicts = '*dicts' in mods
        for m in mods:
            if m in ('*lists', '*dicts'):
                continue
            if m.startswith('field:'):
                fields[m[6:]] = None
                continue
            kind, text = ('dict', m[5:]) if m.startswith('dict:') else ('list', m[5:]) if m.startswith('list:') else ('field', m)
            if kind == 'field':
                base_text, attr = text.rsplit('.', 1)
                v = self.spec_val(entry.copy(), base_text, env=env)
                v = v.some() if isinstance(v, VOpt) else v
                if attr in fields and fields[attr] is None:
                    continue
                fields.setdefault(attr, []).append(v.t)
            else:
                v = self.spec_val(entry.copy(), text, env=env)
                v = v.some() if isinstance(v, VOpt) else v
                (dicts if kind == 'dict' else lists).append(v.t)
        return fields, (None if all_dicts else dicts), lists, all_lists

    def frame_goal(self, sets, key, now, was, alloc0):
        """formula: heap map `now` differs from `was` only at allowed or newly allocated objects (None: unrestricted)"""
        fields, dicts, lists, all_lists = sets
        if key[0] == 'f':
            allowed = fields.get(key[1], [])
            if key[1] in fields and allowed is None:
                return None
        elif key[0] in ('dd', 'dv'):
            if dicts is None:
                return None
            allowed = dicts
        elif key[0] in ('ll', 'le', 'lj'):
            if all_lists:
                return None
            allowed = lists
        else:
            return None
        if z3.is_app(now) and now.decl().kind() == z3.Z3_OP_ITE:
            # a merged or conditionally modified map: both cases separately
            c, a, b = now.arg(0), now.arg(1), now.arg(2)
            ga = self._frame_goal_allowed(allowed, a, was, alloc0)
            gb = self._frame_goal_allowed(allowed, b, was, alloc0)
            return z3.And(z3.Implies(c, ga), z3.Implies(z3.Not(c), gb))
        return self._frame_goal_allowed(allowed, now, was, alloc0)

    def _frame_goal_allowed(self, allowed, now, was, alloc0):
        if now.eq(was):
            return z3.BoolVal(True)
        if z3.is_app(now) and now.decl().kind() == z3.Z3_OP_ITE:
            c, a, b = now.arg(0), now.arg(1), now.arg(2)
            return z3.And(z3.Implies(c, self._frame_goal_allowed(allowed, a, was, alloc0)),
                          z3.Implies(z3.Not(c), self._frame_goal_allowed(allowed, b, was, alloc0)))
        chain, t = [], now
        while z3.is_app(t) and t.decl().kind() == z3.Z3_OP_STORE:
            chain.append((t.arg(1), t.arg(2)))
            t = t.arg(0)
        if t.eq(was):
            goals = [z3.Or(i >= alloc0, z3.Or(*[i == o for o in allowed]) if allowed else z3.BoolVal(False), z3.Select(was, i) == v)
                     for i, v in chain]
            return z3.And(*goals) if goals else z3.BoolVal(True)
        r = z3.Int(fresh_name('fr'))
        pre = z3.And(r >= 1, r < alloc0)
        return z3.ForAll([r], z3.Implies(z3.And(pre, *[r != o for o in allowed]), z3.Select(now, r) == z3.Select(was, r)))

    def frame_label(self, name, key):
        if key[0] == 'f':
            return '%s/frame[.%s]' % (name, key[1]), 'writes to .%s outside `modifies`' % key[1]
        if key[0] in ('dd', 'dv'):
            return '%s/frame[dict-contents%s]' % (name, ':' + str(key[-1]) if key[-1] else ''), 'changes a dictionary outside `modifies`'
        return '%s/frame[list-contents]' % name, 'changes a list outside `modifies`'

    def check_frame(self, c, info, finals, entry, env, written):
        """everything the body writes must be covered by `modifies` (objects allocated inside the call are exempt)"""
        sets = self.frame_sets(c, entry, env)
        if sets is None:
            return
        for s in finals:
            for key in sorted(written, key=str):
                now = s.heap.get(key)
                if now is None:
                    continue
                was = entry.heap.get(key)
                if was is None:
                    was = z3.Const('H0:' + ':'.join(str(k) for k in key), now.sort())
                if now.eq(was):
                    continue
                goal = self.frame_goal(sets, key, now, was, entry.alloc)
                if goal is None:
                    continue
                label, note = self.frame_label(c.target, key)
                self.check(s, goal, label, note=note)

    def pre_view(self, s, entry):
        """the final state's path condition and ghosts, but reading the heap of the entry state: conditions of
        `raises` clauses speak about the pre-state"""
        v = s.copy()
        v.heap = dict(entry.heap)
        return v

    def check_exits(self, c, info, finals, entry, env):
        name = c.target
        n_norm = 0
        normals = []
        for s in finals:
            fin = s.copy()
            fin.exc = None
            self.cur_final = fin
            if s.exc is None or s.exc[0] == 'return':
                result = s.exc[1] if s.exc is not None else VNone()
                s.exc = None
                n_norm += 1
                self.covers += 1
                if c.result is not None:
                    if isinstance(result, VOpt) and c.result[0] != 'opt':
                        self.check(s, z3.Not(result.is_none()), '%s/result-is-not-None' % name)
                        result = self.wf(s, result.some())
                    try:
                        result = coerce(result, c.result)
                    except Unsupported as e:
                        raise Unsupported('%s: result %r does not fit declared result type' % (name, result))
                for cls, cond in c.raises.items():
                    if cond != MAY:
                        pv = self.pre_view(s, entry)
                        g = z3.Not(self.eval_clause(pv, cond, env, info, old_st=entry))
                        for f in pv.pc[len(s.pc):]:
                            s.assume(f)
                        self.check(s, g, '%s/raises[%s]/iff' % (name, cls), note='normal return although: %s' % cond)
                lemmas = []
                if getattr(c, 'exit_lemmas', None) is not None:
                    # intermediate assertions: proved, then available to the clauses that follow (cut rule)
                    for nm, g in c.exit_lemmas(self, s, entry, env, result):
                        self.check(s, g, '%s/lemma[%s]' % (name, nm))
                        s.assume(g)
                        lemmas.append(g)
                for nm, cl in c.ensures.items():
                    g = self.eval_clause(s, cl, env, info, old_st=entry, result=result)
                    if lemmas:
                        # focused attempt: the precondition and the lemmas alone (a subset of the assumptions) often suffice
                        focus = State()
                        focus.pc = list(entry.pc) + lemmas + [f for f in s.pc if f.get_id() in s.fact_ids][:0]
                        v, b, m, dt = prove(focus.pc, g, timeout=15000)
                        if v == 'proved':
                            self.obligations.append(Obligation('%s/ensures[%s]' % (name, nm), 'proved', b, dt, note=str(cl)))
                            continue
                    self.check(s, g, '%s/ensures[%s]' % (name, nm), note=str(cl))
                normals.append((s, result))
                if c.at_exit is not None:
                    for nm, g in c.at_exit(self, s, entry, env, result):
                        self.check(s, g, '%s/ensures[%s]' % (name, nm))
            elif s.exc[0] == 'raise':
                self.covers += 1
                exc_cls = s.exc[2]
                matched = None
                for cls, cond in c.raises.items():
                    k = self.resolve_class_name(info, cls)
                    if self.issub(exc_cls, k):
                        matched = (cls, cond)
                        break
                if matched is None:
                    if c.only_raises:
                        self.check(s, z3.BoolVal(False), '%s/only_raises' % name,
                                   note='exception %s can escape' % exc_cls)
                    continue
                cls, cond = matched
                s2 = s
                s2.ghost['$raised'] = s.exc[1]      # the exception object, for exceptional postconditions that speak about it
                s2.exc = None
                if cond != MAY:
                    pv = self.pre_view(s2, entry)
                    g = self.eval_clause(pv, cond, env, info, old_st=entry)
                    for f in pv.pc[len(s2.pc):]:
                        s2.assume(f)
                    self.check(s2, g, '%s/raises[%s]/only_if' % (name, cls), note=str(cond))
                for nm, cl in c.raises_post.get(cls, {}).items():
                    g = self.eval_clause(s2, cl, env, info, old_st=entry)
                    self.check(s2, g, '%s/raises[%s]/post[%s]' % (name, cls, nm), note=str(cl))
            else:
                raise Unsupported('break/continue at function exit')
        # canaries: clauses that must NOT be provable on every normal path (vacuity guard)
        for nm, cl in c.canaries.items():
            refuted = False
            for s, result in normals:
                g = self.eval_clause(s, cl, env, info, old_st=entry, result=result)
                v, _, _, _ = prove(s.pc, g, timeout=5000)
                if v != 'proved':
                    refuted = True
                    break
            self.obligations.append(Obligation('%s/canary[%s]' % (name, nm), 'proved' if refuted else 'canary-proved',
                                               'z3', 0.0, note='must-fail clause'))
