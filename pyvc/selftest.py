"""Engine self-test (MANIFEST.setup_cmd): the symbolic semantics of the operations the contracts rely on agree with CPython.
For every function in selftest/funcs.py and every listed argument tuple the function is run natively, then the engine must
PROVE `result == <native result>` under `requires` fixing the arguments, and must NOT prove a perturbed expectation.
Exit 0: all agree; 1: a disagreement (the encoding of Python semantics is wrong somewhere); 3: the engine could not run a case."""
import os
import sys
import time

VERIF = os.path.dirname(os.path.dirname(os.path.abspath(__file__)))
sys.path.insert(0, VERIF)

CASES = {
    'floordiv_mod': [(7, 2), (-7, 2), (7, -2), (-7, -2), (0, 5), (1024, 1024)],
    'shifts': [(1, 4), (255, 3), (0, 0), (5, 1)],
    'masks': [(0,), (0x3C,), (0xFF,), (0x40,), (8,)],
    'slice_ops': [(b'abcdef', 1, 4), (b'abcdef', 0, 6), (b'ab', 1, 1), (b'', 0, 0), (b'abc', 2, 9)],
    'index_or_none': [(b'ab', 0), (b'ab', 2), (b'', 0)],
    'concat_repeat': [(b'a', b'b', 3), (b'', b'', 0), (b'xy', b'z', -2)],
    'to_from_bytes': [(0, 2), (258, 2), (65535, 2), (1, 5)],
    'min_bytes': [(0,), (1,), (256,), (65536,), (2 ** 32 - 1,)],
    'tuple_ops': [((1, 2, 3),), ((7, 8),)],
    'chained': [(1, 2, 3), (2, 2, 3), (1, 3, 3), (3, 2, 1)],
    'cond_expr': [(9,), (4,), (0,), (5,), (2,)],
    'dict_ops': [(1, 10), (0, 0), (-3, 4)],
    'list_ops': [(1, 2), (0, 0)],
    'struct_pack': [(1, 2), (255, 255), (0, 0)],
    'bool_ops': [(True, False), (False, False), (True, True)],
    'neg_index': [(b'abc',), (b'z',)],
    'bytes_eq': [(b'ab', b'ab'), (b'ab', b'ba'), (b'', b'')],
    'divmod_neg': [(0,), (1,), (1025,), (4096,)],
    'pow2_ops': [(0,), (3,), (-1,), (-2,), (10,)],
    'low_mask': [(0x2B, 3), (0x2B, 0), (0xFF, 8), (8, 3), (26, 4), (26, 2)],
    'list_remove': [(1, 2, 3), (5, 5, 5), (0, 1, 0)],
    'bool_xor': [(True, False), (True, True), (False, False)],
    'str_truth': [(True,), (False,)],
}


def types_of(v):
    from pyvc.values import INT, BOOL, BYTES, Tuple, Opt
    if isinstance(v, bool):
        return BOOL
    if isinstance(v, int):
        return INT
    if isinstance(v, bytes):
        return BYTES
    if v is None:
        return Opt(INT)
    if isinstance(v, tuple):
        return Tuple(*[types_of(x) for x in v])
    raise ValueError(v)


def perturb(v):
    if isinstance(v, bool):
        return not v
    if isinstance(v, int):
        return v + 1
    if isinstance(v, bytes):
        return v + b'\x01'
    if v is None:
        return 0
    if isinstance(v, tuple):
        return (perturb(v[0]),) + tuple(v[1:]) if v else (0,)
    raise ValueError(v)


def main():
    t0 = time.time()
    from pyvc.program import Program
    from pyvc.registry import Registry
    from pyvc import builtins_model
    from pyvc.engine import Engine
    from pyvc.values import Opt, INT
    sys.path.insert(0, os.path.join(VERIF, 'selftest'))
    import funcs
    from pyvc.driver import build
    from pyvc.values import Dict
    prog, reg = build()          # the registry with every external model the contracts install (bytes.lstrip, ...)
    n = bad = skipped = 0
    for name, argsets in CASES.items():
        f = getattr(funcs, name)
        params = list(f.__code__.co_varnames[:f.__code__.co_argcount])
        for args in argsets:
            want = f(*args)
            for expect, should_prove in ((want, True), (perturb(want), False)):
                reg.contracts.pop('selftest.funcs:' + name, None)
                rty = types_of(want)
                if want is None or (isinstance(want, tuple) and any(x is None for x in want)):
                    from pyvc.values import Tuple
                    rty = Opt(INT) if want is None else Tuple(*[Opt(INT) if x is None else types_of(x) for x in want])
                try:
                    reg.contract('selftest.funcs:' + name, params={p: types_of(a) for p, a in zip(params, args)}, result=rty,
                                 requires=['%s == %r' % (p, a) for p, a in zip(params, args)],
                                 ensures={'agrees-with-cpython': 'result == %r' % (expect,)}, hints={'{}': Dict(INT, INT)}, modifies=['*'], raises={})
                    ex = Engine(prog, reg)
                    r = ex.verify(reg.contracts['selftest.funcs:' + name])
                    obs = [o for o in r['obligations'] if 'agrees-with-cpython' in o.name]
                    if r['status'] != 'ok' or not obs:
                        skipped += 1
                        print('SKIP %s%r: %s %s' % (name, args, r['status'], (r['error'] or '')[:120]))
                        break
                    proved = all(o.verdict == 'proved' for o in obs)
                except Exception as e:
                    skipped += 1
                    print('SKIP %s%r: %s' % (name, args, str(e)[:160]))
                    break
                n += 1
                if proved != should_prove:
                    bad += 1
                    print('DISAGREE %s%r: CPython gives %r; the engine %s `result == %r`' % (name, args, want, 'proves' if proved else 'does not prove', expect))
    # exceptions: the engine must see exactly the exception CPython raises, and must see that it can escape
    RAISES = {'raise_index': [(b'ab', 5), (b'', 0)], 'raise_zero': [(1, 0)], 'raise_overflow': [(256,)], 'raise_value': [(256,), (-1,)],
              'raise_key': [(3,)], 'raise_type': [(1,)]}
    for name, argsets in RAISES.items():
        f = getattr(funcs, name)
        params = list(f.__code__.co_varnames[:f.__code__.co_argcount])
        for args in argsets:
            try:
                f(*args)
                print('SKIP %s%r: CPython does not raise' % (name, args))
                skipped += 1
                continue
            except Exception as e:
                cls = type(e).__name__
            for declared, should_prove in (({cls: 'may'}, True), ({}, False)):
                reg.contracts.pop('selftest.funcs:' + name, None)
                try:
                    from pyvc.registry import MAY
                    reg.contract('selftest.funcs:' + name, params={p: types_of(a) for p, a in zip(params, args)}, result=INT,
                                 requires=['%s == %r' % (p, a) for p, a in zip(params, args)], only_raises=True,
                                 raises={k: MAY for k in declared}, hints={'{}': Dict(INT, INT)}, modifies=['*'])
                    r = Engine(prog, reg).verify(reg.contracts['selftest.funcs:' + name])
                    obs = [o for o in r['obligations'] if o.name.endswith('/only_raises')]
                    if r['status'] != 'ok':
                        skipped += 1
                        print('SKIP %s%r: %s %s' % (name, args, r['status'], (r['error'] or '')[:120]))
                        break
                    proved = all(o.verdict == 'proved' for o in obs)
                except Exception as e:
                    skipped += 1
                    print('SKIP %s%r: %s' % (name, args, str(e)[:160]))
                    break
                n += 1
                if proved != should_prove:
                    bad += 1
                    print('DISAGREE %s%r: CPython raises %s; with raises=%r the engine %s that nothing else escapes' % (name, args, cls, sorted(declared), 'proves' if proved else 'does not prove'))
    print('pyvc self-test: %d engine/CPython comparisons, %d disagreements, %d cases the engine could not run, %.1fs' % (n, bad, skipped, time.time() - t0))
    return 1 if bad else (3 if n == 0 else 0)


if __name__ == '__main__':
    sys.exit(main())
