"""Contract registry: what the sidecar files under /verif/contracts populate."""
from .values import *  # noqa

MAY = 'may'


class Contract:
    def __init__(self, target, **kw):
        self.target = target
        self.func_key = target.split('#')[0]
        self.params = kw.pop('params', {})
        self.result = kw.pop('result', None)
        self.requires = kw.pop('requires', [])
        self.ensures = kw.pop('ensures', {})
        self.raises = kw.pop('raises', {})
        self.raises_post = kw.pop('raises_post', {})   # cls -> {name: clause} exceptional postconditions
        self.only_raises = kw.pop('only_raises', False)
        self.modifies = kw.pop('modifies', [])
        self.invariants = kw.pop('invariants', {})
        self.loop_havoc = kw.pop('loop_havoc', {})
        self.canaries = kw.pop('canaries', {})
        self.properties = kw.pop('properties', [])
        self.verify = kw.pop('verify', True)         # False: assumed (trusted) contract, only used at call sites
        self.use_at_calls = kw.pop('use_at_calls', True)
        self.ghost = kw.pop('ghost', None)
        self.ghost_exc = kw.pop('ghost_exc', None)     # callable(ex, st, env, cls) on exceptional outcomes at call sites           # callable(ex, st, args) at call sites
        self.setup = kw.pop('setup', None)           # callable(ex, st, args) -> None, extra entry assumptions / ghost init
        self.captures = kw.pop('captures', {})       # for closures: captured variable types
        self.pure = kw.pop('pure', False)
        self.replay = kw.pop('replay', None)
        self.at_exit = kw.pop('at_exit', None)
        self.exit_lemmas = kw.pop('exit_lemmas', None)       # callable(ex, st, entry, result)->[(name, goal)] extra obligations
        self.note = kw.pop('note', '')
        self.self_class = kw.pop('self_class', None)
        self.inline_depth = kw.pop('inline_depth', 4)
        self.trusted_reason = kw.pop('trusted_reason', '')
        self.loop_steps = kw.pop('loop_steps', {})
        self.loop_entry = kw.pop('loop_entry', {})
        self.local_types = kw.pop('local_types', {})
        self.hints = kw.pop('hints', {})
        self.yields = kw.pop('yields', None)         # type of the value delivered at `x = yield`
        self.awaits = kw.pop('awaits', {})           # ordinal -> dict(result=type, raises=[...])
        self.strict_futures = kw.pop('strict_futures', False)   # completing a completed asyncio future raises InvalidStateError (A-FUTURE)
        if kw:
            raise TypeError('unknown contract keys %s' % list(kw))


class ClassDecl:
    def __init__(self, short, key, fields=None, interned=False, abstract=False, nt=None, opaque=False):
        self.opaque = opaque
        self.short = short
        self.key = key
        self.fields = fields or {}
        self.interned = interned
        self.abstract = abstract
        self.nt = nt          # for namedtuple-like classes: list of field names


class Registry:
    def __init__(self):
        self.contracts = {}
        self.classes = {}
        self.class_by_key = {}
        self.fields = {}
        self.externals = {}
        self.methods = {}
        self.specfuncs = {}
        self.assumptions = []
        self.lemmas = []
        self.object_invariants = {}
        self.param_defaults = {}   # parameter name -> type, used when a contract does not declare a parameter
        self.field_facts = {}      # attribute name -> callable(Val) -> z3 fact: type invariants assumed at every read (A-TYPEINV)

    def contract(self, target, **kw):
        c = Contract(target, **kw)
        self.contracts[target] = c
        return c

    def declare_class(self, short, key, fields=None, **kw):
        d = ClassDecl(short, key, fields, **kw)
        self.classes[short] = d
        self.class_by_key[key] = d
        return d

    def external(self, name):
        def deco(f):
            self.externals[name] = f
            return f
        return deco

    def method(self, kind, name):
        def deco(f):
            self.methods[(kind, name)] = f
            return f
        return deco

    def specfunc(self, name):
        def deco(f):
            self.specfuncs[name] = f
            return f
        return deco

    def python_specs(self, prog, modname, names=None):
        """make the functions of a python spec module callable from contract clauses"""
        mi = prog.module(modname)
        for q, fi in mi.funcs.items():
            if '.' in q or (names and q not in names):
                continue
            self.specfuncs[q] = (lambda fi: lambda ex, st, *args: ex.call_spec_python(st, fi, list(args)))(fi)

    def field_type(self, cls, attr):
        if cls is not None:
            d = self.classes.get(cls) or self.class_by_key.get(cls)
            seen = set()
            while d is not None and d.short not in seen:
                seen.add(d.short)
                if attr in d.fields:
                    return d.fields[attr]
                d = self.classes.get(getattr(d, 'parent', None))
        if attr in self.fields:
            return self.fields[attr]
        return None

    def contract_for(self, func_key):
        c = self.contracts.get(func_key)
        return c

    def assume(self, text):
        if text not in self.assumptions:
            self.assumptions.append(text)
