"""Solver access: z3 (python API) first; unknowns are re-run on the z3 4.8.12
and cvc5 binaries through an SMT-LIB dump."""
import os
import shutil
import subprocess
import tempfile
import time
import z3

STATS = {'queries': 0, 'time': 0.0, 'by_backend': {}, 'unknown': 0, 'feas': 0, 'feas_time': 0.0,
         'cross_checked': 0, 'cross_agree': 0, 'cross_undecided': 0, 'cross_disagree': 0}


# obligations of the function under verification that were not proved so far (reset per function by the driver): once a
# function has failed a few, the expensive parts of the search (long budgets, small-pre-state models, other solvers) are
# skipped for its remaining obligations -- the function is not verified anyway, and a badly broken function would otherwise
# cost minutes per obligation
FAILED = [0]
FAILED_LIMIT = 2


def timeout_ms():
    tier = os.environ.get('VERIF_TIER', 'quick')
    return int(os.environ.get('PYVC_TIMEOUT_MS', '90000' if tier == 'thorough' else '25000'))


def _run_external(smt2, binary, args, timeout_s):
    with tempfile.NamedTemporaryFile('w', suffix='.smt2', delete=False, dir=os.environ.get('PYVC_SCRATCH', None)) as f:
        f.write(smt2)
        path = f.name
    try:
        out = subprocess.run([binary] + args + [path], capture_output=True, text=True, timeout=timeout_s + 5)
        first = out.stdout.strip().split('\n')[0] if out.stdout.strip() else ''
        return first
    except Exception:
        return 'unknown'
    finally:
        try:
            os.unlink(path)
        except OSError:
            pass


_defs_memo = {}


def _defs_in(e):
    """ids of named sequence constants in one expression (memoised per expression id)"""
    from .values import DEFS
    i = e.get_id()
    r = _defs_memo.get(i)
    if r is not None:
        return r
    found = set()
    seen = set()
    work = [e]
    while work:
        x = work.pop()
        xi = x.get_id()
        if xi in seen:
            continue
        seen.add(xi)
        if xi in DEFS:
            found.add(xi)
        if z3.is_quantifier(x):
            work.append(x.body())
        elif z3.is_app(x) and x.num_args() > 0:
            work.extend(x.children())
    _defs_memo[i] = found
    _keep.append(e)
    return found


_keep = []


def collect_defs(exprs):
    """named sequence constants occurring in exprs (transitively through their definitions)"""
    from .values import DEFS
    found = set()
    work = set()
    for e in exprs:
        work |= _defs_in(e)
    while work:
        i = work.pop()
        if i in found:
            continue
        found.add(i)
        c, exact, light = DEFS[i]
        work |= _defs_in(exact)
        for l in light:
            work |= _defs_in(l)
    return [DEFS[i] for i in found]


def feasible(assertions, timeout=800):
    """True unless the conjunction is provably unsat (unknown counts as feasible).
    Uses the weak form (lambda definitions of named sequences left out): an over-approximation."""
    t0 = time.time()
    s = z3.Solver() if os.environ.get('PYVC_SIMPLE') == '0' else z3.SimpleSolver()
    s.set('timeout', timeout)
    s.add(*assertions)
    for c, exact, light in collect_defs(assertions):
        s.add(*light)
    t1 = time.time()
    r = s.check()
    STATS['feas'] += 1
    STATS['feas_solver'] = STATS.get('feas_solver', 0.0) + (time.time() - t1)
    STATS['feas_time'] += time.time() - t0
    return r != z3.unsat


def _free_consts(exprs):
    seen, out, work = set(), {}, list(exprs)
    while work:
        x = work.pop()
        i = x.get_id()
        if i in seen:
            continue
        seen.add(i)
        try:
            if z3.is_quantifier(x):
                work.append(x.body())
            elif z3.is_var(x):
                continue
            elif z3.is_app(x):
                if x.num_args() == 0 and x.decl().kind() == z3.Z3_OP_UNINTERPRETED:
                    out[x.decl().name()] = x
                else:
                    work.extend(x.children())
        except z3.Z3Exception:
            continue
    return out


def small_shapes(exprs):
    """constraint sets that make the containers of the pre-state small: every dictionary has at most one key (the
    solver chooses whether it has one), every list the same length 0..2"""
    consts = _free_consts(exprs)
    flex = []
    n0 = z3.Int('small_len')

    def is_arr(x):
        return x.kind() == z3.Z3_ARRAY_SORT
    for name, c in consts.items():
        srt = c.sort()
        if not (name.startswith('H0:') or name.startswith('Hl:') or name.startswith('H:') or name.startswith('Ha:') or name.startswith('hv_')):
            continue
        if is_arr(srt) and srt.domain() == z3.IntSort() and is_arr(srt.range()) and srt.range().range() == z3.BoolSort():
            ks = srt.range().domain()
            k0 = z3.Const('small_k!' + name, ks)
            b0 = z3.Bool('small_has!' + name)
            flex.append(c == z3.K(z3.IntSort(), z3.Store(z3.K(ks, False), k0, b0)))
        elif is_arr(srt) and srt.range() == z3.BoolSort() and name.startswith('hv_'):
            k0 = z3.Const('small_k!' + name, srt.domain())
            b0 = z3.Bool('small_has!' + name)
            flex.append(c == z3.Store(z3.K(srt.domain(), False), k0, b0))
        elif name.endswith(':ll') or ':ll!' in name:
            flex.append(c == z3.K(z3.IntSort(), n0))
    if not flex:
        return []
    return [flex + [n0 >= 0, n0 <= 2]]


def _kind(c):
    n = c.decl().name()
    return n.split('!')[0]


def _solve(assertions, timeout, simple=False):
    s = z3.SimpleSolver() if simple else z3.Solver()
    s.set('timeout', timeout)
    s.add(*assertions)
    return s, s.check()


def _confirm_sat(s):
    """A `sat` of the API solver on a query with quantifiers / lambdas is only believed when a second solver process agrees
    (met during the build: the API answered sat within its time slice on a query both z3 binaries decide unsat).
    Returns 'sat', 'unsat' (with the answering binary) or 'unknown'."""
    try:
        smt2 = s.to_smt2()
    except Exception:
        return 'unknown', None
    answers = []
    for name, binary in (('z3-4.8.12', '/usr/bin/z3'), ('z3-cli-5.1', shutil.which('z3-new') or '')):
        if not binary or not os.path.exists(binary):
            continue
        first = _run_external(smt2, binary, ['-T:20'], 20)
        answers.append((name, first))
        if first == 'unsat':
            STATS['sat_overruled'] = STATS.get('sat_overruled', 0) + 1
            return 'unsat', name
    if any(a == 'sat' for _, a in answers):
        return 'sat', None
    return 'unknown', None


def _cross_check(s):
    """thorough tier: an `unsat` of the z3 5.x API is re-asked of the independently built z3 4.8.12 binary on the same
    SMT-LIB text.  Returns False only on a definite disagreement (`sat`)."""
    if os.environ.get('VERIF_TIER') != 'thorough' or os.environ.get('PYVC_CROSSCHECK') == '0' or not os.path.exists('/usr/bin/z3'):
        return True
    try:
        smt2 = s.to_smt2()
    except Exception:
        return True
    STATS['cross_checked'] += 1
    first = _run_external(smt2, '/usr/bin/z3', ['-T:20'], 20)
    if first == 'unsat':
        STATS['cross_agree'] += 1
    elif first == 'sat':
        STATS['cross_disagree'] += 1
        return False
    else:
        STATS['cross_undecided'] += 1
    return True


def prove(assumptions, goal, timeout=None, want_model=True):
    """Returns (verdict, backend, model|reason, seconds): verdict in 'proved', 'refuted', 'unknown'.
    A conjunction is proved conjunct by conjunct; named definitions (sequence lambdas, opaque invariants) are
    revealed in stages: none, those of the kinds occurring in the goal, all."""
    timeout = timeout or timeout_ms()
    t0 = time.time()
    goal_s = z3.simplify(goal)
    conjuncts = list(goal_s.children()) if z3.is_and(goal_s) else [goal_s]
    backend = 'z3-%s' % z3.get_version_string()
    used = set()
    for g in conjuncts:
        v, b, m = _prove1(list(assumptions), g, timeout)
        used.add(b)
        if v != 'proved':
            dt = time.time() - t0
            STATS['queries'] += 1
            STATS['time'] += dt
            if v == 'unknown':
                STATS['unknown'] += 1
            return (v, b, m, dt)
    dt = time.time() - t0
    STATS['queries'] += 1
    STATS['time'] += dt
    b = sorted(used)[-1] if used else backend
    STATS['by_backend'][b] = STATS['by_backend'].get(b, 0) + 1
    return ('proved', b, None, dt)


def _skolemise_bytes_eq(goal):
    """goal `c1 == c2` between two named byte strings: equal lengths and equal contents at a fresh index
    (what extensionality would do, without putting the lambda definitions into the query)"""
    from .values import DEFS, INPUT_BYTES, BytesS, fresh_name
    if not (z3.is_eq(goal) and goal.num_args() == 2):
        return goal
    a, b = goal.arg(0), goal.arg(1)
    if a.sort() != BytesS:
        return _skolemise_seq_eq(goal)

    def parts(t):
        if t.get_id() in DEFS and t.get_id() not in INPUT_BYTES:
            d = DEFS[t.get_id()][1].arg(1)          # c == mkb(len, lambda)
            return d.arg(0), d.arg(1)
        if z3.is_app(t) and t.decl().name() == 'mkb':
            return t.arg(0), t.arg(1)
        if t.get_id() in INPUT_BYTES:
            d = DEFS[t.get_id()][1].arg(1)
            return d.arg(0), d.arg(1)
        return None
    pa, pb = parts(a), parts(b)
    if pa is None or pb is None:
        return goal
    k = z3.Int(fresh_name('ext'))
    return z3.And(pa[0] == pb[0], z3.simplify(z3.Select(pa[1], k)) == z3.simplify(z3.Select(pb[1], k)))


def _skolemise_seq_eq(goal):
    """the same for immutable sequences (tuples of unknown length)"""
    from .values import DEFS, fresh_name
    a, b = goal.arg(0), goal.arg(1)
    srt = a.sort()
    if not (srt.kind() == z3.Z3_DATATYPE_SORT and srt.name().startswith('S_')):
        return goal

    def parts(t):
        if t.get_id() in DEFS:
            d = DEFS[t.get_id()][1].arg(1)
            return d.arg(0), d.arg(1)
        if z3.is_app(t) and t.decl().name().startswith('mkS_'):
            return t.arg(0), t.arg(1)
        return srt.accessor(0, 0)(t), srt.accessor(0, 1)(t)
    pa, pb = parts(a), parts(b)
    k = z3.Int(fresh_name('ext'))
    return z3.And(pa[0] == pb[0], z3.Implies(z3.And(0 <= k, k < pa[0]), z3.simplify(z3.Select(pa[1], k)) == z3.simplify(z3.Select(pb[1], k))))


def _prove1(assumptions, goal, timeout):
    v, b, m = _prove1_inner(assumptions, goal, timeout)
    if v != 'proved':
        FAILED[0] += 1
    return v, b, m


def _prove1_inner(assumptions, goal, timeout):
    backend = 'z3-%s' % z3.get_version_string()
    cheap = FAILED[0] >= FAILED_LIMIT
    if cheap:
        timeout = min(timeout, 3000)
    if z3.is_true(goal):
        return 'proved', 'simplifier', None
    goal = _skolemise_bytes_eq(goal)
    all_defs = collect_defs(assumptions + [goal])
    neg = z3.Not(goal)
    weak_model = None
    light = [l for c, exact, ls in all_defs for l in ls]
    if all_defs:
        w, rw = _solve(assumptions + light + [neg], min(timeout, 1500))
        if rw == z3.unsat:
            return ('proved', backend, None) if _cross_check(w) else ('unknown', 'solver-disagreement', ('z3 4.8.12 answers sat', None))
        if rw == z3.sat:
            weak_model = w.model()
        goal_defs = collect_defs([goal])
        kinds = {_kind(c) for c, e, l in goal_defs}
        staged = [d for d in all_defs if _kind(d[0]) in kinds]
        if kinds and len(staged) < len(all_defs):
            closure = collect_defs([d[1] for d in staged] + [goal])
            w, rw = _solve(assumptions + light + [d[1] for d in closure] + [neg], min(timeout, 5000))
            if rw == z3.unsat:
                return ('proved', backend, None) if _cross_check(w) else ('unknown', 'solver-disagreement', ('z3 4.8.12 answers sat', None))
    s, r = _solve(assumptions + light + [d[1] for d in all_defs] + [neg], timeout)
    if r == z3.unsat:
        return ('proved', backend, None) if _cross_check(s) else ('unknown', 'solver-disagreement', ('z3 4.8.12 answers sat', None))
    reason = None
    if r == z3.sat and cheap:
        reason = 'sat answer of the API solver (not confirmed: short budget)'
    elif r == z3.sat:
        c, who = _confirm_sat(s)
        if c == 'sat':
            return 'refuted', backend, s.model()
        if c == 'unsat':
            return 'proved', who, None
        reason = 'sat answer of the API solver not confirmed by a second solver process'
    reason = reason or s.reason_unknown()
    if cheap:
        return 'unknown', 'all', (reason + ' (short budget: this function already has unproved obligations)', weak_model)
    # counterexample search over small pre-states: the quantified invariants of the entry state become trivial when
    # the dictionaries / lists of the pre-state are empty or singletons.  A model found here satisfies the complete
    # (exact) formula, so it is a genuine refutation.
    from .values import INPUT_BYTES, BytesS
    inputs = [d[0] for d in all_defs if d[0].get_id() in INPUT_BYTES]
    other_defs = [d[1] for d in all_defs if d[0].get_id() not in INPUT_BYTES]
    # symbolic input byte strings: at most 8 bytes, contents as an explicit store chain over zeros (this is their
    # normal form, so the lambda definition is not needed)
    short = []
    for c in inputs:
        arr = z3.K(z3.IntSort(), z3.IntVal(0))
        for j in range(8):
            e = z3.Int('small_b!%d!%s' % (j, c.decl().name()))
            arr = z3.Store(arr, j, z3.If(j < BytesS.blen(c), e, 0))
            short.append(z3.And(e >= 0, e <= 255))
        short.append(z3.And(BytesS.blen(c) >= 0, BytesS.blen(c) <= 8, BytesS.barr(c) == arr))
    full = assumptions + light + other_defs + short + [neg]
    shapes = small_shapes(full) or [[]]
    for shape in ([[]] if inputs else []) + shapes:
        s2, r2 = _solve(full + shape, min(timeout, 8000))
        if r2 == z3.sat:
            if os.environ.get('PYVC_DEBUG_SMALL'):
                open(os.environ['PYVC_DEBUG_SMALL'], 'w').write(s2.to_smt2())
            c, who = _confirm_sat(s2)
            if c == 'sat':
                return 'refuted', backend + '+small-prestate', s2.model()
            if c == 'unsat' and not shape:
                # the unrestricted small-input query is unsat for another solver: no information about the goal
                continue
    if os.environ.get('PYVC_DEBUG'):
        print('DEBUG unknown; defs:', [d[0].decl().name() for d in all_defs], 'inputs:', [c.decl().name() for c in inputs])
        open('/tmp/unk_full.smt2', 'w').write(s2.to_smt2())
    smt2 = None
    try:
        smt2 = s.to_smt2()
    except Exception:
        pass
    if smt2 is not None and os.environ.get('PYVC_NO_FALLBACK') != '1':
        for name, binary, args in (('z3-4.8.12', '/usr/bin/z3', ['-T:%d' % (timeout // 1000)]),
                                   ('cvc5-1.0.3', '/usr/bin/cvc5', ['--tlimit=%d' % timeout, '--arrays-exp'])):
            if not os.path.exists(binary):
                continue
            first = _run_external(smt2, binary, args, timeout // 1000)
            if first == 'unsat':
                return 'proved', name, None
    return 'unknown', 'all', (reason, weak_model)
