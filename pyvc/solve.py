"""Solver access: z3 (python API) first; unknowns are re-run on the z3 4.8.12
and cvc5 binaries through an SMT-LIB dump."""
import os
import subprocess
import tempfile
import time
import z3

STATS = {'queries': 0, 'time': 0.0, 'by_backend': {}, 'unknown': 0, 'feas': 0, 'feas_time': 0.0}


def timeout_ms():
    tier = os.environ.get('VERIF_TIER', 'quick')
    return int(os.environ.get('PYVC_TIMEOUT_MS', '60000' if tier == 'thorough' else '20000'))


def _run_external(smt2, binary, args, timeout_s):
    with tempfile.NamedTemporaryFile('w', suffix='.smt2', delete=False, dir=os.environ.get('PYVC_SCRATCH', None)) as f:
        f.write(smt2)
        path = f.name
    try:
        out = subprocess.run([binary] + args + [path], capture_output=True, text=True, timeout=timeout_s + 5)
        first = out.stdout.strip().split('\n')[0] if out.stdout.strip() else ''
        return first
    except Exception:
        return 'unknown'
    finally:
        try:
            os.unlink(path)
        except OSError:
            pass


_defs_memo = {}


def _defs_in(e):
    """ids of named sequence constants in one expression (memoised per expression id)"""
    from .values import DEFS
    i = e.get_id()
    r = _defs_memo.get(i)
    if r is not None:
        return r
    found = set()
    seen = set()
    work = [e]
    while work:
        x = work.pop()
        xi = x.get_id()
        if xi in seen:
            continue
        seen.add(xi)
        if xi in DEFS:
            found.add(xi)
        if z3.is_quantifier(x):
            work.append(x.body())
        elif z3.is_app(x) and x.num_args() > 0:
            work.extend(x.children())
    _defs_memo[i] = found
    _keep.append(e)
    return found


_keep = []


def collect_defs(exprs):
    """named sequence constants occurring in exprs (transitively through their definitions)"""
    from .values import DEFS
    found = set()
    work = set()
    for e in exprs:
        work |= _defs_in(e)
    while work:
        i = work.pop()
        if i in found:
            continue
        found.add(i)
        c, exact, light = DEFS[i]
        work |= _defs_in(exact)
        for l in light:
            work |= _defs_in(l)
    return [DEFS[i] for i in found]


def feasible(assertions, timeout=800):
    """True unless the conjunction is provably unsat (unknown counts as feasible).
    Uses the weak form (lambda definitions of named sequences left out): an over-approximation."""
    t0 = time.time()
    s = z3.Solver() if os.environ.get('PYVC_SIMPLE') == '0' else z3.SimpleSolver()
    s.set('timeout', timeout)
    s.add(*assertions)
    for c, exact, light in collect_defs(assertions):
        s.add(*light)
    t1 = time.time()
    r = s.check()
    STATS['feas'] += 1
    STATS['feas_solver'] = STATS.get('feas_solver', 0.0) + (time.time() - t1)
    STATS['feas_time'] += time.time() - t0
    return r != z3.unsat


def prove(assumptions, goal, timeout=None, want_model=True):
    """Returns (verdict, backend, model|reason, seconds): verdict in
    'proved', 'refuted', 'unknown'."""
    timeout = timeout or timeout_ms()
    t0 = time.time()
    defs = collect_defs(list(assumptions) + [goal])
    weak_model = None
    if defs:
        w = z3.Solver()
        w.set('timeout', min(timeout, 5000))
        w.add(*assumptions)
        for c, exact, light in defs:
            w.add(*light)
        w.add(z3.Not(goal))
        rw = w.check()
        if rw == z3.unsat:
            dt = time.time() - t0
            STATS['queries'] += 1
            STATS['time'] += dt
            k = 'z3-%s' % z3.get_version_string()
            STATS['by_backend'][k] = STATS['by_backend'].get(k, 0) + 1
            return ('proved', k, None, dt)
        if rw == z3.sat:
            weak_model = w.model()
    s = z3.Solver()
    s.set('timeout', timeout)
    s.add(*assumptions)
    for c, exact, light in defs:
        s.add(exact)
    s.add(z3.Not(goal))
    r = s.check()
    dt = time.time() - t0
    STATS['queries'] += 1
    STATS['time'] += dt
    if r == z3.unsat:
        STATS['by_backend']['z3-%s' % z3.get_version_string()] = STATS['by_backend'].get('z3-%s' % z3.get_version_string(), 0) + 1
        return ('proved', 'z3-%s' % z3.get_version_string(), None, dt)
    if r == z3.sat:
        return ('refuted', 'z3-%s' % z3.get_version_string(), s.model(), dt)
    # unknown: other back ends
    reason = s.reason_unknown()
    smt2 = None
    try:
        smt2 = s.to_smt2()
    except Exception:
        pass
    if smt2 is not None and os.environ.get('PYVC_NO_FALLBACK') != '1':
        for name, binary, args in (('z3-4.8.12', '/usr/bin/z3', ['-T:%d' % (timeout // 1000)]),
                                   ('cvc5-1.0.3', '/usr/bin/cvc5', ['--tlimit=%d' % timeout, '--arrays-exp'])):
            if not os.path.exists(binary):
                continue
            t1 = time.time()
            first = _run_external(smt2, binary, args, timeout // 1000)
            STATS['time'] += time.time() - t1
            if first == 'unsat':
                STATS['by_backend'][name] = STATS['by_backend'].get(name, 0) + 1
                return ('proved', name, None, time.time() - t0)
    STATS['unknown'] += 1
    return ('unknown', 'all', (reason, weak_model), time.time() - t0)
