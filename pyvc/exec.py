"""The symbolic executor (Appendix A of DESIGN.md)."""
import ast
import builtins
import z3

from .values import *  # noqa
from .state import State
from .solve import feasible, prove
from .registry import MAY

MAX_PATHS = 6000


class Obligation:
    def __init__(self, name, verdict, backend, seconds, model=None, pc=None, goal=None, note='', st=None):
        self.name = name
        self.verdict = verdict
        self.backend = backend
        self.seconds = seconds
        self.model = model
        self.pc = pc
        self.goal = goal
        self.note = note
        self.st = st


def bkey(c):
    """key of a python class object"""
    return '%s:%s' % (c.__module__, c.__qualname__)


class Exec:
    def __init__(self, program, registry):
        self.prog = program
        self.reg = registry
        self.obligations = []
        self.spec_mode = 0
        self.paths = 0
        self.covers = 0
        self.cur_contract = None
        self.collect_only = False     # loop discovery pass: no obligations
        self.written = None           # set of heap keys written (discovery)
        self.pyclasses = {}           # class key -> python class object
        self.isinst_funcs = {}
        self.used_externals = set()
        self.used_contracts = set()
        self.inlined = set()
        self.dropped = set()
        self.entry_state = None
        self.loop_counter = {}
        self.await_counter = {}

    # ------------------------------------------------------------------ utils
    def unsupported(self, node, msg):
        loc = ''
        if node is not None and hasattr(node, 'lineno'):
            loc = ' (line %d: %s)' % (node.lineno, ast.unparse(node)[:80])
        raise Unsupported(msg + loc)

    def check(self, st, goal, name, note=''):
        """Emit obligation pc => goal."""
        if self.collect_only or self.spec_mode:
            return
        goal = z3.simplify(goal) if not z3.is_bool(goal) or True else goal
        if z3.is_true(goal):
            self.obligations.append(Obligation(name, 'proved', 'simplifier', 0.0, note=note))
            return
        axioms = str_lit_distinct_axioms()
        verdict, backend, model, dt = prove(st.pc + axioms, goal)
        o = Obligation(name, verdict, backend, dt, note=note, goal=goal)
        if verdict == 'refuted':
            o.model, o.pc, o.st = model, list(st.pc), st.copy()
        elif verdict == 'unknown':
            reason, weak = model
            o.note = '%s [solver: %s]' % (note, reason)
            o.model, o.pc, o.st = weak, list(st.pc), st.copy()
            o.candidate_only = True
        self.obligations.append(o)

    def class_key(self, name):
        """Resolve a short class name / key to its key."""
        d = self.reg.classes.get(name)
        if d is not None:
            return d.key
        return name

    def pyclass(self, key):
        key = self.class_key(key)
        if key in self.pyclasses:
            return self.pyclasses[key]
        mod, q = key.split(':')
        c = None
        if mod == 'builtins':
            c = getattr(builtins, q, None)
        else:
            import importlib
            try:
                m = importlib.import_module(mod)
                c = m
                for part in q.split('.'):
                    c = getattr(c, part)
            except Exception:
                c = None
        self.pyclasses[key] = c
        return c

    def issub(self, k1, k2):
        """is class k1 a subclass of k2 (None if unknown)"""
        k1, k2 = self.class_key(k1), self.class_key(k2)
        if k1 == k2:
            return True
        c1, c2 = self.pyclass(k1), self.pyclass(k2)
        if c1 is not None and c2 is not None:
            return issubclass(c1, c2)
        # AST fall-back (non importable modules): walk base expressions by name
        ci = self.prog.cls(k1) if ':' in k1 else None
        seen = set()
        work = [ci] if ci else []
        while work:
            c = work.pop()
            if c is None or c.qualname in seen:
                continue
            seen.add(c.qualname)
            if '%s:%s' % (c.module.name, c.qualname) == k2:
                return True
            for b in c.base_exprs:
                bn = b.split('.')[-1]
                if k2.endswith(':' + bn):
                    return True
                work.append(c.module.classes.get(bn))
        return False

    def classinfo(self, key):
        key = self.class_key(key)
        if ':' not in key:
            return None
        return self.prog.cls(key)

    def mro_infos(self, key):
        key = self.class_key(key)
        c = self.pyclass(key)
        out = []
        if c is not None and isinstance(c, type):
            for b in c.__mro__:
                ci = self.prog.class_by_pyobj(b)
                if ci is not None:
                    out.append(ci)
            return out
        ci = self.classinfo(key)
        seen = set()
        work = [ci]
        while work:
            c = work.pop(0)
            if c is None or c.qualname in seen:
                continue
            seen.add(c.qualname)
            out.append(c)
            for b in c.base_exprs:
                work.append(c.module.classes.get(b.split('.')[-1]))
        return out

    def find_method(self, clskey, name):
        for ci in self.mro_infos(clskey):
            if name in ci.methods:
                return ci.methods[name]
        return None

    def find_setter(self, clskey, name):
        for ci in self.mro_infos(clskey):
            if name in ci.setters:
                return ci.setters[name]
        return None

    # ------------------------------------------------------------ exceptions
    def new_object(self, st, clskey):
        r = st.alloc
        st.alloc = st.alloc + 1
        v = VRef(r, clskey)
        v.exact = True
        return v

    def raise_exc(self, st, clskey, payload=None):
        v = self.new_object(st, clskey)
        st.exc = ('raise', v, self.class_key(clskey))
        return st

    def guard(self, st, ok, exckey):
        """Split on a side condition of an operation.  Returns (st_ok|None, st_exc|None)."""
        if self.spec_mode:
            return st, None
        ok = z3.simplify(ok)
        if z3.is_true(ok):
            return st, None
        if z3.is_false(ok):
            return None, self.raise_exc(st, exckey)
        st_exc = None
        if feasible(st.pc + [z3.Not(ok)]):
            st_exc = st.copy()
            st_exc.assume(z3.Not(ok))
            self.raise_exc(st_exc, exckey)
        else:
            return st, None
        if feasible(st.pc + [ok]):
            st.assume(ok)
            return st, st_exc
        return None, st_exc

    def branch(self, st, cond):
        cond = z3.simplify(cond)
        if z3.is_true(cond):
            return st, None
        if z3.is_false(cond):
            return None, st
        st_t = st_f = None
        if feasible(st.pc + [cond]):
            st_t = st.copy()
            st_t.assume(cond)
        if st_t is None:
            return None, st
        if feasible(st.pc + [z3.Not(cond)]):
            st_f = st
            st_f.assume(z3.Not(cond))
        else:
            # cond is implied; keep the original state (no need to add it)
            return st_t, None
        return st_t, st_f

    # ------------------------------------------------------------------ heap
    def heap_get(self, st, key, sort):
        if key not in st.heap:
            st.heap[key] = z3.Const('H0:' + ':'.join(str(k) for k in key), sort)
        return st.heap[key]

    def heap_set(self, st, key, term):
        st.heap[key] = term
        if self.written is not None:
            self.written.add(key)

    def wf(self, st, v):
        """well-formedness facts of a value read from the heap / inputs: refs are allocated, lengths >= 0"""
        if getattr(self, 'no_facts', 0):
            return v       # inside a quantified formula: terms mention bound variables, no facts about them
        if isinstance(v, (VRef, VDict, VList)):
            k = ('wf', v.t.get_id(), st.alloc.get_id())
            if k not in st.facts_seen and not z3.is_int_value(v.t):
                st.facts_seen.add(k)
                st.fact(z3.And(v.t >= 1, v.t < st.alloc))
        elif isinstance(v, VTuple):
            for i in v.items:
                self.wf(st, i)
        elif isinstance(v, VBytes):
            k = ('wfb', v.len.get_id())
            if k not in st.facts_seen and not z3.is_int_value(v.len):
                st.facts_seen.add(k)
                st.fact(v.len >= 0)
        elif isinstance(v, VSeq):
            k = ('wfs', v.len.get_id())
            if k not in st.facts_seen and not z3.is_int_value(v.len):
                st.facts_seen.add(k)
                st.fact(v.len >= 0)
        elif isinstance(v, VOpt):
            inner = v.some()
            if isinstance(inner, (VRef, VDict, VList)):
                st.fact(z3.Or(v.is_none(), z3.And(inner.t >= 1, inner.t < st.alloc)))
            elif isinstance(inner, VBytes):
                st.fact(z3.Or(v.is_none(), inner.len >= 0))
        return v

    def field_type(self, node, v, attr):
        ty = self.reg.field_type(getattr(v, 'cls', None), attr)
        if ty is None:
            # look through the class hierarchy declared in the registry
            cls = getattr(v, 'cls', None)
            if cls is not None:
                for ci in self.mro_infos(cls):
                    d = self.reg.class_by_key.get('%s:%s' % (ci.module.name, ci.qualname))
                    if d is not None and attr in d.fields:
                        return d.fields[attr]
            self.unsupported(node, 'no declared type for field %s.%s' % (getattr(v, 'cls', None), attr))
        return ty

    def infer_field_type(self, cls, attr):
        """undeclared attribute: take its type from a constant assigned to it in an __init__ of the class hierarchy"""
        if cls is None:
            return None
        import ast as _ast
        for ci in self.mro_infos(cls):
            init = ci.methods.get('__init__')
            if init is None:
                continue
            for n in _ast.walk(init.node):
                if isinstance(n, _ast.Assign) and len(n.targets) == 1 and isinstance(n.targets[0], _ast.Attribute) \
                        and isinstance(n.targets[0].value, _ast.Name) and n.targets[0].value.id == 'self' \
                        and n.targets[0].attr == attr and isinstance(n.value, _ast.Constant):
                    v = n.value.value
                    for py, ty in ((bool, BOOL), (int, INT), (float, REAL), (bytes, BYTES), (str, STR)):
                        if isinstance(v, py):
                            return ty
        return None

    def read_field(self, st, ref, attr, ty):
        key = ('f', attr, tyname(ty))
        arr = self.heap_get(st, key, z3.ArraySort(I, sort_of(ty)))
        t = z3.Select(arr, ref.t)
        t = z3.simplify(t)
        v = self.wf(st, from_term(ty, t))
        ff = self.reg.field_facts.get(attr)
        if ff is not None and not getattr(self, 'no_facts', 0):
            k = ('ff', attr, t.get_id())
            if k not in st.facts_seen:
                st.facts_seen.add(k)
                st.fact(ff(v))
        return v

    def write_field(self, st, ref, attr, ty, val):
        key = ('f', attr, tyname(ty))
        arr = self.heap_get(st, key, z3.ArraySort(I, sort_of(ty)))
        val = coerce(val, ty)
        self.heap_set(st, key, z3.Store(arr, ref.t, to_term(val)))

    # dicts -----------------------------------------------------------------
    def _dd(self, st, d):
        key = ('dd', tyname(d.k), getattr(d, 'tag', None))
        return key, self.heap_get(st, key, z3.ArraySort(I, z3.ArraySort(sort_of(d.k), Bo)))

    def _dv(self, st, d):
        key = ('dv', tyname(d.k), tyname(d.v), getattr(d, 'tag', None))
        return key, self.heap_get(st, key, z3.ArraySort(I, z3.ArraySort(sort_of(d.k), sort_of(d.v))))

    def dict_dom(self, st, d):
        return z3.Select(self._dd(st, d)[1], d.t)

    def dict_vals(self, st, d):
        return z3.Select(self._dv(st, d)[1], d.t)

    def card_fn(self, d):
        return z3.Function('card:' + tyname(d.k), z3.ArraySort(sort_of(d.k), Bo), I)

    def dict_card(self, st, d):
        """number of keys: an uninterpreted function of the domain map (equal domains have equal cardinality),
        with its defining facts instantiated at every update"""
        c = self.card_fn(d)(self.dict_dom(st, d))
        k = ('card', c.get_id())
        if k not in st.facts_seen and not getattr(self, 'no_facts', 0):
            st.facts_seen.add(k)
            st.fact(c >= 0)
        return c

    def dict_has(self, st, d, k):
        k = coerce(k, d.k)
        has = z3.simplify(z3.Select(self.dict_dom(st, d), to_term(k)))
        return has

    def dict_has_fact(self, st, d, has):
        """a present key implies positive cardinality"""
        st.fact(z3.Implies(has, self.dict_card(st, d) > 0))

    def dict_get(self, st, d, k):
        k = coerce(k, d.k)
        t = z3.simplify(z3.Select(self.dict_vals(st, d), to_term(k)))
        return self.wf(st, from_term(d.v, t))

    def dict_set(self, st, d, k, v):
        k = coerce(k, d.k)
        v = coerce(v, d.v)
        kd, dd = self._dd(st, d)
        kv, dv = self._dv(st, d)
        dom = z3.Select(dd, d.t)
        new_dom = z3.Store(dom, to_term(k), True)
        f = self.card_fn(d)
        st.fact(f(new_dom) == f(dom) + z3.If(z3.Select(dom, to_term(k)), 0, 1), f(dom) >= 0)
        self.heap_set(st, kd, z3.Store(dd, d.t, new_dom))
        self.heap_set(st, kv, z3.Store(dv, d.t, z3.Store(z3.Select(dv, d.t), to_term(k), to_term(v))))

    def dict_del(self, st, d, k):
        k = coerce(k, d.k)
        kd, dd = self._dd(st, d)
        dom = z3.Select(dd, d.t)
        new_dom = z3.Store(dom, to_term(k), False)
        f = self.card_fn(d)
        st.fact(f(new_dom) == f(dom) - z3.If(z3.Select(dom, to_term(k)), 1, 0), f(new_dom) >= 0)
        self.heap_set(st, kd, z3.Store(dd, d.t, new_dom))

    def new_dict(self, st, k, v, tag=None):
        r = st.alloc
        st.alloc = st.alloc + 1
        d = VDict(r, k, v, tag)
        kd, dd = self._dd(st, d)
        empty = z3.K(sort_of(k), False)
        st.fact(self.card_fn(d)(empty) == 0)
        self.heap_set(st, kd, z3.Store(dd, r, empty))
        return d

    # lists -----------------------------------------------------------------
    def _ll(self, st):
        key = ('ll',)
        return key, self.heap_get(st, key, z3.ArraySort(I, I))

    def _le(self, st, l):
        key = ('le', tyname(l.e))
        return key, self.heap_get(st, key, z3.ArraySort(I, z3.ArraySort(I, sort_of(l.e))))

    def list_len(self, st, l):
        n = z3.simplify(z3.Select(self._ll(st)[1], l.t))
        k = ('ll', n.get_id())
        if k not in st.facts_seen and not z3.is_int_value(n) and not getattr(self, 'no_facts', 0):
            st.facts_seen.add(k)
            st.fact(n >= 0)
        return n

    def list_at(self, st, l, i):
        t = z3.simplify(z3.Select(z3.Select(self._le(st, l)[1], l.t), i))
        return self.wf(st, from_term(l.e, t))

    def list_store(self, st, l, length, arr):
        kl, ll = self._ll(st)
        ke, le = self._le(st, l)
        self.heap_set(st, kl, z3.Store(ll, l.t, length))
        self.heap_set(st, ke, z3.Store(le, l.t, arr))
        if l.e == BYTES:
            # ghost: concatenation of a list of byte strings (maintained by append, havocked otherwise)
            self.set_list_joined(st, l, self.fresh_val(st, BYTES, 'joined'))

    def list_joined(self, st, l):
        arr = self.heap_get(st, ('lj',), z3.ArraySort(I, BytesS))
        return self.wf(st, VBytes.from_term(z3.simplify(z3.Select(arr, l.t))))

    def set_list_joined(self, st, l, b):
        arr = self.heap_get(st, ('lj',), z3.ArraySort(I, BytesS))
        self.heap_set(st, ('lj',), z3.Store(arr, l.t, b.t))

    def list_arr(self, st, l):
        return z3.Select(self._le(st, l)[1], l.t)

    def new_list(self, st, e, items=()):
        r = st.alloc
        st.alloc = st.alloc + 1
        l = VList(r, e)
        ke, le = self._le(st, l)
        arr = z3.Select(le, r)
        for n, it in enumerate(items):
            arr = z3.Store(arr, n, to_term(coerce(it, e)))
        self.list_store(st, l, z3.IntVal(len(items)), arr)
        if e == BYTES:
            j = VBytes.const(b'')
            for it in items:
                j = self.bytes_concat(j, it)
            self.set_list_joined(st, l, j)
        return l

    # ------------------------------------------------------------- symbolic
    def fresh_val(self, st, ty, base='v'):
        if ty[0] == 'bytes':
            # a named constant of the byte-string sort; reads are normalised (0 outside [0, len)) and the constant
            # itself is stated to be in normal form by a definition that is only revealed when needed (DEFS)
            c = z3.Const(fresh_name(base), BytesS)
            n, a = BytesS.blen(c), BytesS.barr(c)
            st.fact(n >= 0)
            i0 = z3.Int(fresh_name('bi'))
            DEFS[c.get_id()] = (c, c == BytesS.mkb(n, z3.Lambda([i0], z3.If(z3.And(0 <= i0, i0 < n), z3.Select(a, i0), 0))), [])
            INPUT_BYTES[c.get_id()] = c
            v = VBytes(n, lambda i, a=a: z3.Select(a, i), term=c)     # (out-of-range reads are 0 by the normal-form definition)
            return v
        if ty[0] == 'tuple':
            v = VTuple([self.fresh_val(st, t, base) for t in ty[1]])
            if len(ty) > 2:
                v.ty = ty
            return v
        v = from_term(ty, fresh(ty, base))
        if ty[0] == 'bool':
            return v
        return self.wf(st, v)

    def byte_fact(self, st, t):
        """every element of a byte string is in 0..255"""
        if z3.is_int_value(t):
            return
        k = ('byte', t.get_id())
        if k not in st.facts_seen:
            st.facts_seen.add(k)
            st.fact(z3.And(t >= 0, t <= 255))
