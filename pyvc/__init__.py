"""pyvc -- a small verification-condition generator for (a subset of) Python.

It re-reads the real source of the repository under verification with `ast`
on every run, executes functions symbolically path by path against sidecar
contracts and discharges every obligation with z3 (cvc5 / z3-4.8 as fall-back
for unknowns).  See /verif/DESIGN.md section 2 and Appendix A.
"""
