"""Front end: reads the real source under REPO with `ast` on every run."""
import ast
import hashlib
import importlib
import os
import sys

REPO = os.environ.get('VERIF_REPO', '/repo')


class FuncInfo:
    def __init__(self, module, qualname, node, cls=None):
        self.module = module          # ModuleInfo
        self.qualname = qualname
        self.node = node
        self.cls = cls                # ClassInfo or None
        self.is_async = isinstance(node, ast.AsyncFunctionDef)
        self.decorators = [ast.unparse(d) for d in node.decorator_list]

    @property
    def key(self):
        return '%s:%s' % (self.module.name, self.qualname)

    @property
    def kind(self):
        for d in self.decorators:
            if d == 'staticmethod':
                return 'static'
            if d == 'classmethod':
                return 'class'
            if d == 'property' or d.endswith('.getter'):
                return 'property'
            if d.endswith('.setter'):
                return 'setter'
        return 'plain'

    def source(self):
        return ast.get_source_segment(self.module.text, self.node)

    def source_hash(self):
        return hashlib.sha256(self.source().encode()).hexdigest()[:16]

    def __repr__(self):
        return '<Func %s>' % self.key


class ClassInfo:
    def __init__(self, module, qualname, node):
        self.module = module
        self.qualname = qualname
        self.name = qualname.split('.')[-1]
        self.node = node
        self.methods = {}
        self.setters = {}
        self.base_exprs = [ast.unparse(b) for b in node.bases]
        self.class_attrs = {}   # name -> ast expr (simple assignments)

    def __repr__(self):
        return '<Class %s:%s>' % (self.module.name, self.qualname)


class ModuleInfo:
    def __init__(self, name, path):
        self.name = name
        self.path = path
        self.text = open(path).read()
        self.tree = ast.parse(self.text)
        self.funcs = {}
        self.classes = {}
        self.imports = {}       # local name -> ('module', modname) | ('from', modname, attr)
        self.assigns = {}       # module-level NAME = expr
        self._pymod = None
        self._import_failed = False
        self._index(self.tree.body, '', None)

    def _resolve_rel(self, level, module):
        if level == 0:
            return module
        parts = self.name.split('.')
        is_pkg = os.path.basename(self.path) == '__init__.py'
        base = parts if is_pkg else parts[:-1]
        if level > 1:
            base = base[:-(level - 1)]
        return '.'.join(base + ([module] if module else []))

    def _index(self, body, prefix, cls):
        for n in body:
            if isinstance(n, (ast.FunctionDef, ast.AsyncFunctionDef)):
                q = prefix + n.name
                fi = FuncInfo(self, q, n, cls)
                if cls is not None and fi.kind == 'setter':
                    cls.setters[n.name] = fi
                else:
                    self.funcs[q] = fi
                    if cls is not None:
                        cls.methods[n.name] = fi
            elif isinstance(n, ast.ClassDef):
                q = prefix + n.name
                ci = ClassInfo(self, q, n)
                self.classes[q] = ci
                self._index(n.body, q + '.', ci)
            elif isinstance(n, ast.Import) and cls is None and prefix == '':
                for a in n.names:
                    if a.asname:
                        self.imports[a.asname] = ('module', a.name)
                    else:
                        self.imports[a.name.split('.')[0]] = ('module', a.name.split('.')[0])
            elif isinstance(n, ast.ImportFrom) and cls is None and prefix == '':
                mod = self._resolve_rel(n.level, n.module)
                for a in n.names:
                    self.imports[a.asname or a.name] = ('from', mod, a.name)
            elif isinstance(n, ast.Assign) and len(n.targets) == 1 and isinstance(n.targets[0], ast.Name):
                if cls is not None:
                    cls.class_attrs[n.targets[0].id] = n.value
                elif prefix == '':
                    self.assigns[n.targets[0].id] = n.value
            elif isinstance(n, ast.AnnAssign) and isinstance(n.target, ast.Name) and n.value is not None:
                if cls is not None:
                    cls.class_attrs[n.target.id] = n.value
                elif prefix == '':
                    self.assigns[n.target.id] = n.value
            elif isinstance(n, (ast.If, ast.Try)) and cls is None and prefix == '':
                # module-level conditional definitions: index both arms
                for sub in ast.iter_child_nodes(n):
                    if isinstance(sub, (ast.FunctionDef, ast.ClassDef)):
                        self._index([sub], prefix, cls)

    def pymod(self):
        """The really imported module (or None if it cannot be imported here)."""
        if self._pymod is None and not self._import_failed:
            try:
                self._pymod = importlib.import_module(self.name)
            except Exception:
                self._import_failed = True
        return self._pymod


class Program:
    def __init__(self, repo=None, package='aiocoap'):
        self.repo = repo or REPO
        self.package = package
        if self.repo not in sys.path:
            sys.path.insert(0, self.repo)
        self.modules = {}
        self.roots = [self.repo, os.path.dirname(os.path.dirname(os.path.abspath(__file__)))]

    def module(self, name):
        if name in self.modules:
            return self.modules[name]
        rel = name.replace('.', '/')
        for root in self.roots:
          for cand in (rel + '.py', rel + '/__init__.py'):
            p = os.path.join(root, cand)
            if os.path.exists(p):
                m = ModuleInfo(name, p)
                self.modules[name] = m
                return m
        return None

    def is_repo_module(self, name):
        return name == self.package or name.startswith(self.package + '.')

    def func(self, key):
        mod, q = key.split(':')
        m = self.module(mod)
        if m is None:
            return None
        return m.funcs.get(q)

    def cls(self, key):
        mod, q = key.split(':')
        m = self.module(mod)
        if m is None:
            return None
        return m.classes.get(q)

    def class_by_pyobj(self, c):
        modname = getattr(c, '__module__', None)
        if modname and self.is_repo_module(modname):
            m = self.module(modname)
            if m:
                return m.classes.get(c.__qualname__)
        return None

    def func_by_pyobj(self, f):
        f = getattr(f, '__func__', f)
        modname = getattr(f, '__module__', None)
        q = getattr(f, '__qualname__', None)
        if modname and q and self.is_repo_module(modname):
            m = self.module(modname)
            if m:
                return m.funcs.get(q)
        return None
