"""Per-property check driver: verifies every contract serving the property, replays
counterexamples, writes evidence, prints VIOLATION / KNOWN-FINDING lines, sets the exit code.

exit 0: every obligation proved (and bounded stand-ins found nothing)
exit 1: violation: a refuted obligation (replayed where possible), or an obligation that is recorded in
        baseline/<id>.json as proved on the pinned tree and is not discharged on this tree (reported with
        no-failing-input-found and the solver's reason)
exit 2: undecided (unknown / unsupported construct) on an obligation with no proved baseline, no violation
exit 3: checker crash
"""
import fnmatch
import glob
import importlib
import json
import multiprocessing
import os
import re
import sys
import time
import traceback

VERIF = os.path.dirname(os.path.dirname(os.path.abspath(__file__)))
REPO = os.environ.get('VERIF_REPO', '/repo')


def build(prop=None):
    from .program import Program
    from .registry import Registry
    from . import builtins_model
    prog = Program(REPO)
    reg = Registry()
    builtins_model.install(reg)
    mods = sorted(glob.glob(os.path.join(VERIF, 'contracts', '*.py')))
    names = [os.path.basename(m)[:-3] for m in mods if not os.path.basename(m).startswith('_')]
    first = [n for n in ('common', 'util', 'mm', 'tm') if n in names]
    order = first + [n for n in names if n not in first]
    for n in order:
        m = importlib.import_module('contracts.' + n)
        if hasattr(m, 'register'):
            m.register(reg, prog)
    return prog, reg


def _work(args):
    """verify one contract in a worker process; returns plain data"""
    target, prop, tier = args
    t0 = time.time()
    try:
        from .engine import Engine
        from . import replay as rp
        from . import solve
        prog, reg = build()
        c = reg.contracts[target]
        solve.FAILED[0] = 0
        reg.baseline_locals = load_baseline_locals(prop)
        ex = Engine(prog, reg)
        r = ex.verify(c)
        info = getattr(ex, 'cur_info', None)
        obs = []
        for o in r['obligations']:
            d = {'name': o.name, 'verdict': o.verdict, 'backend': o.backend, 'seconds': round(o.seconds, 4),
                 'note': (o.note or '')[:500]}
            if o.verdict in ('refuted', 'unknown') and info is not None and getattr(info, 'node', None) is not None:
                d.update(_replay(ex, c, info, o, prop, rp))
            obs.append(d)
        return {'target': target, 'status': r['status'], 'error': r['error'], 'paths': r['paths'], 'covers': r['covers'],
                'seconds': round(time.time() - t0, 3), 'obligations': obs, 'file': r.get('file'), 'line': r.get('line'),
                'source_hash': r.get('source_hash'), 'externals': sorted(ex.used_externals),
                'callee_contracts': sorted(ex.used_contracts), 'inlined': sorted(ex.inlined), 'dropped': sorted(ex.dropped),
                'assumptions': list(reg.assumptions), 'stats': dict(solve.STATS), 'verify': c.verify,
                'locals': list(getattr(ex, 'local_names', [])), 'renamed_locals': dict(getattr(ex, 'renamed_locals', {}))}
    except Exception as e:
        return {'target': target, 'status': 'crash', 'error': '%s\n%s' % (e, traceback.format_exc()), 'obligations': [],
                'paths': 0, 'covers': 0, 'seconds': round(time.time() - t0, 3), 'externals': [], 'callee_contracts': [],
                'inlined': [], 'dropped': [], 'assumptions': [], 'stats': {}, 'verify': True}


_REPLAY_SEQ = {}


def _child(conn, args):
    try:
        import resource
        lim = int(os.environ.get('PYVC_MEM_LIMIT_MB', '6000')) * 1024 * 1024
        resource.setrlimit(resource.RLIMIT_AS, (lim, lim))       # fail with MemoryError instead of being killed by the OOM killer
    except Exception:
        pass
    try:
        conn.send(_work(args))
    except BaseException as e:
        try:
            conn.send({'target': args[0], 'status': 'crash', 'error': 'worker failed: %r' % (e,), 'obligations': [], 'paths': 0, 'covers': 0,
                       'seconds': 0.0, 'externals': [], 'callee_contracts': [], 'inlined': [], 'dropped': [], 'assumptions': [], 'stats': {}, 'verify': True})
        except Exception:
            pass
    finally:
        conn.close()


def _run_workers(targets, prop, tier, jobs):
    """One forked process per function under contract, at most `jobs` at a time, each with a wall-clock budget.  A worker that dies
    (out of memory) or exceeds its budget yields an `undecided` record for its function instead of hanging the check
    (multiprocessing.Pool.map waits forever for a worker the OOM killer took)."""
    ctx = multiprocessing.get_context('fork')
    budget = float(os.environ.get('PYVC_FUNCTION_BUDGET_S', '2400' if tier == 'thorough' else '300'))
    pending = list(targets)
    running = {}
    results = {}

    def blank(t, status, error):
        return {'target': t, 'status': status, 'error': error, 'obligations': [], 'paths': 0, 'covers': 0, 'seconds': 0.0, 'externals': [],
                'callee_contracts': [], 'inlined': [], 'dropped': [], 'assumptions': [], 'stats': {}, 'verify': True, 'lost': True}
    while pending or running:
        while pending and len(running) < jobs:
            t = pending.pop(0)
            parent, child = ctx.Pipe(duplex=False)
            p = ctx.Process(target=_child, args=(child, (t, prop, tier)))
            p.start()
            child.close()
            running[t] = (p, parent, time.time())
        time.sleep(0.05)
        for t, (p, conn, t0) in list(running.items()):
            got = None
            try:
                if conn.poll():
                    got = conn.recv()
            except (EOFError, OSError):
                got = None
            if got is not None:
                results[t] = got
                p.join(5)
                del running[t]
            elif not p.is_alive():
                results[t] = blank(t, 'undecided', 'verification worker died without a result (exit code %s; out of memory?)' % p.exitcode)
                del running[t]
            elif time.time() - t0 > budget:
                p.terminate()
                p.join(5)
                results[t] = blank(t, 'undecided', 'verification worker exceeded its wall-clock budget of %d s' % budget)
                del running[t]
    return [results[t] for t in targets]


def _replay(ex, c, info, o, prop, rp):
    """try to turn the solver's counter-model into a failing input of the real code"""
    out = {'replay': None, 'reproduced': False, 'replay_output': ''}
    safe = re.sub(r'[^A-Za-z0-9_.-]+', '_', o.name)[:150]
    # one file per failing path of a clause (a later path must not overwrite the replay a VIOLATION line points to)
    _REPLAY_SEQ[safe] = _REPLAY_SEQ.get(safe, 0) + 1
    n = _REPLAY_SEQ[safe]
    path = os.path.join(VERIF, 'replays', '%s-%s%s.py' % (prop, safe, '' if n == 1 else '.%d' % n))
    inputs = []
    if c.replay:
        try:
            for m in rp.candidate_models(o):
                try:
                    i = rp.inputs_from_model(ex, c, info, o, m)
                    if i not in inputs:
                        inputs.append(i)
                except Exception:
                    continue
        except Exception:
            pass
    verdict = 'refuted by %s' % o.backend if o.verdict == 'refuted' else 'not discharged (solver: unknown)'
    rp.write_replay(path, ex, c, info, o, inputs, verdict)
    out['replay'] = path
    if inputs:
        code, text = rp.run_replay(path)
        out['replay_output'] = text[-1500:]
        out['reproduced'] = (code == 1)
        out['inputs'] = [repr(i)[:300] for i in inputs[:3]]
    return out


def load_known(prop):
    p = os.path.join(VERIF, 'known_findings.json')
    if not os.path.exists(p):
        return []
    data = json.load(open(p))
    # an entry belongs to its property; a clause that is also checked under another property (shared contract) lists it
    return [k for k in data.get('known', []) if k.get('property') == prop or prop in k.get('also_reported_under', [])]


def load_baseline(prop):
    p = os.path.join(VERIF, 'baseline', prop + '.json')
    if not os.path.exists(p):
        return set()
    return set(json.load(open(p)).get('proved', []))


def load_baseline_locals(prop):
    p = os.path.join(VERIF, 'baseline', prop + '.json')
    if not os.path.exists(p):
        return {}
    return json.load(open(p)).get('locals', {})


def run_known_witness(k):
    """replay the recorded witness of a known finding natively; returns True if it still fails"""
    import subprocess
    w = k.get('witness')
    if not w:
        return True
    env = dict(os.environ)
    env['PYTHONPATH'] = REPO
    p = subprocess.run([os.environ.get('VERIF_REPLAY_PYTHON', '/venv/bin/python'), os.path.join(VERIF, w)],
                       capture_output=True, text=True, env=env, timeout=300)
    return p.returncode == 1


def check_property(prop, tier='quick', seed=0, jobs=None, update_baseline=False):
    t0 = time.time()
    os.environ['VERIF_TIER'] = tier
    sys.path.insert(0, VERIF)
    prog, reg = build()
    targets = [t for t, c in reg.contracts.items() if prop in c.properties and c.verify]
    trusted = [t for t, c in reg.contracts.items() if prop in c.properties and not c.verify]
    has_bounded = os.path.exists(os.path.join(VERIF, 'contracts', prop.lower() + '.py')) and \
        hasattr(importlib.import_module('contracts.' + prop.lower()), 'bounded')
    if not targets and not has_bounded:
        print('no contracts registered for %s' % prop)
        return 3
    jobs = jobs or min(16, max(1, len(targets)))
    if not targets:
        results = []
    elif jobs > 1:
        results = _run_workers(targets, prop, tier, jobs)
    else:
        results = [_work((t, prop, tier)) for t in targets]

    bounded = []
    extra = importlib.import_module('contracts.' + prop.lower()) if os.path.exists(os.path.join(VERIF, 'contracts', prop.lower() + '.py')) else None
    if extra is not None and hasattr(extra, 'bounded'):
        bounded = extra.bounded(tier, seed)

    known = load_known(prop)
    baseline = load_baseline(prop)
    # aggregate by clause
    clauses = {}
    for r in results:
        for o in r['obligations']:
            cl = clauses.setdefault(o['name'], {'name': o['name'], 'verdict': 'proved', 'paths': 0, 'backends': set(),
                                                'seconds': 0.0, 'items': []})
            cl['paths'] += 1
            cl['backends'].add(o['backend'])
            cl['seconds'] += o['seconds']
            cl['items'].append(o)
            rank = {'proved': 0, 'canary-proved': 3, 'unknown': 1, 'refuted': 2}
            if rank.get(o['verdict'], 3) > rank.get(cl['verdict'], 0):
                cl['verdict'] = o['verdict']
    violations, undecided, crashes, known_hits = [], [], [], []
    for r in results:
        if r['status'] == 'crash':
            crashes.append('%s: %s' % (r['target'], r['error']))
        elif r['status'] == 'undecided':
            lost = [n for n in baseline if n.startswith(r['target'] + '/')] if r.get('lost') else []
            if lost:
                # the worker of a function whose clauses are all recorded as proved on the pinned tree ran out of time or
                # memory on this tree: its obligations are no longer discharged (reported without an input, reason attached)
                safe = re.sub(r'[^A-Za-z0-9_.-]+', '_', r['target'])[:150]
                path = os.path.join(VERIF, 'replays', '%s-%s-not-verified.py' % (prop, safe))
                os.makedirs(os.path.dirname(path), exist_ok=True)
                with open(path, 'w') as f:
                    f.write('#!/usr/bin/env python3\n"""%s: the %d obligations of %s, proved on the pinned tree, are not discharged on this tree:\n%s\n'
                            'no-failing-input-found\n"""\nimport sys\nprint(__doc__)\nsys.exit(2)\n' % (prop, len(lost), r['target'], r['error']))
                violations.append((r['target'], path, False, {'note': '%d obligations proved on the pinned tree are not discharged: %s' % (len(lost), r['error'])}))
            else:
                undecided.append('%s: %s' % (r['target'], r['error']))
    for name, cl in sorted(clauses.items()):
        if cl['verdict'] == 'proved':
            continue
        if cl['verdict'] == 'canary-proved':
            crashes.append('canary clause proved (vacuous pre-state?): %s' % name)
            continue
        bad = [o for o in cl['items'] if o['verdict'] in ('refuted', 'unknown')]
        if any(o['backend'] == 'solver-disagreement' for o in bad):
            crashes.append('solvers disagree (z3 %s: unsat, z3 4.8.12: sat) on %s' % ('5.x', name))
            continue
        rep = [o for o in bad if o.get('reproduced')]
        k = next((k for k in known if k.get('obligation', '').strip('*') and k.get('obligation', '').strip('*') in name), None)
        if k is not None:
            known_hits.append((k, name))
            continue
        if rep:
            violations.append((name, rep[0]['replay'], True, rep[0]))
        elif any(o['verdict'] == 'refuted' for o in bad):
            o = next(o for o in bad if o['verdict'] == 'refuted')
            violations.append((name, o.get('replay'), False, o))
        elif name in baseline:
            # proved on the pinned tree, not discharged on this one: reported as a violation without an input
            o = bad[0]
            o['note'] = 'proved on the pinned tree, not discharged on this tree; solver: %s' % (o.get('note') or 'unknown')
            violations.append((name, o.get('replay'), False, o))
        else:
            undecided.append('%s: solver unknown (%s)' % (name, bad[0]['note'][:200]))
    for b in bounded:
        for v in b.get('violations', []):
            violations.append((b['name'], v['replay'], True, {'note': v.get('what', '')}))
        for kf in b.get('known', []):
            # a finding of a bounded stand-in: suppressed only if known_findings.json lists its id
            listed = next((k for k in known if k.get('bounded_id') == kf['id']), None)
            if listed is not None:
                known_hits.append((listed, b['name'] + '/' + kf['id']))
            else:
                violations.append((b['name'], None, False, {'note': kf.get('what', '')}))

    n_ob = len(clauses)
    n_proved = sum(1 for c in clauses.values() if c['verdict'] == 'proved')
    wall = time.time() - t0
    write_evidence(prop, tier, seed, reg, results, clauses, bounded, violations, undecided, crashes, known_hits, wall, trusted)

    for r in results:
        print('%-75s %-9s paths=%-4d covers=%-3d %.1fs' % (r['target'], r['status'], r['paths'], r['covers'], r['seconds']))
    print('%s: %d clause-level obligations, %d proved; %d path queries; %.1fs' % (
        prop, n_ob, n_proved, sum(c['paths'] for c in clauses.values()), wall))
    printed = set()
    for k, name in known_hits:
        if id(k) in printed:
            continue
        printed.add(id(k))
        still = run_known_witness(k)
        print('KNOWN-FINDING: property=%s %s%s' % (prop, k.get('what', ''), '' if still else ' (witness no longer fails)'))
    for u in undecided:
        print('UNDECIDED: %s' % u)
    for c in crashes:
        print('CHECKER-ERROR: %s' % c)
    for name, rp_, reproduced, o in violations:
        print('  failed obligation: %s  %s' % (name, (o.get('note') or '')[:200]))
        if o.get('inputs'):
            print('  failing input: %s' % o['inputs'][0])
        print('VIOLATION property=%s replay=%s%s' % (prop, rp_, '' if reproduced else ' no-failing-input-found'))
    if update_baseline:
        if violations or crashes or undecided:
            print('baseline not updated: the run is not clean')
        else:
            os.makedirs(os.path.join(VERIF, 'baseline'), exist_ok=True)
            with open(os.path.join(VERIF, 'baseline', prop + '.json'), 'w') as f:
                json.dump({'property': prop, 'proved': sorted(n for n, c in clauses.items() if c['verdict'] == 'proved'),
                           # names of the locals of every function under contract, in order of first binding: lets a later run
                           # recognise a pure renaming of locals that the contracts refer to by name
                           'locals': {r['target']: r.get('locals', []) for r in results}}, f, indent=1)
    if violations:
        return 1
    if crashes:
        return 3
    if undecided:
        return 2
    return 0


def write_evidence(prop, tier, seed, reg, results, clauses, bounded, violations, undecided, crashes, known_hits, wall, trusted):
    known_names = {n for _, n in known_hits}
    clauses = {k: v for k, v in clauses.items() if k not in known_names}     # recorded findings are listed separately, not claimed
    n_ob = len(clauses)
    n_proved = sum(1 for c in clauses.values() if c['verdict'] == 'proved')
    by_backend = {}
    for c in clauses.values():
        if c['verdict'] == 'proved':
            for b in c['backends']:
                by_backend[b] = by_backend.get(b, 0) + 1
    samples = []
    for c in list(sorted(clauses.values(), key=lambda c: -c['paths']))[:6]:
        samples.append({'obligation': c['name'], 'verdict': c['verdict'], 'path_queries': c['paths'],
                        'backends': sorted(c['backends']), 'solver_s': round(c['seconds'], 3),
                        'clause': c['items'][0].get('note', '')})
    externals = sorted({e for r in results for e in r['externals']})
    assumptions = []
    for r in results:
        for a in r['assumptions']:
            if a not in assumptions:
                assumptions.append(a)
    dropped = sorted({d for r in results for d in r['dropped']})
    base = ['T-ENGINE: the self-written VC generator (pyvc) and its encoding of Python semantics',
            'T-SOLVER: unsat answers of z3 / cvc5',
            'A-INT: Python ints are mathematical integers (exact); floats are reals (A-REAL)',
            'termination is not proved']
    level = 'proof'
    cov = {
        'obligations': n_ob,
        'discharged': n_proved,
        'checker_cmd': './check %s --tier %s' % (prop, tier),
        'trusted_base': base + ['external contract (assumed): ' + e for e in externals] +
                        ['assumed (unverified) contract: ' + t for t in trusted],
        'functions_under_contract': [{'function': r['target'], 'file': r.get('file'), 'line': r.get('line'),
                                      'source_sha256_16': r.get('source_hash'), 'status': r['status'],
                                      'paths': r['paths'], 'covers': r['covers'], 'seconds': r['seconds'],
                                      'callee_contracts_used': r['callee_contracts'], 'inlined_callees': r['inlined']}
                                     for r in results],
        'path_queries': sum(c['paths'] for c in clauses.values()),
        'by_backend': by_backend,
        'solver_time_s': round(sum(c['seconds'] for c in clauses.values()), 3),
        'covers': sum(r['covers'] for r in results),
        'canaries_refuted': sum(1 for c in clauses.values() if '/canary[' in c['name'] and c['verdict'] == 'proved'),
        'front_end_drops': dropped + ['docstrings', 'type annotations'],
        'bounded_standins': bounded,
        'undecided': undecided,
        'checker_errors': crashes,
        'known_findings': [{'obligation': n, 'what': k.get('what')} for k, n in known_hits],
        'violations': [{'obligation': n, 'replay': r, 'reproduced_on_real_code': rep} for n, r, rep, _ in violations],
        'samples': samples,
        'cross_check': {k: sum(r.get('stats', {}).get(k, 0) for r in results) for k in ('cross_checked', 'cross_agree', 'cross_undecided', 'cross_disagree')},
        'slowest_queries': [{'obligation': o['name'], 'solver_s': o['seconds'], 'backend': o['backend']}
                            for o in sorted((o for c in clauses.values() for o in c['items']), key=lambda o: -o['seconds'])[:5]],
        'explanation': 'contract-based deductive verification: VCs generated from the AST of the real source by pyvc, discharged by z3',
    }
    if n_ob == 0 and bounded:
        # no deductive obligation at all: a bounded stand-in only (labelled so, level `other`)
        level = 'other'
        cov.update({
            'explanation': 'bounded stand-in only (no deductive proof within reach, see DESIGN.md): the contracts are evaluated '
                           'natively on an enumerated input space; a failing input is a replayed violation, absence of one is not a proof',
            'evaluations': sum(b.get('inputs_tried', 0) for b in bounded),
            'distinct_nontrivial': sum(b.get('nontrivial', 0) for b in bounded),
            'rule': 'enumeration per stand-in (its `bound`); non-trivial = a path/query segment with a reserved character, an empty or '
                    'non-ASCII segment, or a host with escapes / upper case; counted by the enumerator',
            'exhaustive': all(b.get('exhaustive', False) for b in bounded),
            'samples': [smp for b in bounded for smp in b.get('samples', [])][:8] or [{'note': 'no sample recorded'}],
        })
        for k in ('obligations', 'discharged'):
            cov.pop(k, None)
    ev = {'property_id': prop, 'tier': tier, 'seed': seed, 'level': level, 'coverage': cov,
          'assumptions': assumptions + base, 'wall_s': round(wall, 2), 'violations': len(violations)}
    os.makedirs(os.path.join(VERIF, 'evidence'), exist_ok=True)
    with open(os.path.join(VERIF, 'evidence', prop + '.json'), 'w') as f:
        json.dump(ev, f, indent=1, default=str)


def main(argv):
    import argparse
    ap = argparse.ArgumentParser()
    ap.add_argument('prop')
    ap.add_argument('--tier', default=os.environ.get('VERIF_TIER', 'quick'))
    ap.add_argument('--replay')
    ap.add_argument('--jobs', type=int)
    ap.add_argument('--update-baseline', action='store_true',
                    help='record the clause names proved on this (clean, pinned) tree; never used by a registered command')
    a = ap.parse_args(argv)
    if a.replay:
        from . import replay as rp
        code, text = rp.run_replay(a.replay)
        print(text)
        if code == 1:
            print('VIOLATION property=%s replay=%s' % (a.prop, a.replay))
        return code
    seed = int(os.environ.get('VERIF_SEED', '0') or 0)
    # solver input files of this run live in one directory that is removed at the end, also when a worker was killed
    import shutil
    import tempfile
    scratch = tempfile.mkdtemp(prefix='pyvc-%s-' % a.prop)
    os.environ['PYVC_SCRATCH'] = scratch
    try:
        return check_property(a.prop, a.tier, seed, a.jobs, a.update_baseline)
    finally:
        shutil.rmtree(scratch, ignore_errors=True)
