"""Spec functions written from RFC 7252 section 3 / 3.1 / 3.2 (not from the code).
Restricted Python: the verifier executes this very text symbolically, replays run it natively."""


def ext(v):
    """Option delta / length v -> (nibble, extension bytes); RFC 7252 section 3.1.
    Defined for 0 <= v < 65805 (13 + 256 + 65536 - 1 is the largest encodable value is 65804)."""
    if v < 13:
        return (v, b"")
    if v < 269:
        return (13, bytes([v - 13]))
    return (14, bytes([(v - 269) // 256, (v - 269) % 256]))


def ext_nibble(v):
    return ext(v)[0]


def ext_bytes(v):
    return ext(v)[1]


def read_ext(nibble, data):
    """Independent reading of RFC 7252 section 3.1: value announced by a nibble plus following bytes,
    and the rest.  None if malformed (nibble 15 or missing bytes)."""
    if nibble < 13:
        return (nibble, data)
    if nibble == 13:
        if len(data) < 1:
            return None
        return (data[0] + 13, data[1:])
    if nibble == 14:
        if len(data) < 2:
            return None
        return (data[0] * 256 + data[1] + 269, data[2:])
    return None


def parse_one(prev, data):
    """One option at the start of `data` (non-empty, first byte not 0xFF), RFC 7252 section 3.1:
    returns (option number, raw value, rest) or None if the option is malformed/truncated."""
    dn = data[0] // 16
    ln = data[0] % 16
    r1 = read_ext(dn, data[1:])
    if r1 is None:
        return None
    r2 = read_ext(ln, r1[1])
    if r2 is None:
        return None
    if len(r2[1]) < r2[0]:
        return None
    return (prev + r1[0], r2[1][:r2[0]], r2[1][r2[0]:])


# Options whose value format is "string" (RFC 7252 section 5.10, table 4)
STRING_OPTIONS = (3, 8, 11, 15, 20, 35, 39)


def is_string_option(number):
    return number in STRING_OPTIONS


def enc1(prev, number, value):
    """One option on the wire (RFC 7252 section 3.1): header byte with delta and length nibbles,
    extended delta, extended length, value.  prev is the number of the preceding option (0 at the start)."""
    d = ext(number - prev)
    l = ext(len(value))
    return bytes([d[0] * 16 + l[0]]) + d[1] + l[1] + value


def header(mtype, code, mid, token):
    """Fixed 4-byte header plus token, RFC 7252 section 3 (Ver=1, T, TKL, Code, Message ID big-endian)."""
    return bytes([64 + mtype * 16 + len(token), code, mid // 256, mid % 256]) + token


def datagram(mtype, code, mid, token, opts, payload):
    """opts: the already serialised option sequence"""
    if len(payload) > 0:
        return header(mtype, code, mid, token) + opts + b"\xff" + payload
    return header(mtype, code, mid, token) + opts


def parse_options(data):
    """Native-only (has a loop; never executed symbolically): the iteration of parse_one from option number 0.
    Returns (list of (number, raw value), payload) or None if malformed."""
    opts = []
    prev = 0
    while len(data) > 0:
        if data[0] == 0xFF:
            return (opts, data[1:])
        p = parse_one(prev, data)
        if p is None:
            return None
        opts.append((p[0], p[1]))
        prev = p[0]
        data = p[2]
    return (opts, b"")


def parse_datagram(b):
    """Native-only independent reading of RFC 7252 section 3: (type, code, mid, token, options, payload) or None."""
    if len(b) < 4 or b[0] // 64 != 1:
        return None
    tkl = b[0] % 16
    o = parse_options(b[4 + tkl:])
    if o is None:
        return None
    return ((b[0] // 16) % 4, b[1], b[2] * 256 + b[3], b[4:4 + tkl], o[0], o[1])


def nr_suppressed(no_response, code):
    """RFC 7967 section 2: a response of class c (2, 4, 5) is suppressed iff bit c-1 of the No-Response value is set."""
    return (no_response // 2 ** (code // 32 - 1)) % 2 == 1
