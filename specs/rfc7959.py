"""Spec functions written from RFC 7959 (block-wise transfers) and RFC 8323 section 6 (BERT), not from the code."""


def bsize(szx):
    """block size for a size exponent 0..6; exponent 7 (BERT) counts in units of 1024 like exponent 6"""
    if szx >= 6:
        return 1024
    return 2 ** (szx + 4)


def block_start(num, szx):
    return num * bsize(szx)


def block_of(body, num, szx):
    """payload of block `num` of `body` for a (non-BERT) size exponent"""
    return body[num * bsize(szx):num * bsize(szx) + bsize(szx)]


def block_more(body, num, szx):
    return num * bsize(szx) + bsize(szx) < len(body)


def valid_block_payload(more, szx, n):
    """RFC 7959 2.2: non-final blocks are exactly the block size, the final block at most the block size;
    BERT (RFC 8323 6): non-final blocks a multiple of 1024"""
    if szx == 7:
        if more:
            return n % 1024 == 0
        return True
    if more:
        return n == bsize(szx)
    return n <= bsize(szx)
