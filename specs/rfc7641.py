"""Spec function written from RFC 7641 section 3.4 (notification freshness), not from the code."""


def fresh(v1, t1, v2, t2, reset):
    """(v2, t2) is fresher than the last accepted notification (v1, t1): 24-bit serial number arithmetic, or more than
    `reset` seconds (128 in the RFC) have passed since the last accepted one arrived"""
    return (v1 < v2 and v2 - v1 < 2 ** 23) or (v1 > v2 and v1 - v2 > 2 ** 23) or (t2 > t1 + reset)
