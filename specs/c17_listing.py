"""C17 bounded stand-in (no solver involved): discovery listing against routing on real Site objects.
Imported by contracts/c17.py (bounded) and by the replay scripts it writes (which run under /venv/bin/python, without z3)."""


def bounded(tier, seed):
    """Discovery vs. routing, natively on real Site objects (string composition of the listing is outside the string model):
    every link of get_resources_as_linkheader(), requested at the path its href spells, must be routed to the very resource
    that link describes, and every resource with a description is listed exactly once.  Bounded, never counted as proved."""
    import asyncio, itertools, os
    import aiocoap
    from aiocoap import resource, Message, GET
    from aiocoap.message import Direction
    VERIF = os.path.dirname(os.path.dirname(os.path.abspath(__file__)))

    class Leaf(resource.Resource):
        def __init__(self, tag):
            super().__init__()
            self.tag = tag

        def get_link_description(self):
            return {'title': self.tag}

        async def render_get(self, request):
            return Message(payload=self.tag.encode())

    comps = ['a', 'b', '']
    # ('',) is left out at top level: its href is "/" which RFC 7252 6.4 decomposes to NO Uri-Path option (the C16 degenerate
    # case), so no URI addresses such a registration at all
    paths = [p for k in range(0, 3) for p in itertools.product(comps, repeat=k) if p != ('',)]
    nestpoints = [('sub',), ('s', 't'), ('batch',)]
    viol, n, samples, known = [], 0, [], {}

    def route(site, href):
        assert href.startswith('/'), href
        req = Message(code=GET, uri_path=tuple(href[1:].split('/')) if href != '/' else ())
        req.direction = Direction.INCOMING
        # a path spelled "/x/" has the components ('x', ''): exactly what urllib-free splitting gives
        try:
            return asyncio.run(site.render(req)).payload.decode()
        except Exception as e:
            return 'ERR ' + type(e).__name__

    combos = list(itertools.combinations(paths, 2))
    if tier != 'thorough':
        combos = combos[::3]
    for top_paths in combos:
        for np in nestpoints:
            for inner_paths in ([(), ('x',)], [('',)], [('y', '')], [(), ('more', '')]):
                n += 1
                root, inner = resource.Site(), resource.Site()
                expect = {}
                for p in top_paths:
                    if p[:len(np)] == np:
                        continue
                    tag = 'top:' + '/'.join(p) + '#%d' % len(expect)
                    root.add_resource(p, Leaf(tag))
                    expect[tag] = None
                for p in inner_paths:
                    tag = 'in:' + '/'.join(p) + '#%d' % len(expect)
                    inner.add_resource(p, Leaf(tag))
                    expect[tag] = None
                root.add_resource(np, inner)
                links = root.get_resources_as_linkheader().links
                titles = [dict(l.attr_pairs).get('title') for l in links]
                bad = None
                if sorted(titles) != sorted(expect):
                    bad = 'listing names %r, registered %r' % (sorted(titles), sorted(expect))
                else:
                    for l in links:
                        t = dict(l.attr_pairs).get('title')
                        if not l.href.startswith('/'):
                            bad = 'link for %s has a href that is not an absolute path: %r' % (t, l.href)
                            break
                        got = route(root, l.href)
                        if got != t:
                            bad = 'link <%s> for %s is answered by %s' % (l.href, t, got)
                            break
                if bad and ('',) in inner_paths and 'NotFound' in bad and bad.startswith('link <%s/>' % ('/' + '/'.join(np))):
                    # the deliberate special case of the router (a single empty remaining component addresses the nested site's
                    # root) shadows a resource registered at ('',) inside a nested site: recorded finding, see known_findings.json
                    known.setdefault('C17-nested-empty-component', bad + ' (nested site at %r with %r)' % (np, inner_paths))
                    bad = None
                if len(samples) < 3 and n % 50 == 0:
                    samples.append({'registered': sorted(expect), 'listed': [l.href for l in links]})
                if bad and len(viol) < 10:
                    path = os.path.join(VERIF, 'replays', 'C17-listing-%d.py' % (len(viol) + 1))
                    os.makedirs(os.path.dirname(path), exist_ok=True)
                    with open(path, 'w') as f:
                        f.write('#!/venv/bin/python\n"""C17 replay (bounded stand-in, discovery vs routing): %s\nsite: top-level %r, nested site at %r with %r"""\n'
                                'import sys, os\nsys.path.insert(0, %r); sys.path.insert(0, os.environ.get("VERIF_REPO", "/repo"))\n'
                                'from specs.c17_listing import replay_listing\nsys.exit(replay_listing(%r, %r, %r))\n' % (bad, top_paths, np, inner_paths, VERIF, list(top_paths), np, inner_paths))
                    viol.append({'what': bad + ' (top-level %r, nested site at %r with %r)' % (top_paths, np, inner_paths), 'replay': path})
    copy_standin = copy_conformance()
    return [copy_standin, filter_conformance(tier), routing_reference(tier), {'name': 'C17/discovery-lists-routable-full-paths', 'tool': 'bounded enumeration (native Site objects)',
             'bound': 'pairs of top-level paths over %r up to 2 components x 3 nesting points x 4 inner layouts' % comps,
             'inputs_tried': n, 'samples': samples, 'violations': viol, 'known': [{'id': k, 'what': v} for k, v in known.items()], 'counted_as_proved': False}]


def replay_listing(top_paths, np, inner_paths):
    import asyncio
    from aiocoap import resource, Message, GET
    from aiocoap.message import Direction

    class Leaf(resource.Resource):
        def __init__(self, tag):
            super().__init__()
            self.tag = tag

        def get_link_description(self):
            return {'title': self.tag}

        async def render_get(self, request):
            return Message(payload=self.tag.encode())
    root, inner = resource.Site(), resource.Site()
    k = 0
    for p in top_paths:
        if tuple(p[:len(np)]) == tuple(np):
            continue
        root.add_resource(tuple(p), Leaf('top:' + '/'.join(p) + '#%d' % k)); k += 1
    for p in inner_paths:
        inner.add_resource(tuple(p), Leaf('in:' + '/'.join(p) + '#%d' % k)); k += 1
    root.add_resource(tuple(np), inner)
    bad = 0
    for l in root.get_resources_as_linkheader().links:
        t = dict(l.attr_pairs).get('title')
        if not l.href.startswith('/'):
            print('href not absolute:', repr(l.href), t); bad = 1; continue
        req = Message(code=GET, uri_path=tuple(l.href[1:].split('/')) if l.href != '/' else ())
        req.direction = Direction.INCOMING
        try:
            got = asyncio.run(root.render(req)).payload.decode()
        except Exception as e:
            got = 'ERR ' + type(e).__name__
        print(l.href, '->', got, '(describes %s)' % t)
        bad |= got != t
    return 1 if bad else 0


def _routing_site(prefixes, leaves):
    """a Site with path-capable catchers at the given prefixes and plain resources at the given exact paths"""
    from aiocoap import resource, Message

    class Leaf(resource.Resource):
        def __init__(self, tag):
            super().__init__()
            self.tag = tag

        async def render_get(self, request):
            return Message(payload=repr((self.tag, tuple(request.opt.uri_path), tuple(getattr(request, '_original_request_path', ()) or ()))).encode())

    class Catch(Leaf, resource.PathCapable):
        pass
    root = resource.Site()
    for p in leaves:
        root.add_resource(tuple(p), Leaf('leaf:' + '/'.join(p)))
    for p in prefixes:
        root.add_resource(tuple(p), Catch('nested:' + '/'.join(p)))
    return root


def _route_reference(prefixes, leaves, path):
    """the routing rule as C17 states it: exact resource, else the nested entry at the LONGEST PROPER prefix (which receives the
    remaining components; a single empty remaining component addresses its root -- the documented special case), else 4.04"""
    path = tuple(path)
    if path in [tuple(p) for p in leaves]:
        return ('leaf:' + '/'.join(path), (), path)
    best = None
    for p in prefixes:
        p = tuple(p)
        if 0 < len(p) < len(path) and path[:len(p)] == p and (best is None or len(p) > len(best)):
            best = p
    if best is None:
        return 'NotFound'
    rest = path[len(best):]
    return ('nested:' + '/'.join(best), () if rest == ('',) else rest, path)


def _route_real(root, path, loop):
    from aiocoap import Message, GET, error
    from aiocoap.message import Direction
    req = Message(code=GET, uri_path=tuple(path))
    req.direction = Direction.INCOMING
    try:
        return eval(loop.run_until_complete(root.render(req)).payload.decode())
    except error.NotFound:
        return 'NotFound'
    except Exception as e:
        return 'ERR ' + type(e).__name__


def routing_reference(tier='quick'):
    """Routing against the rule of the property text, natively on real Site objects with OVERLAPPING nested prefixes (the deductive
    contract of _find_child_and_pathstripped_message covers the loop as written; this stand-in is independent of its shape)."""
    import asyncio, itertools, os
    VERIF = os.path.dirname(os.path.dirname(os.path.abspath(__file__)))
    P = [('a',), ('a', 'b'), ('a', 'b', 'c'), ('b',), ('a', '')]
    L = [[], [('a',), ('x',)], [('a', 'b'), ('a', 'b', 'x')], [('a', 'b', 'c', 'x'), ('b', '')]]
    alphabet = ['a', 'b', 'c', 'x', '']
    paths = [p for k in range(0, 5 if tier == 'thorough' else 4) for p in itertools.product(alphabet, repeat=k)]
    if tier != 'thorough':
        paths += [p for p in itertools.product(['a', 'b', 'c', ''], repeat=4)]
    viol, n, samples = [], 0, []
    loop = asyncio.new_event_loop()
    try:
        for k in (2, 3) if tier == 'thorough' else (2,):
            for prefixes in itertools.combinations(P, k):
                for leaves in L:
                    root = _routing_site(prefixes, leaves)
                    for path in paths:
                        n += 1
                        want, got = _route_reference(prefixes, leaves, path), _route_real(root, path, loop)
                        if len(samples) < 3 and n % 4001 == 0:
                            samples.append({'nested at': prefixes, 'resources': leaves, 'path': path, 'routed to': got})
                        if want != got and len(viol) < 10:
                            rp = os.path.join(VERIF, 'replays', 'C17-routing-%d.py' % (len(viol) + 1))
                            os.makedirs(os.path.dirname(rp), exist_ok=True)
                            what = 'request for /%s with nested entries at %r and resources at %r: (handler, path it sees, original path) = %r, the longest-proper-prefix rule gives %r' % ('/'.join(path), prefixes, leaves, got, want)
                            with open(rp, 'w') as f:
                                f.write('#!/venv/bin/python\n"""C17 replay (bounded stand-in, routing against the longest-proper-prefix rule): %s"""\n'
                                        'import sys, os\nsys.path.insert(0, %r); sys.path.insert(0, os.environ.get("VERIF_REPO", "/repo"))\n'
                                        'from specs.c17_listing import replay_routing\nsys.exit(replay_routing(%r, %r, %r))\n' % (what, VERIF, prefixes, leaves, path))
                            viol.append({'what': what, 'replay': rp})
    finally:
        loop.close()
    return {'name': 'C17/routing-follows-longest-proper-prefix', 'tool': 'bounded enumeration (native Site objects against the rule of the property text)',
            'bound': '%d-subsets of %d overlapping nested prefixes x %d resource layouts x %d request paths (up to %d components over %r)' % (
                3 if tier == 'thorough' else 2, len(P), len(L), len(paths), 4, alphabet),
            'inputs_tried': n, 'samples': samples, 'violations': viol, 'counted_as_proved': False}


def replay_routing(prefixes, leaves, path):
    import asyncio
    loop = asyncio.new_event_loop()
    root = _routing_site(prefixes, leaves)
    got, want = _route_real(root, path, loop), _route_reference(prefixes, leaves, path)
    loop.close()
    print('request path', path, '\n routed to      ', got, '\n rule of C17 says', want)
    return 0 if got == want else 1


def copy_conformance():
    """Conformance of the assumed contract of Message.copy (A-COPYOPT: a new message with a new Options object; every field and
    option view equals the original's unless overridden by keyword), which the routing contracts rely on.  Bounded."""
    import os
    from aiocoap import Message, GET
    from aiocoap.numbers.types import Type
    VERIF = os.path.dirname(os.path.dirname(os.path.abspath(__file__)))
    samples = {'uri_path': (('a', ''), ('b',)), 'uri_query': (('x=1',), ()), 'uri_host': ('h', None), 'uri_port': (5683, None), 'observe': (0, 7),
               'block1': ((1, True, 2), None), 'block2': ((0, False, 6), None), 'etag': (b'e1', None), 'content_format': (40, 0), 'accept': (40, None),
               'echo': (b'c', None), 'request_tag': ((b't',), ()), 'max_age': (5, None), 'location_path': (('l',), ()), 'proxy_scheme': ('coap', None),
               'no_response': (26, None), 'size1': (9, None), 'size2': (9, None), 'if_none_match': (True, False), 'hop_limit': (3, None)}
    viol, n = [], 0

    def get(m, v):
        x = getattr(m.opt, v)
        if hasattr(x, 'block_number'):
            return (x.block_number, x.more, x.size_exponent)
        return int(x) if v in ('content_format', 'accept') and x is not None else x
    for v, (val, other) in samples.items():
        for override in (False, True):
            n += 1
            m = Message(code=GET, payload=b'p', **{v: val})
            m.mtype, m.mid, m.token = Type.CON, 7, b'tk'
            m.opt.uri_host = m.opt.uri_host or 'keep.example'
            c = m.copy(**({v: other} if override else {}))
            want = other if override else val
            ok = (c is not m and c.opt is not m.opt and get(c, v) == want and get(m, v) == val and c.code == m.code and c.mtype == m.mtype and c.mid == m.mid
                  and c.token == m.token and c.payload == m.payload and (v == 'uri_host' or c.opt.uri_host == m.opt.uri_host))
            if not ok and len(viol) < 5:
                path = os.path.join(VERIF, 'replays', 'C17-copy-%d.py' % (len(viol) + 1))
                os.makedirs(os.path.dirname(path), exist_ok=True)
                with open(path, 'w') as f:
                    f.write('#!/venv/bin/python\n"""C17 replay (bounded conformance of Message.copy): view %s"""\nimport sys, os\nsys.path.insert(0, os.environ.get("VERIF_REPO", "/repo"))\n'
                            'from aiocoap import Message, GET\nm = Message(code=GET, payload=b"p", **{%r: %r})\nc = m.copy(**%r)\nprint(getattr(c.opt, %r), getattr(m.opt, %r))\n'
                            'sys.exit(0 if c.opt is not m.opt and getattr(c.opt, %r) == %r else 1)\n' % (v, v, val, ({v: other} if override else {}), v, v, v, want))
                viol.append({'what': 'Message.copy(%s): option view %s of the copy is %r, expected %r' % ('%s=%r' % (v, other) if override else '', v, getattr(c.opt, v), want), 'replay': path})
    return {'name': 'C17/message-copy-conformance (A-COPYOPT)', 'tool': 'bounded enumeration (native)', 'bound': '%d option views x with/without override' % len(samples),
            'inputs_tried': n, 'samples': [{'view': 'uri_path', 'value': ('a', ''), 'override': ('b',)}], 'violations': viol, 'counted_as_proved': False}


def filter_conformance(tier='quick'):
    """RFC 6690 section 4.1 filtering of /.well-known/core on a real Site + WKCResource: a query `attr=pattern` returns exactly the
    links one of whose values for that attribute (space separated for rt / if) equals the pattern, or starts with it when it ends
    in '*'; href is matched as a whole.  The oracle below is written from the RFC, values include '=' and spaces.  Bounded."""
    import asyncio, os
    from aiocoap import resource, Message, GET
    from aiocoap.message import Direction
    from aiocoap.util.linkformat import parse
    VERIF = os.path.dirname(os.path.dirname(os.path.abspath(__file__)))

    class Leaf(resource.Resource):
        def __init__(self, **desc):
            super().__init__()
            self.desc = desc

        def get_link_description(self):
            return dict(self.desc)

    class Remote:
        is_multicast = is_multicast_locally = False

    table = {('sensors', 'temp'): {'rt': 'temperature-c', 'if': 'sensor'},
             ('sensors', 'light'): {'rt': 'light-lux urn:dev:type=light', 'if': 'sensor'},
             ('cfg', 'mode=fast'): {'rt': 'config', 'title': 'a=b'},
             ('cfg', 'x'): {'rt': 'config urn:dev:type=other', 'title': 'plain'},
             (): {'rt': 'root'}}
    inner = {('more', ''): {'rt': 'temperature-f'}, (): {'rt': 'urn:dev:type=light'}}

    def build():
        root, sub = resource.Site(), resource.Site()
        for p, d in table.items():
            root.add_resource(p, Leaf(**d))
        for p, d in inner.items():
            sub.add_resource(p, Leaf(**d))
        root.add_resource(('batch',), sub)
        wkc = resource.WKCResource(root.get_resources_as_linkheader, impl_info=None)
        return root, wkc
    links = {('/' + '/'.join(p)): d for p, d in table.items()}
    links.update({('/batch' + '/' + '/'.join(p)): d for p, d in inner.items()})

    def oracle(attr, pattern):
        def m(x):
            return x.startswith(pattern[:-1]) if pattern.endswith('*') else x == pattern
        out = set()
        for href, d in links.items():
            if attr == 'href':
                vals = [href]
            else:
                v = d.get(attr)
                vals = [] if v is None else (v.split(' ') if attr in ('rt', 'if') else [v])
            if any(m(x) for x in vals):
                out.add(href)
        return out
    patterns = {'rt': ['temperature-c', 'temperature-*', 'config', 'urn:dev:type=light', 'urn:dev:type=*', 'urn:dev:*', 'nothing', '*', 'light-lux'],
                'if': ['sensor', 'sens*', 'x'], 'title': ['a=b', 'a=*', 'plain', 'a'], 'href': ['/cfg/mode=fast', '/cfg/*', '/sensors/temp', '/batch/*', '/', '/nothing']}
    viol, n, samples = [], 0, []
    for attr, ps in patterns.items():
        for pat in ps:
            n += 1
            root, wkc = build()
            req = Message(code=GET, uri_query=('%s=%s' % (attr, pat),))
            req.direction, req.remote = Direction.INCOMING, Remote()
            try:
                resp = asyncio.run(wkc.render_get(req))
                got = {l.href for l in parse(resp.payload.decode('utf8')).links}
            except Exception as e:
                got = 'ERR %r' % (e,)
            want = oracle(attr, pat)
            if len(samples) < 3 and '=' in pat:
                samples.append({'query': '%s=%s' % (attr, pat), 'returned': sorted(got) if isinstance(got, set) else got})
            if got != want and len(viol) < 8:
                path = os.path.join(VERIF, 'replays', 'C17-filter-%d.py' % (len(viol) + 1))
                os.makedirs(os.path.dirname(path), exist_ok=True)
                with open(path, 'w') as f:
                    f.write('#!/venv/bin/python\n"""C17 replay (bounded stand-in, RFC 6690 filter): query %s=%s"""\nimport sys, os\nsys.path.insert(0, %r); sys.path.insert(0, os.environ.get("VERIF_REPO", "/repo"))\n'
                            'from specs.c17_listing import replay_filter\nsys.exit(replay_filter(%r, %r))\n' % (attr, pat, VERIF, attr, pat))
                viol.append({'what': 'GET /.well-known/core?%s=%s returns %s, RFC 6690 filtering gives %s' % (attr, pat, sorted(got) if isinstance(got, set) else got, sorted(want)), 'replay': path})
    return {'name': 'C17/wkc-filter-returns-the-matching-subset', 'tool': 'bounded enumeration (native Site + WKCResource)', 'bound': '%d single-filter queries over 7 links' % n,
            'inputs_tried': n, 'samples': samples, 'violations': viol, 'counted_as_proved': False}


def replay_filter(attr, pat):
    b = filter_conformance()
    bad = [v for v in b['violations'] if ('?%s=%s ' % (attr, pat)) in v['what']]
    for v in bad:
        print(v['what'])
    if not bad:
        print('query %s=%s returns the RFC 6690 subset' % (attr, pat))
    return 1 if bad else 0
