"""C17 bounded stand-in (no solver involved): discovery listing against routing on real Site objects.
Imported by contracts/c17.py (bounded) and by the replay scripts it writes (which run under /venv/bin/python, without z3)."""


def bounded(tier, seed):
    """Discovery vs. routing, natively on real Site objects (string composition of the listing is outside the string model):
    every link of get_resources_as_linkheader(), requested at the path its href spells, must be routed to the very resource
    that link describes, and every resource with a description is listed exactly once.  Bounded, never counted as proved."""
    import asyncio, itertools, os
    import aiocoap
    from aiocoap import resource, Message, GET
    from aiocoap.message import Direction
    VERIF = os.path.dirname(os.path.dirname(os.path.abspath(__file__)))

    class Leaf(resource.Resource):
        def __init__(self, tag):
            super().__init__()
            self.tag = tag

        def get_link_description(self):
            return {'title': self.tag}

        async def render_get(self, request):
            return Message(payload=self.tag.encode())

    comps = ['a', 'b', '']
    # ('',) is left out at top level: its href is "/" which RFC 7252 6.4 decomposes to NO Uri-Path option (the C16 degenerate
    # case), so no URI addresses such a registration at all
    paths = [p for k in range(0, 3) for p in itertools.product(comps, repeat=k) if p != ('',)]
    nestpoints = [('sub',), ('s', 't'), ('batch',)]
    viol, n, samples, known = [], 0, [], {}

    def route(site, href):
        assert href.startswith('/'), href
        req = Message(code=GET, uri_path=tuple(href[1:].split('/')) if href != '/' else ())
        req.direction = Direction.INCOMING
        # a path spelled "/x/" has the components ('x', ''): exactly what urllib-free splitting gives
        try:
            return asyncio.run(site.render(req)).payload.decode()
        except Exception as e:
            return 'ERR ' + type(e).__name__

    combos = list(itertools.combinations(paths, 2))
    if tier != 'thorough':
        combos = combos[::3]
    for top_paths in combos:
        for np in nestpoints:
            for inner_paths in ([(), ('x',)], [('',)], [('y', '')], [(), ('more', '')]):
                n += 1
                root, inner = resource.Site(), resource.Site()
                expect = {}
                for p in top_paths:
                    if p[:len(np)] == np:
                        continue
                    tag = 'top:' + '/'.join(p) + '#%d' % len(expect)
                    root.add_resource(p, Leaf(tag))
                    expect[tag] = None
                for p in inner_paths:
                    tag = 'in:' + '/'.join(p) + '#%d' % len(expect)
                    inner.add_resource(p, Leaf(tag))
                    expect[tag] = None
                root.add_resource(np, inner)
                links = root.get_resources_as_linkheader().links
                titles = [dict(l.attr_pairs).get('title') for l in links]
                bad = None
                if sorted(titles) != sorted(expect):
                    bad = 'listing names %r, registered %r' % (sorted(titles), sorted(expect))
                else:
                    for l in links:
                        t = dict(l.attr_pairs).get('title')
                        if not l.href.startswith('/'):
                            bad = 'link for %s has a href that is not an absolute path: %r' % (t, l.href)
                            break
                        got = route(root, l.href)
                        if got != t:
                            bad = 'link <%s> for %s is answered by %s' % (l.href, t, got)
                            break
                if bad and ('',) in inner_paths and 'NotFound' in bad and bad.startswith('link <%s/>' % ('/' + '/'.join(np))):
                    # the deliberate special case of the router (a single empty remaining component addresses the nested site's
                    # root) shadows a resource registered at ('',) inside a nested site: recorded finding, see known_findings.json
                    known.setdefault('C17-nested-empty-component', bad + ' (nested site at %r with %r)' % (np, inner_paths))
                    bad = None
                if len(samples) < 3 and n % 50 == 0:
                    samples.append({'registered': sorted(expect), 'listed': [l.href for l in links]})
                if bad and len(viol) < 10:
                    path = os.path.join(VERIF, 'replays', 'C17-listing-%d.py' % (len(viol) + 1))
                    os.makedirs(os.path.dirname(path), exist_ok=True)
                    with open(path, 'w') as f:
                        f.write('#!/venv/bin/python\n"""C17 replay (bounded stand-in, discovery vs routing): %s\nsite: top-level %r, nested site at %r with %r"""\n'
                                'import sys, os\nsys.path.insert(0, %r); sys.path.insert(0, os.environ.get("VERIF_REPO", "/repo"))\n'
                                'from specs.c17_listing import replay_listing\nsys.exit(replay_listing(%r, %r, %r))\n' % (bad, top_paths, np, inner_paths, VERIF, list(top_paths), np, inner_paths))
                    viol.append({'what': bad + ' (top-level %r, nested site at %r with %r)' % (top_paths, np, inner_paths), 'replay': path})
    return [{'name': 'C17/discovery-lists-routable-full-paths', 'tool': 'bounded enumeration (native Site objects)',
             'bound': 'pairs of top-level paths over %r up to 2 components x 3 nesting points x 4 inner layouts' % comps,
             'inputs_tried': n, 'samples': samples, 'violations': viol, 'known': [{'id': k, 'what': v} for k, v in known.items()], 'counted_as_proved': False}]


def replay_listing(top_paths, np, inner_paths):
    import asyncio
    from aiocoap import resource, Message, GET
    from aiocoap.message import Direction

    class Leaf(resource.Resource):
        def __init__(self, tag):
            super().__init__()
            self.tag = tag

        def get_link_description(self):
            return {'title': self.tag}

        async def render_get(self, request):
            return Message(payload=self.tag.encode())
    root, inner = resource.Site(), resource.Site()
    k = 0
    for p in top_paths:
        if tuple(p[:len(np)]) == tuple(np):
            continue
        root.add_resource(tuple(p), Leaf('top:' + '/'.join(p) + '#%d' % k)); k += 1
    for p in inner_paths:
        inner.add_resource(tuple(p), Leaf('in:' + '/'.join(p) + '#%d' % k)); k += 1
    root.add_resource(tuple(np), inner)
    bad = 0
    for l in root.get_resources_as_linkheader().links:
        t = dict(l.attr_pairs).get('title')
        if not l.href.startswith('/'):
            print('href not absolute:', repr(l.href), t); bad = 1; continue
        req = Message(code=GET, uri_path=tuple(l.href[1:].split('/')) if l.href != '/' else ())
        req.direction = Direction.INCOMING
        try:
            got = asyncio.run(root.render(req)).payload.decode()
        except Exception as e:
            got = 'ERR ' + type(e).__name__
        print(l.href, '->', got, '(describes %s)' % t)
        bad |= got != t
    return 1 if bad else 0
