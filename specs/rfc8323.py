"""Spec functions written from RFC 8323 section 3.2 (CoAP over TCP framing), not from the code."""


def frame_size(data):
    """Header of a frame at the start of `data`: None if the length field is incomplete, else
    (offset of the token = 2 + number of extended length bytes, TKL, length of options+payload)."""
    if len(data) == 0:
        return None
    n = data[0] // 16
    tkl = data[0] % 16
    if n < 13:
        return (2, tkl, n)
    if n == 13:
        if len(data) < 2:
            return None
        return (3, tkl, data[1] + 13)
    if n == 14:
        if len(data) < 3:
            return None
        return (4, tkl, data[1] * 256 + data[2] + 269)
    if len(data) < 5:
        return None
    return (6, tkl, ((data[1] * 256 + data[2]) * 256 + data[3]) * 256 + data[4] + 65805)


def frame_total(data):
    """number of bytes of the whole frame announced at the start of data (frame_size must not be None)"""
    s = frame_size(data)
    return s[0] + s[1] + s[2]


def lenfield(length):
    """(Len nibble, extended length bytes) for a given options+payload length, RFC 8323 section 3.2"""
    if length < 13:
        return (length, b"")
    if length < 269:
        return (13, bytes([length - 13]))
    if length < 65805:
        return (14, bytes([(length - 269) // 256, (length - 269) % 256]))
    v = length - 65805
    return (15, bytes([v // 16777216, (v // 65536) % 256, (v // 256) % 256, v % 256]))


def frame(code, token, body):
    """body: serialised options, and 0xFF + payload if there is a payload"""
    lf = lenfield(len(body))
    return bytes([lf[0] * 16 + len(token)]) + lf[1] + bytes([code]) + token + body
