"""Native (CPython) side of the contract language: used by replays to evaluate the very
clause texts the verifier proved, against the real functions."""
import copy
import importlib

from specs.rfc7252 import *   # noqa  (spec functions: same text the verifier executes symbolically)
try:
    from specs.rfc8323 import *   # noqa
except ImportError:
    pass
try:
    from specs.rfc7959 import *   # noqa
except ImportError:
    pass
try:
    from specs.misc import *   # noqa
except ImportError:
    pass
try:
    from specs.rfc8613 import *   # noqa
    from specs.rfc7641 import *   # noqa
except ImportError:
    pass


def implies(a, b):
    return (not a) or bool(b)


def iff(a, b):
    return bool(a) == bool(b)


def forall(*a):
    raise NotImplementedError('quantifier')


exists = forall


def valid_utf8(b):
    try:
        b.decode('utf-8')
        return True
    except UnicodeDecodeError:
        return False


def utf8_decode(b):
    return b.decode('utf-8')


def utf8_encode(s):
    return s.encode('utf-8')


def be_value(b):
    return int.from_bytes(b, 'big')


class NotEvaluable(Exception):
    pass


def _resolve_exc(name):
    import builtins
    if hasattr(builtins, name):
        return getattr(builtins, name)
    if name == 'struct.error':
        import struct
        return struct.error
    if ':' in name:
        mod, q = name.split(':')
        o = importlib.import_module(mod)
        for p in q.split('.'):
            o = getattr(o, p)
        return o
    from aiocoap import error
    if hasattr(error, name):
        return getattr(error, name)
    # an exception class of the module under test (e.g. aiocoap.oscore.DecodeError)
    mod = _CURRENT_MODULE[0]
    if mod is not None and hasattr(mod, name):
        return getattr(mod, name)
    raise NotEvaluable('exception class %s' % name)


_CURRENT_MODULE = [None]


def _eval(text, env):
    try:
        return eval(text, env)
    except (NameError, NotImplementedError) as e:
        raise NotEvaluable(str(e))


def run_contract(contract, args, g):
    """Call the real function on `args` and evaluate every natively evaluable clause.
    Returns 'VIOLATED <clause>: ...' / 'held' / 'precondition-false' / 'not-evaluable'."""
    env = dict(g)
    env.update(args)
    for r in contract['requires']:
        try:
            if not _eval(r, env):
                return 'precondition-false (%s)' % r
        except NotEvaluable:
            pass
    mod = importlib.import_module(contract['module'])
    _CURRENT_MODULE[0] = mod
    f = mod
    for p in contract['qualname'].split('.'):
        f = getattr(f, p)
    old = copy.deepcopy(args)
    call_args = copy.deepcopy(args)
    try:
        if contract.get('call'):
            e2 = dict(env)
            e2.update(call_args)
            if contract.get('self'):
                e2['self_'] = eval(contract['self'], e2)
                env['self'] = e2['self_']
            result = eval(contract['call'], e2)
        else:
            result = f(**call_args)
        exc = None
    except BaseException as e:   # noqa
        result, exc = None, e
    env['result'] = result
    env['old'] = lambda x: x
    skipped = 0
    if 'oracle' in g:
        v = g['oracle'](old, result, exc)
        if v:
            return 'VIOLATED oracle: %s' % v
    if exc is not None:
        matched = None
        for cls, cond in contract['raises'].items():
            try:
                klass = _resolve_exc(cls)
            except NotEvaluable:
                return 'not-evaluable (exception class %s)' % cls
            if isinstance(exc, klass):
                matched = (cls, cond)
                break
        if matched is None:
            if contract['only_raises']:
                return 'VIOLATED only_raises: %s: %s escapes' % (type(exc).__name__, exc)
            return 'held (unlisted exception %s allowed)' % type(exc).__name__
        cls, cond = matched
        if cond is not None:
            try:
                if not _eval(cond, dict(env, **old)):
                    return 'VIOLATED raises[%s]/only_if: raised although not (%s)' % (cls, cond)
            except NotEvaluable:
                skipped += 1
        return 'held (raised %s)' % cls if not skipped else 'not-evaluable'
    for cls, cond in contract['raises'].items():
        if cond is None:
            continue
        try:
            if _eval(cond, dict(env, **old)):
                return 'VIOLATED raises[%s]/iff: returned normally although %s' % (cls, cond)
        except NotEvaluable:
            skipped += 1
    for name, cl in contract['ensures'].items():
        try:
            if not _eval(cl, dict(env, **old)):
                return 'VIOLATED ensures[%s]: %s (result=%r)' % (name, cl, result)
        except NotEvaluable:
            skipped += 1
    return 'held' if not skipped else 'held (%d clauses not natively evaluable)' % skipped


def mk_message(d):
    """real Message from a concretised heap object (dict of declared fields)"""
    from aiocoap.message import Message
    from aiocoap.numbers.codes import Code
    from aiocoap.numbers.types import Type
    m = Message(code=Code(d['code']) if d.get('code') is not None else None,
                payload=d.get('payload', b'') or b'')
    if d.get('mtype') is not None:
        m.mtype = Type(d['mtype'] % 4)
    m.mid = d.get('mid')
    m.token = d.get('token', b'') or b''
    o = d.get('opt') or {}
    for k in ('observe', 'no_response', 'size1', 'size2'):
        if isinstance(o, dict) and o.get(k) is not None:
            setattr(m.opt, k, o[k])
    for k in ('uri_path', 'uri_query'):
        if isinstance(o, dict) and o.get(k):
            setattr(m.opt, k, tuple(o[k]))
    for k in ('block1', 'block2'):
        if isinstance(o, dict) and o.get(k) is not None:
            n, more, szx = o[k]
            setattr(m.opt, k, (max(n, 0), bool(more), szx % 8))
    return m
