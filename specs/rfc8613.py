"""Spec functions written from RFC 8613 (OSCORE): section 6.1 (compressed COSE object in the OSCORE option)
and section 5.2 (AEAD nonce layout), not from the code."""


def oscore_option(piv, kid, kid_context, group):
    """Value of the OSCORE option (RFC 8613 section 6.1, figure 10, plus the group flag bit 5 of
    draft-ietf-core-oscore-groupcomm).  piv: bytes (n = len(piv), at most 7 fits the three n bits; RFC: 0..5);
    kid, kid_context: bytes or None; group: bool.  All-absent gives the empty option value."""
    first = len(piv) + (8 if kid is not None else 0) + (16 if kid_context is not None else 0) + (32 if group else 0)
    if first == 0:
        return b""
    out = bytes([first]) + piv
    if kid_context is not None:
        out = out + bytes([len(kid_context)]) + kid_context
    if kid is not None:
        out = out + kid
    return out


def parse_oscore_option(data):
    """Inverse of oscore_option: None if `data` is malformed (reserved bits set, reserved partial IV length 6 or 7,
    announced fields missing), else
    (piv, kid or None, kid_context or None, group).  The kid is the rest of the option."""
    if len(data) == 0:
        return (b"", None, None, False)
    first = data[0]
    if first >= 64:
        return None
    n = first % 8
    if n > 5:
        return None         # "the values 6 and 7 are reserved" (RFC 8613 section 6.1)
    has_kid = (first // 8) % 2 == 1
    has_ctx = (first // 16) % 2 == 1
    group = (first // 32) % 2 == 1
    if len(data) < 1 + n:
        return None
    piv = data[1:1 + n]
    pos = 1 + n
    ctx = None
    if has_ctx:
        if len(data) < pos + 1:
            return None
        s = data[pos]
        if len(data) < pos + 1 + s:
            return None
        ctx = data[pos + 1:pos + 1 + s]
        pos = pos + 1 + s
    kid = None
    if has_kid:
        kid = data[pos:]
    return (piv, kid, ctx, group)


def nonce_layout(piv, generator_id, iv_bytes):
    """RFC 8613 section 5.2 steps 1-3: the value that is XORed with the Common IV.
    one byte len(ID_PIV) | ID_PIV left-padded with zeroes to iv_bytes-6 | PIV left-padded with zeroes to 5"""
    return bytes([len(generator_id)]) + bytes(iv_bytes - 6 - len(generator_id)) + generator_id + bytes(5 - len(piv)) + piv


def pad5(piv):
    """the partial IV as it enters the nonce: left-padded with zeroes to 5 bytes"""
    return bytes(5 - len(piv)) + piv
