"""C13 bounded stand-in (no solver involved): histories of a real FilesystemSecurityContext with crashes and clean stops.

The deductive contracts of C13 cover the sender sequence number at every file-system operation of `_store` /
`post_seqnoincrease` / `new_sequence_number`.  The replay-state clause ("after an unclean stop the persisted replay state is
treated as unknown ...; after a clean stop the persisted window still rejects every number accepted before") runs through
`_load` (JSON files, not under contract) and through `unprotect` / `ReplayErrorWithEcho.to_message` / `protect` in sequence; it is
exercised here natively, at operation granularity (a crash = the directory as it stands on disk after an operation, loaded into a
new context object), with the functional stand-ins of specs/oscore_standins.py for the absent cbor2 / cryptography / filelock.
Bounded, never counted as proved.  Imported by contracts/c13.py and by the replay scripts it writes (which run without z3)."""
import itertools
import json
import os
import shutil
import tempfile

OPS = ('req', 'send', 'crash', 'clean', 'replay-first', 'replay-last', 'echo')


class World:
    """a client (in memory) and a server whose security context lives in a directory"""

    def __init__(self):
        from specs.oscore_standins import load_oscore, memory_context_class, SECRET, SALT, ID_CONTEXT
        self.oscore = load_oscore()
        self.root = tempfile.mkdtemp(prefix='c13hist')
        self.gen = 0
        self.dir = os.path.join(self.root, 'ctx0')
        os.mkdir(self.dir)
        with open(os.path.join(self.dir, 'settings.json'), 'w') as f:
            json.dump({'sender-id_hex': '01', 'recipient-id_hex': '00', 'secret_hex': SECRET.hex(), 'salt_hex': SALT.hex(),
                       'id-context_hex': ID_CONTEXT.hex()}, f)
        self.client = memory_context_class()(b'\x00', b'\x01', ID_CONTEXT, SECRET, SALT)
        self.server = self.oscore.FilesystemSecurityContext(self.dir)
        self.recorded = []          # protected requests as seen on the wire, in the order the server ACCEPTED them
        self.enc = {}               # (key, nonce) -> plaintext of every encryption so far
        self.problems = []
        self.server_numbers = []    # partial IVs the server issued itself, in order
        orig = self.oscore.AES_CCM.encrypt.__func__
        world = self

        def encrypt(cls, plaintext, aad, key, iv):
            k = (bytes(key), bytes(iv))
            if k in world.enc and world.enc[k] != bytes(plaintext):
                world.problems.append('the AEAD nonce %s was used twice under one key, for different plaintexts' % bytes(iv).hex())
            world.enc[k] = bytes(plaintext)
            return orig(cls, plaintext, aad, key, iv)
        self._orig_encrypt = self.oscore.AES_CCM.__dict__['encrypt']
        self.oscore.AES_CCM.encrypt = classmethod(encrypt)

    def close(self):
        self.oscore.AES_CCM.encrypt = self._orig_encrypt
        self._abandon(self.server)
        shutil.rmtree(self.root, ignore_errors=True)

    @staticmethod
    def _abandon(ctx):
        ctx.lockfile = None         # the process is gone: nothing of it runs any more (no _destroy from __del__)

    # -- messages
    def _new_request(self, echo=None):
        from aiocoap import Message, GET
        from specs.oscore_standins import over_the_wire
        m = Message(code=GET, uri_path=('x',))
        if echo is not None:
            m.opt.echo = echo
        protected, rid = self.client.protect(m)
        return over_the_wire(protected), rid

    def _serve(self, wire, fresh):
        """what a server does with a protected request: returns 'accepted' / 'echo:<value>' / 'rejected'"""
        from aiocoap import Message, CONTENT
        from specs.oscore_standins import over_the_wire
        osc = self.oscore
        try:
            plain, rid = self.server.unprotect(wire)
        except osc.ReplayErrorWithEcho as e:
            answer = over_the_wire(e.to_message())          # the protected 4.01 with the Echo value
            return 'echo', answer
        except (osc.ReplayError, osc.ProtectionInvalid, osc.DecodeError):
            return 'rejected', None
        response, _ = self.server.protect(Message(code=CONTENT, payload=b'ok'), rid)
        return 'accepted', over_the_wire(response)

    # -- operations
    def op(self, name):
        osc = self.oscore
        if name == 'req':
            wire, rid = self._new_request()
            verdict, answer = self._serve(wire, True)
            if verdict == 'echo':
                # the state of the window is unknown: a fresh request is only accepted after the Echo exchange (done by 'echo')
                if self.server.recipient_replay_window.is_initialized():
                    self.problems.append('a fresh request was answered with an Echo challenge although the replay window is initialised')
            elif verdict == 'accepted':
                if not self.expect_initialised:
                    self.problems.append('a request was accepted without an Echo exchange although the replay state was lost in an unclean stop')
                self.recorded.append(wire)
                self.accepted_this_lifetime = True
                self.client.unprotect(answer, rid)
            else:
                self.problems.append('a fresh, authentic request was rejected outright')
        elif name == 'echo':
            wire, rid = self._new_request()
            verdict, answer = self._serve(wire, True)
            if verdict == 'echo':
                challenge, _ = self.client.unprotect(answer, rid)
                wire2, rid2 = self._new_request(echo=challenge.opt.echo)
                verdict2, answer2 = self._serve(wire2, True)
                if verdict2 != 'accepted':
                    self.problems.append('the request echoing the freshly issued value was not accepted (%s)' % verdict2)
                else:
                    self.recorded.append(wire2)
                    self.accepted_this_lifetime = True
                    self.client.unprotect(answer2, rid2)
                    self.expect_initialised = True
            elif verdict == 'accepted':
                if not self.expect_initialised:
                    self.problems.append('a request was accepted without an Echo exchange although the replay state was lost in an unclean stop')
                self.recorded.append(wire)
                self.accepted_this_lifetime = True
                self.client.unprotect(answer, rid)
        elif name == 'send':
            from aiocoap import Message, GET
            protected, _ = self.server.protect(Message(code=GET, uri_path=('y',)))
            n = self.server.sender_sequence_number - 1
            if self.server_numbers and n <= self.server_numbers[-1]:
                self.problems.append('sender sequence number %d issued after %d' % (n, self.server_numbers[-1]))
            self.server_numbers.append(n)
        elif name in ('replay-first', 'replay-last'):
            if self.recorded:
                wire = self.recorded[0 if name == 'replay-first' else -1]
                verdict, answer = self._serve(wire, False)
                if verdict == 'accepted':
                    self.problems.append('a request accepted earlier (%s of %d) was accepted again' % (name[7:], len(self.recorded)))
        elif name == 'crash':
            self.gen += 1
            new = os.path.join(self.root, 'ctx%d' % self.gen)
            shutil.copytree(self.dir, new, ignore=shutil.ignore_patterns('lock', 'lock.*'))
            self._abandon(self.server)
            self.dir = new
            self.server = osc.FilesystemSecurityContext(self.dir)
            # what this lifetime accepted is not on disk (only the note "unknown" is): the window is known after the crash only if it
            # was known when this lifetime began and nothing was accepted since
            self.expect_initialised = self.expect_initialised and not self.accepted_this_lifetime
            self.accepted_this_lifetime = False
        elif name == 'clean':
            self.server._destroy()
            self.server = osc.FilesystemSecurityContext(self.dir)
            # a clean stop persists the window: no Echo exchange needed (unless it was unknown when stopping -- then it stays so)
            self.accepted_this_lifetime = False
        else:
            raise ValueError(name)

    expect_initialised = True
    accepted_this_lifetime = False


def run_history(ops):
    w = World()
    try:
        for i, o in enumerate(ops):
            try:
                w.op(o)
            except Exception as e:
                w.problems.append('operation %d (%s) raised %s: %s' % (i, o, type(e).__name__, e))
            if w.problems:
                return ['after %r: %s' % (list(ops[:i + 1]), p) for p in w.problems]
        return []
    finally:
        w.close()


def bounded(tier, seed):
    verif = os.path.dirname(os.path.dirname(os.path.abspath(__file__)))
    maxlen = 5 if tier == 'thorough' else 4
    viol, n, samples = [], 0, []
    for k in range(1, maxlen + 1):
        for ops in itertools.product(OPS, repeat=k):
            # a history is interesting only if it starts by talking and contains a stop
            if ops[0] not in ('req', 'send') or not any(o in ('crash', 'clean') for o in ops):
                continue
            n += 1
            problems = run_history(ops)
            if len(samples) < 3 and n % 97 == 0:
                samples.append({'history': list(ops), 'problems': problems})
            if problems and len(viol) < 8:
                path = os.path.join(verif, 'replays', 'C13-history-%d.py' % (len(viol) + 1))
                os.makedirs(os.path.dirname(path), exist_ok=True)
                with open(path, 'w') as f:
                    f.write('#!/venv/bin/python\n"""C13 replay (bounded stand-in, histories with crashes on a real FilesystemSecurityContext): %s"""\n'
                            'import sys, os\nsys.path.insert(0, %r); sys.path.insert(0, os.environ.get("VERIF_REPO", "/repo"))\n'
                            'from specs.c13_history import run_history\nproblems = run_history(%r)\nprint("\\n".join(problems) or "no problem")\nsys.exit(1 if problems else 0)\n'
                            % (problems[0].replace('"""', "'''"), verif, list(ops)))
                viol.append({'what': problems[0], 'replay': path})
    return [{'name': 'C13/crash-and-restart-histories', 'tool': 'bounded enumeration (native FilesystemSecurityContext, functional stand-ins for cbor2 / cryptography / filelock)',
             'bound': 'all histories of up to %d operations from %r that start with traffic and contain a stop; crash = the directory as it stands after an operation' % (maxlen, list(OPS)),
             'inputs_tried': n, 'samples': samples, 'violations': viol, 'counted_as_proved': False}]
