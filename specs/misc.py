"""Small spec helpers shared by several properties (restricted Python, also executed natively)."""


def joined_is_absolute(path):
    """'/'.join(path) starts with '/' -- for components that do not themselves start with '/':
    exactly when there are at least two components and the first one is empty"""
    return len(path) >= 2 and path[0] == ""
