"""Functional stand-ins for the third-party modules aiocoap.oscore needs (cbor2, cryptography, filelock), none of which
is installed in any interpreter of this sandbox: a minimal CBOR codec, RFC 5869 HKDF over hmac, and a generic AEAD
built from HMAC-SHA256 (keystream + truncated tag over nonce, AAD and ciphertext: any change of key, nonce, AAD or
ciphertext makes decryption fail).  With them the REAL aiocoap.oscore code (protect / unprotect / option compression /
nonce and AAD construction) runs natively, which the C11/C12 replays, witnesses and the bounded stand-in use.

Provenance: the stand-ins were written by an independent sub-agent (which saw only the property text and a scratch copy
of the repository) for its own demonstration programs, and are adopted here unchanged; the helper functions at the end
are ours.  They are NOT the real cryptography: nothing about cipher strength is claimed from runs that use them.
"""
import sys
import types
import hmac
import hashlib
import struct


# --------------------------------------------------------------------------
# Stand-ins for missing third party modules
# --------------------------------------------------------------------------


def _install_cbor2_stub():
    mod = types.ModuleType("cbor2")

    class CBORDecodeError(ValueError):
        pass

    def _head(major, n):
        if n < 24:
            return bytes([(major << 5) | n])
        for ai, fmt in ((24, "!B"), (25, "!H"), (26, "!I"), (27, "!Q")):
            if n < 1 << (8 * struct.calcsize(fmt)):
                return bytes([(major << 5) | ai]) + struct.pack(fmt, n)
        raise ValueError("integer too large")

    def dumps(obj, canonical=False):
        if obj is None:
            return b"\xf6"
        if obj is True:
            return b"\xf5"
        if obj is False:
            return b"\xf4"
        if isinstance(obj, int):
            return _head(0, obj) if obj >= 0 else _head(1, -1 - obj)
        if isinstance(obj, (bytes, bytearray)):
            return _head(2, len(obj)) + bytes(obj)
        if isinstance(obj, str):
            e = obj.encode("utf8")
            return _head(3, len(e)) + e
        if isinstance(obj, (list, tuple)):
            return _head(4, len(obj)) + b"".join(dumps(x) for x in obj)
        if isinstance(obj, dict):
            return _head(5, len(obj)) + b"".join(
                dumps(k) + dumps(v) for k, v in obj.items()
            )
        raise TypeError("cbor2 stand-in can not encode %r" % (obj,))

    def _load(data, pos):
        try:
            ib = data[pos]
        except IndexError:
            raise CBORDecodeError("premature end")
        pos += 1
        major, ai = ib >> 5, ib & 31
        if major == 7:
            return {20: False, 21: True, 22: None}[ai], pos
        if ai < 24:
            n = ai
        else:
            size = {24: 1, 25: 2, 26: 4, 27: 8}.get(ai)
            if size is None or pos + size > len(data):
                raise CBORDecodeError("bad length")
            n = int.from_bytes(data[pos : pos + size], "big")
            pos += size
        if major == 0:
            return n, pos
        if major == 1:
            return -1 - n, pos
        if major in (2, 3):
            if pos + n > len(data):
                raise CBORDecodeError("premature end")
            raw = bytes(data[pos : pos + n])
            return (raw if major == 2 else raw.decode("utf8")), pos + n
        if major == 4:
            out = []
            for _ in range(n):
                item, pos = _load(data, pos)
                out.append(item)
            return out, pos
        if major == 5:
            out = {}
            for _ in range(n):
                k, pos = _load(data, pos)
                v, pos = _load(data, pos)
                out[k] = v
            return out, pos
        raise CBORDecodeError("unsupported")

    def loads(data):
        try:
            item, _ = _load(bytes(data), 0)
        except KeyError:
            raise CBORDecodeError("unsupported simple value")
        return item

    mod.dumps = dumps
    mod.loads = loads
    mod.CBORDecodeError = CBORDecodeError
    sys.modules["cbor2"] = mod


def _install_filelock_stub():
    mod = types.ModuleType("filelock")

    class FileLock:
        def __init__(self, lock_file):
            self.lock_file = lock_file

        def acquire(self, timeout=None):
            open(self.lock_file, "a").close()

        def release(self):
            pass

    mod.FileLock = FileLock
    sys.modules["filelock"] = mod


def _install_cryptography_stub():
    def module(name):
        m = types.ModuleType(name)
        sys.modules[name] = m
        parent, _, child = name.rpartition(".")
        if parent:
            setattr(sys.modules[parent], child, m)
        return m

    class _Anything:
        """Placeholder for asymmetric primitives, which this demo never uses."""

        def __init__(self, *args, **kwargs):
            raise NotImplementedError("not available in the stand-in")

    class _AnythingModule(types.ModuleType):
        def __getattr__(self, name):
            if name.startswith("__"):
                raise AttributeError(name)
            return _Anything

    root = module("cryptography")
    root.__path__ = []
    exc = module("cryptography.exceptions")

    class InvalidTag(Exception):
        pass

    class InvalidSignature(Exception):
        pass

    class UnsupportedAlgorithm(Exception):
        pass

    exc.InvalidTag = InvalidTag
    exc.InvalidSignature = InvalidSignature
    exc.UnsupportedAlgorithm = UnsupportedAlgorithm

    module("cryptography.hazmat").__path__ = []
    backends = module("cryptography.hazmat.backends")
    backends.default_backend = lambda: None
    module("cryptography.hazmat.primitives").__path__ = []

    # hashes
    hashes = module("cryptography.hazmat.primitives.hashes")

    class HashAlgorithm:
        name = None

    def _hash(n):
        return type(n.upper(), (HashAlgorithm,), {"name": n})

    hashes.HashAlgorithm = HashAlgorithm
    hashes.SHA256 = _hash("sha256")
    hashes.SHA384 = _hash("sha384")
    hashes.SHA512 = _hash("sha512")

    class Hash:
        def __init__(self, algorithm, backend=None):
            self._h = hashlib.new(algorithm.name)

        def update(self, data):
            self._h.update(data)

        def finalize(self):
            return self._h.digest()

    hashes.Hash = Hash

    # HKDF (RFC 5869)
    module("cryptography.hazmat.primitives.kdf").__path__ = []
    hkdfmod = module("cryptography.hazmat.primitives.kdf.hkdf")

    class HKDF:
        def __init__(self, algorithm, length, salt, info, backend=None):
            self._name = algorithm.name
            self._length = length
            self._salt = salt
            self._info = info or b""

        def derive(self, ikm):
            hashlen = hashlib.new(self._name).digest_size
            salt = self._salt or b"\0" * hashlen
            prk = hmac.new(salt, ikm, self._name).digest()
            okm = b""
            t = b""
            i = 1
            while len(okm) < self._length:
                t = hmac.new(prk, t + self._info + bytes([i]), self._name).digest()
                okm += t
                i += 1
            return okm[: self._length]

    hkdfmod.HKDF = HKDF

    # AEAD: HMAC-SHA256 based keystream and tag. Not AES, but a genuine AEAD
    # construction: output depends on key, nonce, AAD and plaintext, and
    # decryption fails unless all of them match.
    ciphers = module("cryptography.hazmat.primitives.ciphers")
    ciphers.__path__ = []
    aead = module("cryptography.hazmat.primitives.ciphers.aead")

    def _keystream(key, nonce, n):
        out = b""
        ctr = 0
        while len(out) < n:
            out += hmac.new(
                key, b"stream" + nonce + ctr.to_bytes(4, "big"), "sha256"
            ).digest()
            ctr += 1
        return out[:n]

    def _tag(key, nonce, aad, ct, n):
        aad = aad or b""
        return hmac.new(
            key,
            b"tag"
            + len(nonce).to_bytes(2, "big")
            + nonce
            + len(aad).to_bytes(4, "big")
            + aad
            + ct,
            "sha256",
        ).digest()[:n]

    class _Aead:
        tag_length = 16

        def __init__(self, key, tag_length=None):
            self._key = bytes(key)
            if tag_length is not None:
                self.tag_length = tag_length

        def encrypt(self, nonce, data, associated_data):
            ct = bytes(
                a ^ b for a, b in zip(data, _keystream(self._key, nonce, len(data)))
            )
            return ct + _tag(self._key, nonce, associated_data, ct, self.tag_length)

        def decrypt(self, nonce, data, associated_data):
            if len(data) < self.tag_length:
                raise InvalidTag()
            ct, tag = data[: -self.tag_length], data[-self.tag_length :]
            expected = _tag(self._key, nonce, associated_data, ct, self.tag_length)
            if not hmac.compare_digest(tag, expected):
                raise InvalidTag()
            return bytes(
                a ^ b for a, b in zip(ct, _keystream(self._key, nonce, len(ct)))
            )

    class AESCCM(_Aead):
        def __init__(self, key, tag_length=16):
            super().__init__(key, tag_length)

    class AESGCM(_Aead):
        pass

    class ChaCha20Poly1305(_Aead):
        pass

    aead.AESCCM = AESCCM
    aead.AESGCM = AESGCM
    aead.ChaCha20Poly1305 = ChaCha20Poly1305

    for name in ("base", "algorithms", "modes"):
        m = _AnythingModule("cryptography.hazmat.primitives.ciphers." + name)
        sys.modules[m.__name__] = m
        setattr(ciphers, name, m)

    # asymmetric / serialization: only referenced, never executed here
    asym = module("cryptography.hazmat.primitives.asymmetric")
    asym.__path__ = []
    for name in ("ed25519", "x25519", "ec"):
        m = _AnythingModule("cryptography.hazmat.primitives.asymmetric." + name)
        sys.modules[m.__name__] = m
        setattr(asym, name, m)
    utils = module("cryptography.hazmat.primitives.asymmetric.utils")
    utils.decode_dss_signature = _Anything
    utils.encode_dss_signature = _Anything
    ser = _AnythingModule("cryptography.hazmat.primitives.serialization")
    sys.modules[ser.__name__] = ser
    sys.modules["cryptography.hazmat.primitives"].serialization = ser


def ensure_oscore_dependencies():
    try:
        import cbor2  # noqa: F401
    except ImportError:
        _install_cbor2_stub()
    try:
        import filelock  # noqa: F401
    except ImportError:
        _install_filelock_stub()
    try:
        import cryptography.exceptions  # noqa: F401
        from cryptography.hazmat.primitives.ciphers.aead import AESCCM  # noqa: F401
    except ImportError:
        _install_cryptography_stub()


def load_oscore():
    """import aiocoap.oscore, installing the stand-ins for whatever is missing"""
    ensure_oscore_dependencies()
    import importlib
    return importlib.import_module('aiocoap.oscore')


def memory_context_class():
    oscore = load_oscore()

    class MemoryContext(oscore.CanProtect, oscore.CanUnprotect, oscore.SecurityContextUtils):
        """In-memory security context (same construction as in the library's tests/test_oscore.py)"""
        echo_recovery = None

        def __init__(self, sender_id, recipient_id, id_context, secret, salt=b""):
            self.alg_aead = oscore.algorithms[oscore.DEFAULT_ALGORITHM]
            self.hashfun = oscore.hashfunctions[oscore.DEFAULT_HASHFUNCTION]
            self.sender_id = sender_id
            self.recipient_id = recipient_id
            self.id_context = id_context
            self.derive_keys(salt, secret)
            self.sender_sequence_number = 0
            self.recipient_replay_window = oscore.ReplayWindow(32, lambda: None)
            self.recipient_replay_window.initialize_empty()

        def post_seqnoincrease(self):
            pass
    return MemoryContext


SECRET = bytes.fromhex("0102030405060708090a0b0c0d0e0f10")
SALT = bytes.fromhex("9e7ca92223786340")
ID_CONTEXT = bytes.fromhex("37cbf3210017a2d3")


def pair(id_context=ID_CONTEXT, secret=SECRET, client_id=b"\x00", server_id=b"\x01"):
    C = memory_context_class()
    return C(client_id, server_id, id_context, secret, SALT), C(server_id, client_id, id_context, secret, SALT)


def over_the_wire(msg):
    """what the receiving side sees of an outgoing protected message"""
    from aiocoap import Message
    from aiocoap.message import Direction
    received = Message(code=msg.code, payload=msg.payload)
    received.opt.decode(msg.opt.encode())
    received.direction = Direction.INCOMING
    return received
