"""C20 bounded stand-in (no solver involved): histories on the real StandaloneResourceDirectory against a reference directory.
Imported by contracts/c20.py (bounded) and by the replay scripts it writes (which run under /venv/bin/python, without z3)."""


# ---------------------------------------------------------------------------------------------------------------------
def _history_runner():
    """Lookup side of C20 (outside the deductive contracts: link-format text, filters, the lifetime task): a bounded exploration
    of operation histories against a reference directory, on the REAL StandaloneResourceDirectory with a hand-moved clock.
    Labelled bounded; never counted as proved."""
    import asyncio, itertools, os
    import aiocoap
    from aiocoap import Message, GET, POST, PUT, DELETE, error
    from aiocoap.numbers import ContentFormat
    from aiocoap.message import Direction
    from aiocoap.cli.rd import StandaloneResourceDirectory
    VERIF = os.path.dirname(os.path.dirname(os.path.abspath(__file__)))
    GRACE = 15

    class FakeClockLoop(asyncio.SelectorEventLoop):
        offset = 0.0

        def time(self):
            return super().time() + self.offset

    class FakeRemote:
        def __init__(self, uri):
            self.uri, self.scheme, self.hostinfo = uri, 'coap', uri.split('://', 1)[1]
            self.hostinfo_local, self.is_multicast, self.is_multicast_locally = 'rd.example', False, False
            self.maximum_block_size_exp, self.maximum_payload_size = 6, 1024

    async def req(site, remote, code, path, query=(), payload=b'', cf=None):
        m = Message(code=code, payload=payload)
        m.opt.uri_path, m.opt.uri_query = tuple(path), tuple(query)
        if cf is not None:
            m.opt.content_format = cf
        m.remote, m.direction = remote, Direction.INCOMING
        try:
            return await site.render(m)
        except error.RenderableError as e:
            return e.to_message()

    class FakeClient:
        """the client side of the directory (used by simple registration to fetch the registrant's /.well-known/core): answers with
        the link set in `links`, or with 4.04 when `fail` is set"""
        fail, links = False, ''

        def request(self, msg):
            ctx = self

            class Req:
                @property
                def response_raising(self):
                    async def fetch():
                        await asyncio.sleep(0)
                        if ctx.fail:
                            raise error.ResponseWrappingError(Message(code=aiocoap.NOT_FOUND))
                        m = Message(code=aiocoap.CONTENT, payload=ctx.links.encode())
                        m.opt.content_format = ContentFormat.LINKFORMAT
                        return m
                    return fetch()
            return Req()

    async def settle():
        for _ in range(8):
            await asyncio.sleep(0)

    EPS = ['n1', 'n2']
    OPS = [('reg', e, lt) for e in EPS for lt in (60, 200)] + [('reg_bad', e) for e in EPS] + [('upd', e, lt) for e in EPS for lt in (None, 200)] + \
          [('upd_body', e) for e in EPS[:1]] + [('upd_badlt', e) for e in EPS[:1]] + [('put', e) for e in EPS[:1]] + [('del', e) for e in EPS] + [('wait', 50), ('wait', 100)] + \
          [('upd', 'n1', 60), ('simple', 'n1'), ('simple_fail', 'n1')]

    async def run(seq):
        """returns None or a description of the first disagreement with the reference model"""
        loop = asyncio.get_running_loop()
        client = FakeClient()
        site = StandaloneResourceDirectory(context=client)
        remotes = {e: FakeRemote('coap://[2001:db8::%d]' % (i + 1)) for i, e in enumerate(EPS)}
        model, now, serial, locations = {}, 0.0, 0, {}
        for step, op in enumerate(seq):
            kind = op[0]
            if kind == 'wait':
                await settle()
                loop.offset += op[1]
                now += op[1]
                await settle()
                for e in [e for e, r in model.items() if now >= r['until']]:
                    del model[e]
            else:
                e = op[1]
                alive = e in model
                serial += 1
                link = '</s%d>' % serial
                if kind in ('reg', 'reg_bad'):
                    q = ['ep=' + e, 'lt=%s' % (op[2] if kind == 'reg' else 'abc')]
                    r = await req(site, remotes[e], POST, site.rd_path, q, link.encode(), ContentFormat.LINKFORMAT)
                    if kind == 'reg':
                        if r.code != aiocoap.CREATED:
                            return 'step %d %r: registration answered %s' % (step, op, r.code)
                        loc = r.opt.location_path
                        if alive and loc != model[e]['loc']:
                            return 'step %d %r: re-registration moved from %r to %r' % (step, op, model[e]['loc'], loc)
                        if any(loc == o['loc'] for k, o in model.items() if k != e):
                            return 'step %d %r: location %r shared by two live registrations' % (step, op, loc)
                        model[e] = {'lt': op[2], 'until': now + op[2] + GRACE, 'link': link, 'loc': loc}
                        locations[e] = loc
                    elif not (128 <= int(r.code) < 160):
                        return 'step %d %r: invalid registration answered %s' % (step, op, r.code)
                elif kind in ('simple', 'simple_fail'):
                    # simple registration: the directory fetches the links from the registrant; a failed fetch is answered 4.xx
                    client.fail, client.links = kind == 'simple_fail', link
                    r = await req(site, remotes[e], POST, ('.well-known', 'rd'), ['ep=' + e, 'lt=200'])
                    if kind == 'simple':
                        if r.code != aiocoap.CHANGED:
                            return 'step %d %r: simple registration answered %s' % (step, op, r.code)
                        epl = (await req(site, remotes[EPS[0]], GET, site.ep_lookup_path)).payload.decode('utf8')
                        here = [l for l in epl.split(',') if ('ep="%s"' % e) in l]
                        if len(here) != 1:
                            return 'step %d %r: after a successful simple registration the endpoint lookup has %d entries for %s: %s' % (step, op, len(here), e, epl)
                        loc = tuple(here[0].split('>')[0].lstrip('<')[1:].split('/'))        # </reg/1/> is the location ('reg', '1', '')
                        if alive and loc != model[e]['loc']:
                            return 'step %d %r: re-registration moved from %r to %r' % (step, op, model[e]['loc'], loc)
                        model[e] = {'lt': 200, 'until': now + 200 + GRACE, 'link': link, 'loc': loc}
                        locations[e] = loc
                    elif not (128 <= int(r.code) < 160):
                        return 'step %d %r: simple registration whose fetch fails answered %s' % (step, op, r.code)
                else:
                    loc = locations.get(e)
                    if loc is None or (not alive and any(o['loc'] == loc for o in model.values())):
                        continue
                    if kind == 'upd':
                        r = await req(site, remotes[e], POST, loc, ['lt=%d' % op[2]] if op[2] else [])
                        if alive:
                            if r.code != aiocoap.CHANGED:
                                return 'step %d %r: update of a live registration answered %s' % (step, op, r.code)
                            if op[2]:
                                model[e]['lt'] = op[2]
                            model[e]['until'] = now + model[e]['lt'] + GRACE
                        elif r.code != aiocoap.NOT_FOUND:
                            return 'step %d %r: update of a dead registration answered %s' % (step, op, r.code)
                    elif kind in ('upd_body', 'upd_badlt'):
                        r = await req(site, remotes[e], POST, loc, ['lt=777'] if kind == 'upd_body' else ['lt=abc'], b'x' if kind == 'upd_body' else b'')
                        if alive and not (128 <= int(r.code) < 160):
                            return 'step %d %r: invalid update answered %s' % (step, op, r.code)
                    elif kind == 'put':
                        r = await req(site, remotes[e], PUT, loc, [], link.encode(), ContentFormat.LINKFORMAT)
                        if alive:
                            if r.code != aiocoap.CHANGED:
                                return 'step %d %r: PUT answered %s' % (step, op, r.code)
                            model[e]['link'] = link
                            model[e]['until'] = now + model[e]['lt'] + GRACE
                    elif kind == 'del':
                        r = await req(site, remotes[e], DELETE, loc)
                        if alive:
                            if r.code != aiocoap.DELETED:
                                return 'step %d %r: DELETE answered %s' % (step, op, r.code)
                            del model[e]
            # ---- observe: lookups and registration resources against the model
            await settle()
            epl = (await req(site, remotes[EPS[0]], GET, site.ep_lookup_path)).payload.decode('utf8')
            rsl = (await req(site, remotes[EPS[0]], GET, site.res_lookup_path)).payload.decode('utf8')
            for e in EPS:
                listed = ('ep="%s"' % e) in epl
                if listed != (e in model):
                    return 'after step %d %r: endpoint lookup %s %s, the reference directory says %s (t=%d, lookup: %s)' % (
                        step, op, 'lists' if listed else 'does not list', e, 'live' if e in model else 'gone', now, epl)
                if e in locations:
                    g = await req(site, remotes[e], GET, locations[e])
                    reused = e not in model and any(o['loc'] == locations[e] for o in model.values())      # a freed location may be handed out again
                    if not reused and (g.code == aiocoap.CONTENT) != (e in model):
                        return 'after step %d %r: registration resource of %s answers %s, reference says %s' % (step, op, e, g.code, 'live' if e in model else 'gone')
                    if e in model and g.payload.decode('utf8') != model[e]['link']:
                        return 'after step %d %r: registration resource of %s serves %r, the latest successful write was exactly %r (reads must not change what is stored)' % (step, op, e, g.payload, model[e]['link'])
                    if e in model and model[e]['link'].strip('<>') not in g.payload.decode('utf8'):
                        return 'after step %d %r: registration resource of %s has links %r, latest successful write was %s' % (step, op, e, g.payload, model[e]['link'])
            live_links = {r['link'].strip('<>') for r in model.values()}
            for s in range(1, serial + 1):
                name = '/s%d' % s
                if ((name + '>') in rsl) != (name in live_links):
                    return 'after step %d %r: resource lookup %s %s (live links %s): %s' % (step, op, 'lists' if (name + '>') in rsl else 'lacks', name, sorted(live_links), rsl)
        return None

    def run_seq(seq):
        loop = FakeClockLoop()
        errors = []
        loop.set_exception_handler(lambda l, ctx: errors.append(repr(ctx.get('exception') or ctx.get('message'))))
        tasks = []

        def factory(lp, coro, **kw):
            t = asyncio.Task(coro, loop=lp, **kw)
            tasks.append(t)
            return t
        loop.set_task_factory(factory)
        try:
            bad = loop.run_until_complete(run(seq))
        finally:
            for t in tasks:
                # a task of the directory (lifetime timer) that ended with an exception nobody retrieves
                if t.done() and not t.cancelled() and t.exception() is not None:
                    errors.append(repr(t.exception()))
            for t in asyncio.all_tasks(loop):
                t.cancel()
            loop.run_until_complete(asyncio.sleep(0))
            loop.close()
        if bad is None and errors:
            bad = 'a timer / task of the directory raised inside the event loop: %s' % errors[0]
        return bad
    return run_seq, OPS


def bounded(tier, seed):
    """see _history_runner: bounded exploration of histories, never counted as proved"""
    import itertools, os
    VERIF = os.path.dirname(os.path.dirname(os.path.abspath(__file__)))
    run_seq, OPS = _history_runner()
    depth = 4 if tier != 'thorough' else 5
    seqs = [s for k in range(1, depth + 1) for s in itertools.product(OPS, repeat=k) if s[0][0] == 'reg']
    if tier == 'thorough':
        seqs = [s for i, s in enumerate(seqs) if len(s) < 5 or i % 11 == seed % 11]
    viol, n, nt, samples = [], 0, 0, []
    for seq in seqs:
        n += 1
        nt += any(o[0] == 'wait' for o in seq) and len({o[1] for o in seq if o[0] != 'wait'}) >= 1
        bad = run_seq(seq)
        if len(samples) < 3 and len(seq) == depth and n % 400 == 0:
            samples.append({'history': [list(o) for o in seq], 'verdict': bad or 'agrees with the reference directory'})
        if bad and len(viol) < 10:
            path = os.path.join(VERIF, 'replays', 'C20-history-%d.py' % (len(viol) + 1))
            os.makedirs(os.path.dirname(path), exist_ok=True)
            with open(path, 'w') as f:
                f.write('#!/venv/bin/python\n"""C20 replay (bounded stand-in, history %r): %s"""\nimport sys, os\nsys.path.insert(0, %r); sys.path.insert(0, os.environ.get("VERIF_REPO", "/repo"))\n'
                        'from specs.c20_history import replay_history\nsys.exit(replay_history(%r))\n' % (seq, bad.replace('"""', "'''"), VERIF, seq))
            viol.append({'what': 'history %r: %s' % (seq, bad), 'replay': path})
    return [lookup_filters(), {'name': 'C20/lookups-reflect-live-registrations', 'tool': 'bounded history enumeration on the real StandaloneResourceDirectory (hand-moved clock) against a reference directory',
             'bound': 'all histories of up to %d operations from %d (2 endpoints, lt 60/200, waits 50/100 s) that start with a registration%s' % (depth, len(OPS), '' if tier != 'thorough' else '; length-5 histories sampled 1 in 11'),
             'inputs_tried': n, 'nontrivial': nt, 'samples': samples, 'violations': viol, 'counted_as_proved': False}]


def replay_history(seq):
    run_seq, _ = _history_runner()
    bad = run_seq(tuple(tuple(o) for o in seq))
    print(bad or 'history agrees with the reference directory')
    return 1 if bad else 0


def lookup_filters():
    """RFC 9176 section 6 lookup filtering on the real StandaloneResourceDirectory: every query parameter is a filter and all of them
    must hold; a filter holds for an endpoint if a registration parameter or a link attribute of one of its links matches (for a
    link: the link's attribute or a registration parameter of its endpoint); a value ending in '*' is a prefix match.  Bounded."""
    import asyncio, itertools, os
    import aiocoap
    from aiocoap import Message, GET, POST, error
    from aiocoap.numbers import ContentFormat
    from aiocoap.message import Direction
    from aiocoap.cli.rd import StandaloneResourceDirectory
    VERIF = os.path.dirname(os.path.dirname(os.path.abspath(__file__)))

    class Remote:
        def __init__(self, n):
            self.uri = 'coap://[2001:db8::%d]' % n
            self.scheme, self.hostinfo, self.hostinfo_local = 'coap', '[2001:db8::%d]' % n, 'rd.example'
            self.is_multicast = self.is_multicast_locally = False
            self.maximum_block_size_exp, self.maximum_payload_size = 6, 1024

    regs = {'a': ({'et': 'x'}, {'s1': {'rt': 't1'}}), 'b': ({'et': 'y'}, {'s2': {'rt': 't2'}}), 'c': ({'et': 'x'}, {'s3': {'rt': 't2 t3'}, 's4': {'rt': 't1'}})}

    def match(value, pattern, split=False):
        vals = value.split() if split else [value]
        return any(v.startswith(pattern[:-1]) if pattern.endswith('*') else v == pattern for v in vals)

    def holds_ep(name, k, pat):
        params, links = regs[name]
        p = dict(params, ep=name)
        return (k in p and match(p[k], pat)) or any(k in attrs and match(attrs[k], pat, k in ('rt', 'if')) for attrs in links.values())

    def holds_link(name, link, k, pat):
        params, links = regs[name]
        p = dict(params, ep=name)
        attrs = links[link]
        return (k in attrs and match(attrs[k], pat, k in ('rt', 'if'))) or (k in p and match(p[k], pat))

    async def run(filters):
        site = StandaloneResourceDirectory(context=None)
        for i, (name, (params, links)) in enumerate(regs.items()):
            payload = ','.join('</%s>;rt="%s"' % (l, a['rt']) for l, a in links.items()).encode()
            m = Message(code=POST, payload=payload)
            m.opt.uri_path, m.opt.uri_query, m.opt.content_format = site.rd_path, tuple(['ep=' + name] + ['%s=%s' % kv for kv in params.items()]), ContentFormat.LINKFORMAT
            m.remote, m.direction = Remote(i + 1), Direction.INCOMING
            await site.render(m)
        out = []
        for path in (site.ep_lookup_path, site.res_lookup_path):
            m = Message(code=GET)
            m.opt.uri_path, m.opt.uri_query = path, tuple('%s=%s' % f for f in filters)
            m.remote, m.direction = Remote(9), Direction.INCOMING
            try:
                out.append((await site.render(m)).payload.decode())
            except error.RenderableError as e:
                out.append('ERR ' + str(e.to_message().code))
        for t in asyncio.all_tasks():
            if t is not asyncio.current_task():
                t.cancel()
        return out
    singles = [('ep', 'a'), ('ep', 'c'), ('et', 'x'), ('et', 'y'), ('rt', 't1'), ('rt', 't2'), ('rt', 't*'), ('et', 'z')]
    queries = [(f,) for f in singles] + [q for q in itertools.permutations(singles, 2) if q[0][0] != q[1][0] or q[0][0] == 'rt']
    viol, n, samples = [], 0, []
    for q in queries:
        n += 1
        epl, rsl = asyncio.run(run(q))
        got_ep = sorted(name for name in regs if 'ep="%s"' % name in epl)
        want_ep = sorted(name for name in regs if all(holds_ep(name, k, pat) for k, pat in q))
        got_l = sorted(l for name in regs for l in regs[name][1] if '/%s>' % l in rsl)
        want_l = sorted(l for name in regs for l in regs[name][1] if all(holds_link(name, l, k, pat) for k, pat in q))
        if len(samples) < 3 and len(q) == 2 and n % 9 == 0:
            samples.append({'query': '&'.join('%s=%s' % f for f in q), 'endpoints': got_ep, 'links': got_l})
        if (got_ep != want_ep or got_l != want_l) and len(viol) < 8:
            qs = '&'.join('%s=%s' % f for f in q)
            path = os.path.join(VERIF, 'replays', 'C20-filter-%d.py' % (len(viol) + 1))
            os.makedirs(os.path.dirname(path), exist_ok=True)
            with open(path, 'w') as f:
                f.write('#!/venv/bin/python\n"""C20 replay (bounded stand-in, lookup filters): ?%s"""\nimport sys, os\nsys.path.insert(0, %r); sys.path.insert(0, os.environ.get("VERIF_REPO", "/repo"))\n'
                        'from specs.c20_history import lookup_filters\nb = lookup_filters()\nbad = [v for v in b["violations"] if "?%s " in v["what"]]\n'
                        'print(bad[0]["what"] if bad else "lookup ?%s lists the matching registrations")\nsys.exit(1 if bad else 0)\n' % (qs, VERIF, qs, qs))
            viol.append({'what': 'lookup ?%s lists endpoints %s (filters give %s) and links %s (filters give %s)' % (qs, got_ep, want_ep, got_l, want_l), 'replay': path})
    return {'name': 'C20/lookup-filters', 'tool': 'bounded enumeration on the real StandaloneResourceDirectory', 'bound': '%d queries of one or two filters over 3 registrations with 4 links' % n,
            'inputs_tried': n, 'samples': samples, 'violations': viol, 'counted_as_proved': False}
