"""Import-time stand-ins for the third-party modules aiocoap.oscore imports (cryptography, cbor2, filelock), which are
installed in no interpreter of this sandbox.  They only make the module importable so that the NON-cryptographic
functions (_compress, _uncompress, ReplayWindow, _construct_nonce) can be replayed natively; anything that would
actually encrypt, sign or CBOR-encode raises NotImplementedError."""
import importlib
import sys
import types


class _Placeholder:
    def __init__(self, *a, **k):
        pass

    def __call__(self, *a, **k):
        raise NotImplementedError('stand-in for an absent third-party library')

    def __getattr__(self, name):
        if name.startswith('__'):
            raise AttributeError(name)
        return _Placeholder()


class _StubModule(types.ModuleType):
    def __getattr__(self, name):
        if name.startswith('__'):
            raise AttributeError(name)
        full = self.__name__ + '.' + name
        if full in sys.modules:
            return sys.modules[full]
        return type(name, (_Placeholder,), {})


NAMES = ['cryptography', 'cryptography.exceptions', 'cryptography.hazmat', 'cryptography.hazmat.backends',
         'cryptography.hazmat.primitives', 'cryptography.hazmat.primitives.ciphers',
         'cryptography.hazmat.primitives.ciphers.aead', 'cryptography.hazmat.primitives.ciphers.algorithms',
         'cryptography.hazmat.primitives.ciphers.modes',
         'cryptography.hazmat.primitives.kdf', 'cryptography.hazmat.primitives.kdf.hkdf',
         'cryptography.hazmat.primitives.hashes', 'cryptography.hazmat.primitives.asymmetric',
         'cryptography.hazmat.primitives.asymmetric.utils', 'cryptography.hazmat.primitives.asymmetric.ec',
         'cryptography.hazmat.primitives.asymmetric.ed25519', 'cryptography.hazmat.primitives.asymmetric.x25519',
         'cryptography.hazmat.primitives.serialization', 'cbor2', 'filelock', 'ge25519']


def install():
    """returns the list of module names that had to be replaced by stand-ins"""
    replaced = []
    for n in NAMES:
        if n in sys.modules:
            continue
        try:
            importlib.import_module(n)
        except Exception:
            m = _StubModule(n)
            m.__path__ = []
            sys.modules[n] = m
            replaced.append(n)
            if '.' in n:
                parent, _, leaf = n.rpartition('.')
                if parent in sys.modules and isinstance(sys.modules[parent], _StubModule):
                    setattr(sys.modules[parent], leaf, m)
    return replaced


def load_oscore():
    install()
    return importlib.import_module('aiocoap.oscore')
