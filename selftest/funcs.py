"""Small pure functions over the operations the contracts rely on; pyvc/selftest.py checks that the engine's semantics of each
agrees with CPython on concrete arguments (and that a wrong expectation is refuted)."""


def floordiv_mod(a, b):
    return (a // b, a % b)


def shifts(x, k):
    return ((x << k), (x >> k))


def masks(x):
    return (x & 0x0F, x & 0xF0, (x >> 4) & 0x0F, x & 7, x | 8 if x % 16 < 8 else x)


def slice_ops(b, i, j):
    return (b[i:j], b[:i], b[j:], len(b[i:j]), b[-2:] if len(b) >= 2 else b)


def index_or_none(b, i):
    if i < len(b):
        return b[i]
    return None


def concat_repeat(a, b, n):
    return a + b"\0" * n + b


def to_from_bytes(v, n):
    return (v.to_bytes(n, "big"), int.from_bytes(v.to_bytes(n, "big"), "big"))


def min_bytes(v):
    return v.to_bytes(4, "big").lstrip(b"\0")


def tuple_ops(t):
    return (t[0], t[-1], t[1:], len(t), t + (9,))


def chained(a, b, c):
    return a <= b < c


def cond_expr(x):
    return 1 if x > 5 else (2 if x > 2 else 3)


def dict_ops(k, v):
    d = {}
    d[k] = v
    had = k in d
    d.setdefault(k + 1, v + 1)
    n = len(d)
    x = d.pop(k)
    return (had, n, x, len(d), d.get(k), d.get(k + 1))


def list_ops(a, b):
    l = [a]
    l.append(b)
    l.insert(0, b)
    first = l.pop(0)
    return (first, len(l), l[0], l[-1])


def loop_sum(n):
    s = 0
    i = 0
    while i < n:
        s += i
        i += 1
    return s


def struct_pack(x, y):
    import struct
    return struct.pack("!BBH", x, y, x * 256 + y)


def bool_ops(a, b):
    return (a and b, a or b, not a, (a and 5) or 7)


def neg_index(b):
    return (b[-1], b[len(b) - 1])


def bytes_eq(a, b):
    return (a == b, a != b, a + b == b + a)


def divmod_neg(a):
    return (a // 1024, a % 1024, -a // 4, (-a) % 4)


def raise_index(b, i):
    return b[i]


def raise_zero(a, b):
    return a // b


def raise_overflow(v):
    return v.to_bytes(1, "big")


def raise_value(x):
    return bytes([x])


def raise_key(k):
    d = {}
    d[1] = 2
    return d[k]


def raise_type(x):
    return None + x


def pow2_ops(e):
    return (2 ** e >= 1, 2 ** e * 4 == 1, 2 ** e < 1)


def low_mask(x, k):
    m = (1 << k) - 1
    return (x & m, x & (1 << k))


def list_remove(a, b, c):
    l = [a, b, a, c]
    l.remove(a)
    return (len(l), l[0], l[1], l[2])


def bool_xor(a, b):
    return (a ^ b, (a ^ b) ^ b)


def str_truth(a):
    s = "x" if a else ""
    return (1 if s else 0, 1 if not s else 0)
