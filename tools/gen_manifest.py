#!/usr/bin/env python3
"""Regenerates /verif/MANIFEST.json from the table below (kept in one place so that the manifest is always valid)."""
import json, os
VERIF = os.path.dirname(os.path.dirname(os.path.abspath(__file__)))
BASELINE = "cd /repo && /venv/bin/python -m pytest -ra -q -p no:cacheprovider --timeout=900 --continue-on-collection-errors"

CLAIMED = {
 'C01': dict(text="Deductive proof, for all inputs, that the option codec functions of the real source meet an RFC 7252 section 3 spec: extended delta/length fields equal the spec function, one iteration of the option parser equals the RFC's one-option step (so the parser is the iteration of that step), the value decoders equal their format's definition, and no exception other than UnparsableMessage can leave Options.decode. Proof is the right level: the input domain (all byte strings) is infinite and the functions are small and loop-light.",
             ref='§4 C01', note="Trusted: pyvc VC generator, z3; assumed contracts of int.to_bytes/from_bytes, struct, bytes.decode (UTF-8 validity as uninterpreted predicate); OptionNumber.format table read from the live module; logging calls dropped.",
             tech='contract-based deductive verification (AST->VC generator pyvc, z3/cvc5)'),
}
ALL = ['C%02d' % i for i in range(1, 21)]
NA_DEFAULT = "check not built yet (work in progress in this session); planned per DESIGN.md section 4"
NA = {}

def main():
    checks = []
    for pid in ALL:
        if pid not in CLAIMED:
            continue
        c = CLAIMED[pid]
        checks.append({
            'property_id': pid,
            'quick_cmd': './check %s --tier quick' % pid,
            'thorough_cmd': './check %s --tier thorough' % pid,
            'evidence_file': 'evidence/%s.json' % pid,
            'replay_cmd_template': './check %s --replay {path}' % pid,
            'engine': 'pyvc',
            'level_claimed': {'category': c.get('cat', 'proof'), 'text': c['text'], 'design_ref': c['ref']},
            'level_note': c['note'],
            'technique': c['tech'],
        })
    m = {
        'version': 1,
        'setup_cmd': 'python3-vt -c "import z3, sys; sys.path.insert(0, \'.\'); import pyvc.engine, pyvc.driver; print(\'pyvc ok, z3\', z3.get_version_string())"',
        'hooks': {'guard': 'AIOCOAP_VERIF', 'enable': 'no hooks: contracts live in sidecar files under /verif/contracts; /repo is read with ast on every run',
                  'baseline_off_cmd': BASELINE, 'source_commits': [], 'add_only': True},
        'engines': [{'name': 'pyvc', 'path': 'pyvc/', 'serves_properties': sorted(CLAIMED),
                     'kind_free_text': 'self-written AST->VC symbolic executor for a Python subset; contracts in contracts/*.py; z3 5.1 python API, unknowns re-run on z3 4.8.12 and cvc5'}],
        'checks': checks,
        'notes': 'exit codes: 0 held, 1 violation (VIOLATION line), 2 undecided, 3 checker error. Fixes to /repo are separate "fix:" commits listed in known_findings.json.',
        'not_applicable': [{'property_id': p, 'reason': NA.get(p, NA_DEFAULT)} for p in ALL if p not in CLAIMED],
    }
    json.dump(m, open(os.path.join(VERIF, 'MANIFEST.json'), 'w'), indent=1)

if __name__ == '__main__':
    main()
