#!/usr/bin/env python3
"""Regenerates /verif/MANIFEST.json from the table below (kept in one place so that the manifest is always valid)."""
import json, os
VERIF = os.path.dirname(os.path.dirname(os.path.abspath(__file__)))
BASELINE = "cd /repo && /venv/bin/python -m pytest -ra -q -p no:cacheprovider --timeout=900 --continue-on-collection-errors"

TECH = 'contract-based deductive verification (AST->VC generator pyvc, z3/cvc5)'
COMMON_NOTE = ("Trusted: the self-written VC generator pyvc and its encoding of Python semantics, z3/cvc5 unsat answers; assumed "
               "contracts of CPython builtins (listed in the evidence); logging calls dropped; termination not proved. ")
CLAIMED = {
 'C01': dict(text="Deductive proof, for all inputs, that the option codec functions of the real source meet an RFC 7252 section 3 spec: extended delta/length fields equal the spec function, one iteration of the option parser/serialiser equals the RFC's one-option step (so parser and serialiser are the iteration of that step), value codecs equal their format's definition, Message.encode/decode equal the header layout, and no exception other than UnparsableMessage can leave the parser. Proof is the right level: the input domain (all byte strings) is infinite and the functions are small.",
             ref='section 4 C01', note=COMMON_NOTE + "UTF-8 validity is an uninterpreted predicate; OptionNumber.format table read from the live module; the induction 'iteration of the step = RFC grammar' is a stated meta-lemma; Options.option_list sortedness assumed."),
 'C02': dict(text="Deductive proof of the per-call clauses of response matching: process_response delivers only to the pipe registered under the same token and endpoint, exactly once, retires the key iff the response is final; request() registers before sending, its interest-end hook removes exactly its key, after shutdown it fails immediately; dispatch_error fails exactly the pipes of that endpoint, each once, with a NetworkError; token counter/encoding lemma. Liveness (every request eventually completes) is not decided.",
             ref='section 4 C02', note=COMMON_NOTE + "Pipe is an interface object in these contracts (A-PIPE); endpoint equality is identity of an abstract address (A-REMOTE); dictionary iteration order not modelled."),
 'C03': dict(text="Deductive proof that _add_exchange/_schedule_retransmit/_retransmit/_remove_exchange implement the RFC 7252 back-off: initial timeout in [ACK_TIMEOUT, ACK_TIMEOUT*ACK_RANDOM_FACTOR] of the message's own tuning, the timer callback re-enters _retransmit with the same message object, doubled timeout, counter+1; at most MAX_RETRANSMIT copies; give-up fails the endpoint's requests with ConRetransmitsExceeded (a TimeoutError/NetworkError) exactly once; ACK/RST with the same (endpoint, MID) cancels the timer, other keys change nothing; timing lemmas over reals.",
             ref='section 4 C03', note=COMMON_NOTE + "T-LOOP (idealised call_later), A-REAL, A-IMMUT (same object = byte-identical copy)."),
 'C04': dict(text="Deductive proof of the deduplication functions under the MessageManager object invariant: a (endpoint, MID) seen before returns True without upcall and re-sends exactly the stored ACK/RST for CON duplicates, a new one is remembered with one expiry timer of EXCHANGE_LIFETIME that forgets exactly that key; only acknowledgements of the remembered request are ever stored; dispatch_message passes requests on only when not duplicate.",
             ref='section 4 C04', note=COMMON_NOTE + "T-LOOP; A-REMOTE; A-OWN (the manager's dictionaries are distinct objects)."),
 'C05': dict(text="Deductive proof of the block arithmetic (BlockwiseTuple.size/start/reduced_to/is_valid_for_payload_size against RFC 7959 spec functions), of Message._extract_block/_append_response_block/_generate_next_block2_request (exact slices, more-flag, contiguity, ETag comparison, error classes), and of one iteration of both BlockwiseRequest loops against an arbitrary (possibly misbehaving) server response delivered at the await: the block on the wire is the slice at the cursor, the acknowledged number must be the sent one, the cursor afterwards is the first unsent byte (also across size reductions incl. BERT), the exponent never grows, the result future is set once and only after both phases.",
             ref='section 4 C05', note=COMMON_NOTE + "every await is a scheduling point (heap havocked except the request objects the coroutine owns: A-IMMUT); the server behaviour is arbitrary within message well-formedness; Message.copy is an assumed contract; loss/duplication of single exchanges is C03/C04."),
 'C06': dict(text="Deductive proof of the block-wise server helpers: Block1Spool.feed_and_take (pass-through, new assembly on block 0, append only at the exact offset, 4.08 for unknown/gap/overlap, 4.00 for a size mismatch, 2.31 echoing the option for intermediate blocks, complete body only after the final block), Message._append_request_block, Block2Cache.extract_or_insert (one rendering per block-0 request, later blocks are exact slices of the cached rendering via _extract_block or 4.08/4.00, stale renderings dropped), the block key, and TimeoutDict with a ghost clock (entries survive at least `timeout` after their last use and are discarded within twice that).",
             ref='section 4 C06', note=COMMON_NOTE + "T-LOOP with ghost clock (timer fires exactly when due); A-TYPEINV (block option / endpoint value ranges); A-STORED (stored messages are not the request being processed); get_cache_key is an uninterpreted function of the options; timeout == MAX_TRANSMIT_WAIT at the two construction sites is not checked."),
 'C07': dict(text="Deductive proof on the generator Request._run (every `yield` a scheduling point delivering an arbitrary pipe event): a notification is handed to the observation iff it is fresher than the last one handed over by the RFC 7641 section 3.4 predicate (spec function fresh, arrival time and serial number of the last DELIVERED notification updated exactly on delivery), the response future is completed exactly once at the first event, the observation gets at most one terminal signal and nothing is delivered after it; plus the hand-over cell of the async iterator (__anext__ keeps a future installed while it was suspended). Eventual delivery through the lossy iterator is not decided.",
             ref='section 4 C07', note=COMMON_NOTE + "wall-clock reads are arbitrary reals; events are arbitrary but well-formed (exception events are last: Pipe.add_exception); BlockwiseRequest._run_observation not covered."),
 'C09': dict(text="Deductive proof of the error-to-response chain: the event translator of error_to_message forwards message events unchanged, sends a RenderableError as rendered by its own to_message (own code, UTF-8 diagnostic), and turns a failing/None renderer and every other exception into a newly constructed bare 5.00 without payload or options, never inspecting non-renderable exceptions; run_driving_pipe turns every Exception of the render coroutine into exactly one exception event; resource.Resource.render answers non-request codes / missing handlers with 4.05 classes, fills in the default success code by method only when unset and copies No-Response only when unset; a context without site answers one final 4.04; Site.render 4.04 for unknown paths; interfaces.Resource._render_to_pipe adds exactly one final response.",
             ref='section 4 C09', note=COMMON_NOTE + "Pipe is an interface object here (A-PIPE: the exactly-once delivery inside Pipe._add_event is not yet under contract); handler methods are unknown callables whose result is an arbitrary message or a non-message; every await havocks the heap except the request."),
 'C10': dict(text="Deductive proof that dispatch_message realises the RFC 7252 reaction table for every (type, code class), that _process_request/send_message acknowledge a CON request exactly once (piggy-backed or empty ACK, timer callback simulated), apply the RFC 7967 No-Response mask, choose the message type as specified and never hand a CON to a multicast destination to the transport.",
             ref='section 4 C10', note=COMMON_NOTE + "T-LOOP; A-REMOTE (as_response_address is the same endpoint value); behaviour after MessageManager.shutdown (forced NON) excluded from the piggy-back clauses; udp6 address predicates (is_multicast*) are abstract fields."),
 'C12': dict(text="Deductive proof that ReplayWindow implements the abstract 'seen' set: is_valid(n) iff n not seen; strike_out raises iff seen, otherwise adds exactly n (numbers falling out of the window become seen), keeps well-formedness and calls the callback once; initialisers establish the stated views. Integers used as bit fields are modelled as Int->Bool maps.",
             ref='section 4 C12', note=COMMON_NOTE + "aiocoap.oscore is not importable here (AST only); the call-order contract of CanUnprotect.unprotect is not yet under contract."),
 'C13': dict(text="Deductive proof with a ghost model of sequence.json: new_sequence_number returns strictly increasing numbers, refuses at 2^40-1 without changing state, and every number it returns is below the next-to-send value already on disk (persist before use); post_seqnoincrease/_store keep counter <= persisted bound == disk, chunk doubling up to the limit, store iff the bound grew; inside _store the disk changes only at the atomic os.replace, and the crash invariant 'every number handed out so far < disk next-to-send' is an obligation after every file-system effect; _replay_window_changed writes 'unknown' to disk before the first acceptance is reported. Together with the (assumed) loader postcondition this gives no reuse across crashes.",
             ref='section 4 C13', note=COMMON_NOTE + "aiocoap.oscore is read from the AST only (not importable here); A-FS (atomic rename, process-crash model, no power-loss durability); _load, _destroy and the lock file are not under contract (loader postcondition 'counter := disk next-to-send, window unknown/persisted' is assumed); JSON round trip of ints assumed."),
 'C14': dict(text="Deductive proof that every MessageManager entry point preserves the NSTART object invariant (an endpoint has a backlog entry iff it has exactly one open exchange; queued items are well-formed CON messages of that endpoint), that send_message queues a CON behind an open exchange at the END of the backlog and transmits otherwise, that _continue_backlog pops from the FRONT until an exchange is open again, and that give-up/transport errors drop the backlog together with a dispatch_error for the endpoint. The 'eventually' clause is reduced to this per-step progress contract.",
             ref='section 4 C14', note=COMMON_NOTE + "T-LOOP; A-OWN; A-FRESHMSG; induction over entry points is the stated meta-argument."),
 'C15': dict(text="Deductive proof of RFC 8323 framing: _extract_message_size/_encode_length/_serialize/_decode_message equal the spec functions, prefix-stability and inverse lemmas, one iteration of data_received consumes exactly one complete acceptable frame (spool advanced, message dispatched once and only after CSM, signalling handled, abort on oversize/unparsable/no-CSM), empty messages ignored, signalling rules of _process_signaling, Abort = message 7.05 + close.",
             ref='section 4 C15', note=COMMON_NOTE + "TLS/WebSocket variants and connection set-up not covered; independence of segmentation follows from the step contract plus the prefix-stability lemma (stated meta-argument)."),
 'C18': dict(text="Deductive proof of the per-call shutdown clauses: MessageManager.shutdown cancels every retransmission timer and drops the exchanges before the transport is shut down; afterwards send_message forces NON (no new exchange/timer), dispatch_error on either manager returns without effect, TokenManager.request fails immediately with LibraryShutdown. Completion within SHUTDOWN_TIMEOUT and 'transmits nothing' are not decided.",
             ref='section 4 C18', note=COMMON_NOTE + "T-LOOP; only the synchronous parts before each await are specified (everything is havocked at an await)."),
 'C17': dict(text="Deductive proof of Site._find_child_and_pathstripped_message against the routing oracle of the property (exact match first; otherwise the nested site at the longest non-empty proper prefix, proved with a loop invariant over the prefix search; otherwise KeyError), of the stripped request (remaining components, a trailing empty component handed on as the sub-site's root, all other fields copied, original request path remembered through nested sites), of Site.render (4.04 only when nothing matches, the routed resource renders the stripped request) and of remove_resource. Link listing and filter queries are not decided.",
             ref='section 4 C17', note=COMMON_NOTE + "A-SKEY (tuple keys as injective codes); Message.copy assumed; one recorded finding (nested site at the empty path is never matched: literal reading of 'longest proper prefix'); get_resources_as_linkheader/WKCResource filters not covered."),
 'C19': dict(text="Deductive proof that FileServer.request_to_localpath returns only paths root / '/'.join(P) whose components contain no '/', are not '.' or '..' and whose joined string is relative (else 4.00), that every file-system primitive reached from render_get/put/delete acts on that checked path, its parent directory, a temporary file created there or an entry listed from it (data flow on every path, also failing ones), that nothing is modified unless write permission was tested, and that render_get_file returns exactly the requested slice of the file content with the more-flag set iff bytes remain.",
             ref='section 4 C19', note=COMMON_NOTE + "A-STR/pathlib (assumed contract of str.join and pathlib's '/' operator, conformance-tested exhaustively over a small alphabet on every run: bounded, not proof); symlinks and stat/use races not covered; hash_stat, mimetypes, link header are opaque."),
}
for v in CLAIMED.values():
    v['tech'] = TECH
ALL = ['C%02d' % i for i in range(1, 21)]
NA_DEFAULT = "check not built yet (work in progress in this session); planned per DESIGN.md section 4"
NA = {}

def main():
    checks = []
    for pid in ALL:
        if pid not in CLAIMED:
            continue
        c = CLAIMED[pid]
        checks.append({
            'property_id': pid,
            'quick_cmd': './check %s --tier quick' % pid,
            'thorough_cmd': './check %s --tier thorough' % pid,
            'evidence_file': 'evidence/%s.json' % pid,
            'replay_cmd_template': './check %s --replay {path}' % pid,
            'engine': 'pyvc',
            'level_claimed': {'category': c.get('cat', 'proof'), 'text': c['text'], 'design_ref': c['ref']},
            'level_note': c['note'],
            'technique': c['tech'],
        })
    m = {
        'version': 1,
        'setup_cmd': 'python3-vt -c "import z3, sys; sys.path.insert(0, \'.\'); import pyvc.engine, pyvc.driver; print(\'pyvc ok, z3\', z3.get_version_string())"',
        'hooks': {'guard': 'AIOCOAP_VERIF', 'enable': 'no hooks: contracts live in sidecar files under /verif/contracts; /repo is read with ast on every run',
                  'baseline_off_cmd': BASELINE, 'source_commits': [], 'add_only': True},
        'engines': [{'name': 'pyvc', 'path': 'pyvc/', 'serves_properties': sorted(CLAIMED),
                     'kind_free_text': 'self-written AST->VC symbolic executor for a Python subset; contracts in contracts/*.py; z3 5.1 python API, unknowns re-run on z3 4.8.12 and cvc5'}],
        'checks': checks,
        'notes': 'exit codes: 0 held, 1 violation (VIOLATION line), 2 undecided, 3 checker error. Fixes to /repo are separate "fix:" commits listed in known_findings.json.',
        'not_applicable': [{'property_id': p, 'reason': NA.get(p, NA_DEFAULT)} for p in ALL if p not in CLAIMED],
    }
    json.dump(m, open(os.path.join(VERIF, 'MANIFEST.json'), 'w'), indent=1)

if __name__ == '__main__':
    main()
