#!/bin/sh
# try_patch.sh <patch> <prop>...  : apply a patch to /repo, run the quick checks, revert (never commits)
PATCH=$1; shift
git -C /repo apply "$PATCH" || { echo APPLY-FAILED; exit 9; }
for P in "$@"; do /verif/check $P > /tmp/try_$P.out 2>&1; echo "$P exit=$?"; grep -E "VIOLATION|UNDECIDED|CHECKER|failed obligation|failing input" /tmp/try_$P.out | cut -c1-250 | head -8; done
git -C /repo checkout -- .
