#!/usr/bin/env python3
"""print the markdown table of DESIGN.md section 9.7 from seeded/*/meta.json"""
import json, os
VERIF = os.path.dirname(os.path.dirname(os.path.abspath(__file__)))
print('| seed | change (file: function) | caught by | how it shows |')
print('|---|---|---|---|')
for d in sorted(os.listdir(os.path.join(VERIF, 'seeded'))):
    p = os.path.join(VERIF, 'seeded', d, 'meta.json')
    if not os.path.exists(p):
        continue
    m = json.load(open(p))
    runs = m['detection']['runs']
    first = next((r for r in runs if ' exit=1' in r), None)
    how = ''
    if first:
        how = first.split('replay=')[-1].split('/')[-1].split(' ')[0] if 'replay=' in first else ''
        how = how.replace('.py', '')[:90]
    caught = ', '.join(m['detection']['reported_as_violation_by']) or ('**missed**' if not m['detection']['undecided_or_error'] else 'undecided: ' + ', '.join(m['detection']['undecided_or_error']))
    fn = (m['functions_touched'] or [''])[0].replace('class ', '').replace('def ', '')[:60]
    print('| %s | %s: %s | %s | %s |' % (d, ', '.join(f.replace('aiocoap/', '') for f in m['files_changed']), fn, caught, how))
