#!/bin/sh
# seed_matrix.sh [seed-dir...] : run the quick checks against every stored seeded change, on a scratch worktree
# (never /repo).  Writes seeded/<id>/detect.txt ("<prop> exit=<code>" per check run) and prints a summary.
VERIF="$(cd "$(dirname "$0")/.." && pwd)"
WT=${MATRIX_WT:-/tmp/wt/matrix}
[ -d $WT ] || git -C /repo worktree add -q --detach $WT HEAD
git -C $WT checkout -q -- . ; git -C $WT checkout -q --detach "$(git -C /repo rev-parse HEAD)"
CLAIMED=$(python3 -c "import json; print(' '.join(x['property_id'] for x in json.load(open('$VERIF/MANIFEST.json'))['checks']))")
also() { case $1 in C08) echo C14;; C09) echo C02;; C03) echo C14;; C10) echo C14;; C18) echo C02 C14;; C16) echo C01;; *) echo;; esac; }
[ $# -gt 0 ] || set -- $VERIF/seeded/*/
for d in "$@"; do
  d=${d%/}; id=$(basename $d); prop=${id%-*}
  if ! git -C $WT apply $d/patch.diff 2>/dev/null; then
    if ! git -C $WT apply --3way $d/patch.diff >/dev/null 2>&1; then echo "$id APPLY-FAILED"; git -C $WT reset -q --hard; continue; fi
    git -C $WT reset -q
  fi
  : > $d/detect.txt
  for p in $prop $(also $prop); do
    case " $CLAIMED " in *" $p "*) ;; *) echo "$p not-claimed" >> $d/detect.txt; continue;; esac
    VERIF_REPO=$WT $VERIF/check $p > /tmp/matrix_${id}_$p.out 2>&1; rc=$?
    echo "$p exit=$rc $(grep -m1 -E 'VIOLATION|UNDECIDED|CHECKER-ERROR' /tmp/matrix_${id}_$p.out | cut -c1-200)" >> $d/detect.txt
  done
  git -C $WT checkout -q -- .
  echo "$id: $(cut -d' ' -f1,2 $d/detect.txt | tr '\n' ';')"
done
