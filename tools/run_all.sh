#!/bin/sh
# run every claimed check serially on the current /repo tree; extra args are passed on (e.g. --update-baseline)
cd "$(dirname "$0")/.."
for p in $(python3 -c "import json; print(' '.join(x['property_id'] for x in json.load(open('MANIFEST.json'))['checks']))"); do
  s=$(date +%s)
  ./check $p "$@" > /tmp/runall_$p.log 2>&1
  echo "$p exit=$? $(( $(date +%s) - s ))s $(grep -c '^VIOLATION\|^UNDECIDED\|^CHECKER' /tmp/runall_$p.log) alarms; $(grep 'clause-level' /tmp/runall_$p.log)"
done
