#!/bin/sh
# harmless_matrix.sh <area> <patch.diff> <prop...> : apply one behaviour-preserving patch to a scratch worktree (never /repo)
# and run the quick checks of the given properties; appends "<area>-<patch>: <prop> exit=<code> <first alarm line>" to harmless/results2.log
VERIF="$(cd "$(dirname "$0")/.." && pwd)"
area=$1; patch=$2; shift 2
WT=/tmp/wt/harm-$area
[ -d $WT ] || git -C /repo worktree add -q --detach $WT HEAD
git -C $WT checkout -q -- . ; git -C $WT checkout -q --detach "$(git -C /repo rev-parse HEAD)"
name=$area-$(basename $patch .diff)
if ! git -C $WT apply $patch 2>/dev/null; then
  if ! git -C $WT apply --3way $patch >/dev/null 2>&1; then echo "$name: APPLY-FAILED" >> $VERIF/harmless/results2.log; git -C $WT reset -q --hard; exit 8; fi
  git -C $WT reset -q
fi
for p in "$@"; do
  VERIF_REPO=$WT $VERIF/check $p > /tmp/harm_${name}_$p.out 2>&1; rc=$?
  echo "$name: $p exit=$rc $(grep -m1 -E 'VIOLATION|UNDECIDED|CHECKER-ERROR' /tmp/harm_${name}_$p.out | cut -c1-220)" >> $VERIF/harmless/results2.log
done
git -C $WT checkout -q -- .
