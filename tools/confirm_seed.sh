#!/bin/sh
# confirm_seed.sh <prop> <A|B> [worktree-base] [letter-to-store-under] : confirm an agent-proposed mutation in its scratch worktree (/tmp/wt/<prop>),
# then store it under /verif/seeded/<prop>-<X>/ with a log.  Never touches /repo.
P=$1; X=$2; WT=${3:-/tmp/wt}/$P; O=${4:-$X}; OUT=/verif/seeded/$P-$O
cd $WT || exit 9
git checkout -q -- . ; git checkout -q --detach main 2>/dev/null
mkdir -p $OUT; LOG=$OUT/confirm.log; : > $LOG
if ! git apply --check mut$X.diff 2>>$LOG; then
  if ! git apply --3way mut$X.diff 2>>$LOG; then echo "APPLY-FAILED" >> $LOG; git checkout -q -- .; exit 8; fi
  git diff > mut$X.rebased.diff; git checkout -q -- . ; git reset -q; cp mut$X.rebased.diff mut$X.diff
fi
/venv/bin/python demo$X.py > $OUT/demo_clean.out 2>&1; echo "demo on clean tree: exit $?" >> $LOG
git apply mut$X.diff
/venv/bin/python demo$X.py > $OUT/demo_mutated.out 2>&1; echo "demo on mutated tree: exit $?" >> $LOG
/venv/bin/python -c "import aiocoap" 2>>$LOG && echo "imports ok" >> $LOG
unshare -n sh -c 'ip link set lo up; exec "$@"' sh /venv/bin/python -m pytest -q -p no:cacheprovider --timeout=900 --continue-on-collection-errors -x --deselect tests/test_server.py::TestServer::test_big_resource --deselect tests/test_client.py::TestClientWithHostlessMessages::test_uri_parser --deselect tests/test_client.py::TestClientWithSetHost::test_uri_parser --deselect tests/test_reverseproxy.py --deselect tests/test_tls.py 2>&1 | tail -3 >> $LOG
git checkout -q -- .
cp mut$X.diff $OUT/patch.diff; cp demo$X.py $OUT/demo.py
echo "confirmed-run-finished" >> $LOG
