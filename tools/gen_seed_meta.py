#!/usr/bin/env python3
"""Write seeded/<id>/meta.json for every stored seeded change from what is on disk: the patch, the demo's docstring,
the confirmation log (tools/confirm_seed.sh) and the detection log (tools/seed_matrix.sh)."""
import ast, json, os, re, sys
VERIF = os.path.dirname(os.path.dirname(os.path.abspath(__file__)))
NOTES = json.load(open(os.path.join(VERIF, 'seeded', 'notes.json'))) if os.path.exists(os.path.join(VERIF, 'seeded', 'notes.json')) else {}
PROPS = {json.loads(l)['id']: json.loads(l) for l in open(os.path.join(VERIF, 'properties.jsonl'))}


def main():
    for d in sorted(os.listdir(os.path.join(VERIF, 'seeded'))):
        p = os.path.join(VERIF, 'seeded', d)
        if not os.path.isdir(p) or not os.path.exists(os.path.join(p, 'patch.diff')):
            continue
        prop = d.split('-')[0]
        patch = open(os.path.join(p, 'patch.diff')).read()
        files = re.findall(r'^\+\+\+ b/(\S+)', patch, re.M)
        hunks = re.findall(r'^@@.*@@ ?(.*)$', patch, re.M)
        doc = ''
        try:
            doc = ast.get_docstring(ast.parse(open(os.path.join(p, 'demo.py')).read())) or ''
        except Exception:
            pass
        log = open(os.path.join(p, 'confirm.log')).read() if os.path.exists(os.path.join(p, 'confirm.log')) else ''
        det = open(os.path.join(p, 'detect.txt')).read().strip().splitlines() if os.path.exists(os.path.join(p, 'detect.txt')) else []
        detected = [l.split()[0] for l in det if ' exit=1' in l]
        undecided = [l.split()[0] for l in det if ' exit=2' in l or ' exit=3' in l]
        note = NOTES.get(d, {})
        meta = {
            'id': d, 'property': prop, 'property_title': PROPS[prop]['title'],
            'origin': 'proposed by a fresh sub-agent that was given only the text of the property and its own scratch worktree of /repo '
                      '(nothing from /verif); kept after being confirmed here',
            'files_changed': files, 'functions_touched': sorted(set(h.strip() for h in hunks if h.strip())),
            'what_it_changes': note.get('what', doc.split('\n\n')[0].replace('\n', ' ')[:600]),
            'needs_to_manifest': note.get('needs', ' '.join(doc.split('\n\n')[1:3]).replace('\n', ' ')[:900]),
            'confirmation': {
                'how': 'tools/confirm_seed.sh %s %s: demo on the clean scratch tree (must exit 0), apply patch, demo again (must exit non-zero), '
                       'import aiocoap, the repository test suite under the same deselections as the baseline; tree restored afterwards' % (prop, d.split('-')[1]),
                'log': [l for l in log.splitlines() if l and not l.startswith('s') and not l.startswith('.')],
            },
            'detection': {'how': 'tools/seed_matrix.sh: patch applied to a scratch worktree, quick checks run with VERIF_REPO pointing at it',
                          'runs': det, 'reported_as_violation_by': detected, 'undecided_or_error': undecided,
                          'missed': not detected},
        }
        if note.get('remark'):
            meta['remark'] = note['remark']
        json.dump(meta, open(os.path.join(p, 'meta.json'), 'w'), indent=1)
        print(d, 'detected by', detected or '-', 'undecided', undecided or '-')

if __name__ == '__main__':
    main()
